"""C09 - generator of abstract Fortran projects for the link-resolution check.

The project shape (how many files / modules / submodules / programs / block data /
top-level procedures / types / abstract interfaces / namelists exist) and the
option combination are the quantifiers of the property; both are drawn here.
Everything random comes from the `rng` passed in.  The abstract project is a
plain JSON-able dict; `render(P)` turns it into files, pages and options.
"""
from __future__ import annotations

import random

OPS = ["operator(+)", "operator(<)", "operator(/)", "operator(*)", "operator(==)",
       "operator(.cross.)", "assignment(=)", "operator(>=)", "operator(//)"]


class Names:
    def __init__(self, rng):
        self.rng = rng
        self.n = 0

    def fresh(self, prefix):
        self.n += 1
        s = f"{prefix}{self.n}"
        if self.rng.random() < 0.25:
            s = s.capitalize() if self.rng.random() < 0.5 else s.upper()
        return s


def pick_count(rng, weights):
    """weights: list of (count, weight)"""
    tot = sum(w for _, w in weights)
    r = rng.random() * tot
    for c, w in weights:
        r -= w
        if r <= 0:
            return c
    return weights[-1][0]


def gen_var(rng, nm, types, role="mod"):
    v = {"name": nm.fresh("v"), "doc": rng.random() < 0.6, "perm": None, "type": None, "param": False}
    if types and rng.random() < 0.3:
        v["type"] = rng.choice(types)
    if role == "mod":
        r = rng.random()
        if r < 0.2:
            v["perm"] = "private"
        elif r < 0.3:
            v["perm"] = "public"
        elif r < 0.37:
            v["perm"] = "protected"
        if v["type"] is None and rng.random() < 0.2:
            v["param"] = True
    return v


def gen_proc(rng, nm, types, depth=0, allow_internal=True, kind=None):
    kind = kind or rng.choice(["subroutine", "function"])
    p = {"kind": kind, "name": nm.fresh("p" if kind == "subroutine" else "f"),
         "args": [], "doc": rng.random() < 0.8, "locals": [], "internal": [], "calls": [],
         "perm": None, "namelist": None, "common": None, "localtype": None, "localiface": None, "uses": [],
         # round 6: a function may declare its result: a name (`result(r)`) and / or a type, intrinsic or derived
         "result": None, "rtype": None}
    if kind == "function":
        if rng.random() < 0.3:
            p["result"] = nm.fresh("r")
        if rng.random() < 0.4:
            p["rtype"] = rng.choice(types) if types and rng.random() < 0.7 else "integer"
    for _ in range(rng.randint(0, 3)):
        a = {"name": nm.fresh("a"), "doc": rng.random() < 0.5, "type": None}
        if types and rng.random() < 0.3:
            a["type"] = rng.choice(types)
        p["args"].append(a)
    for _ in range(pick_count(rng, [(0, 5), (1, 3), (2, 1)])):
        p["locals"].append(gen_var(rng, nm, types, role="local"))
    if allow_internal and depth == 0 and rng.random() < 0.3:
        for _ in range(rng.randint(1, 2)):
            p["internal"].append(gen_proc(rng, nm, types, depth + 1, allow_internal=False))
    if p["locals"] and rng.random() < 0.25:
        p["namelist"] = {"name": nm.fresh("nl"), "vars": [v["name"] for v in p["locals"] if v["type"] is None] or None,
                         "doc": rng.random() < 0.7}
        if not p["namelist"]["vars"]:
            p["namelist"] = None
    if rng.random() < 0.1:
        p["common"] = {"name": nm.fresh("cb"), "var": nm.fresh("cv"), "doc": rng.random() < 0.5}
    if depth == 0 and rng.random() < 0.18:
        # entities declared inside a procedure that own neither a page nor an anchor (get_url() is None):
        # a derived type with a component, an interface block with an explicit body
        p["localtype"] = {"name": nm.fresh("lt"), "doc": True, "comp": nm.fresh("c"), "compdoc": rng.random() < 0.5}
    if depth == 0 and rng.random() < 0.08:
        p["localiface"] = {"name": nm.fresh("lp"), "doc": True, "generic": nm.fresh("lg") if rng.random() < 0.4 else None}
    return p


def gen_type(rng, nm, types_visible, procs):
    t = {"name": nm.fresh("t"), "doc": rng.random() < 0.8, "extends": None, "comps": [], "bound": [],
         "generic": None, "final": None, "perm": None, "constructor": False, "privcomps": rng.random() < 0.15}
    if types_visible and rng.random() < 0.35:
        t["extends"] = rng.choice(types_visible)
    for _ in range(rng.randint(0, 3)):
        c = {"name": nm.fresh("c"), "doc": rng.random() < 0.6, "type": None,
             "perm": rng.choice([None, None, None, "private", "public"])}
        if types_visible and rng.random() < 0.3:
            c["type"] = rng.choice(types_visible)
        t["comps"].append(c)
    r = rng.random()
    if r < 0.12:
        t["perm"] = "private"
    elif r < 0.2:
        t["perm"] = "public"
    return t


def gen_module(rng, nm, earlier_mods, size):
    m = {"kind": "module", "name": nm.fresh("m"), "doc": rng.random() < 0.8, "uses": [], "default": rng.choice([None, None, "private", "public"]),
         "vars": [], "types": [], "procs": [], "generics": [], "ifaces": [], "absints": [], "enums": [], "namelist": None,
         "modprocs": [], "common": None, "meta": {}}
    for e in earlier_mods:
        if rng.random() < 0.4:
            m["uses"].append(e["name"])
    tvis = [t["name"] for e in earlier_mods if e["name"] in m["uses"] for t in e["types"] if t["perm"] != "private" and e["default"] != "private"]
    nt = pick_count(rng, [(0, 4), (1, 3), (2, 2), (3, 1)]) if size > 0 else 0
    for _ in range(nt):
        t = gen_type(rng, nm, tvis, [])
        m["types"].append(t)
        tvis.append(t["name"])
    for _ in range(pick_count(rng, [(0, 3), (1, 3), (2, 2), (4, 1)])):
        m["vars"].append(gen_var(rng, nm, tvis))
    npr = pick_count(rng, [(0, 3), (1, 3), (2, 3), (3, 1)])
    for _ in range(npr):
        p = gen_proc(rng, nm, tvis)
        r = rng.random()
        if r < 0.2:
            p["perm"] = "private"
        elif r < 0.3:
            p["perm"] = "public"
        m["procs"].append(p)
    # type-bound procedures, finals and constructors need module procedures
    for t in m["types"]:
        subs = [p for p in m["procs"] if p["kind"] == "subroutine"]
        if m["procs"] and rng.random() < 0.6:
            for _ in range(rng.randint(1, 2)):
                impl = rng.choice(m["procs"])
                t["bound"].append({"name": nm.fresh("b"), "impl": impl["name"], "doc": rng.random() < 0.6,
                                   "perm": rng.choice([None, None, "private", "public"])})
            if len(t["bound"]) > 1 and rng.random() < 0.5:
                t["generic"] = {"name": nm.fresh("g"), "of": [b["name"] for b in t["bound"]], "doc": rng.random() < 0.5}
        if subs and rng.random() < 0.2:
            t["final"] = rng.choice(subs)["name"]
        funcs = [p for p in m["procs"] if p["kind"] == "function"]
        if funcs and rng.random() < 0.25:
            t["constructor"] = rng.choice(funcs)["name"]
    # generic interfaces over module procedures / operators
    if m["procs"] and rng.random() < 0.4:
        g = {"name": nm.fresh("gen"), "of": sorted({rng.choice(m["procs"])["name"] for _ in range(2)}), "doc": rng.random() < 0.7,
             "perm": rng.choice([None, None, "private"])}
        m["generics"].append(g)
    funcs = [p for p in m["procs"] if p["kind"] == "function" and len(p["args"]) == 2]
    if funcs and rng.random() < 0.6:
        m["generics"].append({"name": rng.choice(OPS[:6] + OPS[7:]), "of": [funcs[0]["name"]], "doc": rng.random() < 0.7, "perm": None})
    # interface blocks with explicit bodies: named generic, unnamed (interface procedures), abstract
    # round 6: the bodies may use the module's own derived types (host association / `import`) for arguments and results
    own = [t["name"] for t in m["types"]]
    for _ in range(pick_count(rng, [(0, 5), (1, 3), (2, 1)])):
        form = rng.choice(["named", "unnamed", "unnamed"])
        bodies = [gen_proc(rng, nm, own, allow_internal=False) for _ in range(rng.randint(1, 2))]
        for b in bodies:
            b["locals"], b["namelist"], b["common"], b["localtype"], b["localiface"] = [], None, None, None, None
        m["ifaces"].append({"form": form, "name": nm.fresh("ifc") if form == "named" else None, "bodies": bodies,
                            "doc": rng.random() < 0.6})
    for _ in range(pick_count(rng, [(0, 5), (1, 3), (2, 1)])):
        b = gen_proc(rng, nm, own, allow_internal=False)
        b["locals"], b["namelist"], b["common"], b["localtype"], b["localiface"] = [], None, None, None, None
        m["absints"].append(b)
    for _ in range(pick_count(rng, [(0, 6), (1, 2)])):
        m["enums"].append({"doc": rng.random() < 0.6, "items": [nm.fresh("e") for _ in range(rng.randint(1, 3))],
                           "itemdoc": rng.random() < 0.5})
    if [v for v in m["vars"] if v["type"] is None and not v["param"]] and rng.random() < 0.3:
        m["namelist"] = {"name": nm.fresh("nl"), "vars": [v["name"] for v in m["vars"] if v["type"] is None and not v["param"]],
                         "doc": rng.random() < 0.7}
    # separate module procedures (interface in the module, body in a submodule)
    for _ in range(pick_count(rng, [(0, 5), (1, 3), (2, 2)])):
        b = gen_proc(rng, nm, own, allow_internal=False)
        b["locals"], b["namelist"], b["common"], b["localtype"], b["localiface"] = [], None, None, None, None
        b["implform"] = rng.choice(["procedure", "full"])
        m["modprocs"].append(b)
    return m


def gen_submodules(rng, nm, m):
    """Submodules implementing m['modprocs'] (possibly a chain of two)."""
    out = []
    if not m["modprocs"]:
        if rng.random() < 0.1:
            out.append({"kind": "submodule", "name": nm.fresh("sm"), "ancestor": m["name"], "parent": None,
                        "doc": True, "impls": [], "procs": [], "vars": []})
        return out
    s1 = {"kind": "submodule", "name": nm.fresh("sm"), "ancestor": m["name"], "parent": None, "doc": rng.random() < 0.8,
          "impls": [], "procs": [], "vars": []}
    out.append(s1)
    tgt = s1
    if len(m["modprocs"]) > 1 and rng.random() < 0.5:
        s2 = {"kind": "submodule", "name": nm.fresh("sm"), "ancestor": m["name"], "parent": s1["name"], "doc": rng.random() < 0.8,
              "impls": [], "procs": [], "vars": []}
        out.append(s2)
        tgt = s2
    for i, b in enumerate(m["modprocs"]):
        (s1 if i == 0 else tgt)["impls"].append(b)
    if rng.random() < 0.3:
        s1["procs"].append(gen_proc(rng, nm, [], allow_internal=False))
    if rng.random() < 0.3:
        s1["vars"].append(gen_var(rng, nm, [], role="local"))
    return out


def gen_program(rng, nm, mods):
    p = {"kind": "program", "name": nm.fresh("prog"), "doc": rng.random() < 0.8, "uses": [], "vars": [], "procs": [],
         "calls": [], "namelist": None, "types": []}
    for e in mods:
        if rng.random() < 0.5:
            p["uses"].append(e["name"])
    for _ in range(rng.randint(0, 2)):
        p["vars"].append(gen_var(rng, nm, [], role="local"))
    for _ in range(pick_count(rng, [(0, 3), (1, 2), (2, 1)])):
        p["procs"].append(gen_proc(rng, nm, [], allow_internal=False))
    if rng.random() < 0.2:
        p["types"].append(gen_type(rng, nm, [], []))
    if p["vars"] and rng.random() < 0.3:
        vs = [v["name"] for v in p["vars"] if v["type"] is None]
        if vs:
            p["namelist"] = {"name": nm.fresh("nl"), "vars": vs, "doc": rng.random() < 0.7}
    return p


def gen_blockdata(rng, nm, named=True):
    b = {"kind": "blockdata", "name": nm.fresh("bd") if named else None, "doc": rng.random() < 0.8,
         "common": nm.fresh("cb"), "vars": [nm.fresh("cv") for _ in range(rng.randint(1, 2))], "vardoc": rng.random() < 0.5,
         "type": None}
    if rng.random() < 0.4:
        # a block data unit may define derived types (sequence types for objects in COMMON)
        b["type"] = {"name": nm.fresh("bt"), "doc": rng.random() < 0.8, "comp": nm.fresh("c"), "var": nm.fresh("bv")}
    return b


# How the project directory / the output directory is reached (the property quantifies over every project; where it
# lives and how its path is spelt is part of that): directly, through a symbolic link (the project directory itself or
# one of its ancestors: symlinked home / checkout / `current -> releases/x`), through a path with `..` in it, or with an
# output directory whose path crosses a symbolic link.
LOCATIONS = ["plain"] * 6 + ["symlink-root", "symlink-ancestor", "dotdot", "symlink-output"]

SHAPES = ["any", "any", "any", "single-file", "program-only", "no-modules", "procs-only", "module-only", "two-programs", "blockdata"]


def gen_project(rng: random.Random, size: int = 2) -> dict:
    nm = Names(rng)
    shape = rng.choice(SHAPES)
    mods, subs, progs, blocks, tops = [], [], [], [], []
    if shape == "program-only":
        n_mod, n_prog, n_bd, n_top = 0, 1, 0, 0
    elif shape == "no-modules":
        n_mod, n_prog, n_bd, n_top = 0, rng.randint(0, 2), rng.randint(0, 1), rng.randint(1, 3)
    elif shape == "procs-only":
        n_mod, n_prog, n_bd, n_top = 0, 0, 0, rng.randint(1, 3)
    elif shape == "module-only":
        n_mod, n_prog, n_bd, n_top = 1, 0, 0, 0
    elif shape == "two-programs":
        n_mod, n_prog, n_bd, n_top = rng.randint(0, 2), 2, rng.randint(0, 1), rng.randint(0, 1)
    elif shape == "blockdata":
        n_mod, n_prog, n_bd, n_top = rng.randint(0, 1), rng.randint(0, 1), rng.randint(1, 3), rng.randint(0, 1)
    else:
        n_mod = pick_count(rng, [(0, 1), (1, 3), (2, 3), (3, 2)])
        n_prog = pick_count(rng, [(0, 3), (1, 4), (2, 1)])
        n_bd = pick_count(rng, [(0, 6), (1, 2), (2, 1)])
        n_top = pick_count(rng, [(0, 4), (1, 3), (2, 1)])
    for _ in range(n_mod):
        m = gen_module(rng, nm, mods, size)
        mods.append(m)
        subs.extend(gen_submodules(rng, nm, m))
    for _ in range(n_prog):
        progs.append(gen_program(rng, nm, mods))
    for k in range(n_bd):
        blocks.append(gen_blockdata(rng, nm, named=not (k == 0 and rng.random() < 0.2)))
    for _ in range(n_top):
        tops.append(gen_proc(rng, nm, []))
    units = mods + subs + progs + blocks + tops
    if not units:
        progs.append(gen_program(rng, nm, mods))
        units = list(progs)
    # calls between procedures (for call graphs and the "calls" lists)
    allprocs = [p for m in mods for p in m["procs"]] + tops
    callers = allprocs + [q for p in allprocs for q in p["internal"]] + progs
    for c in callers:
        cand = [p for p in tops if p["kind"] == "subroutine" and p is not c]
        if c.get("kind") == "program":
            cand += [p for m in mods if m["name"] in c["uses"] for p in m["procs"] if p["kind"] == "subroutine" and p["perm"] != "private" and m["default"] != "private"]
        for _ in range(pick_count(rng, [(0, 2), (1, 2), (2, 1)])):
            if cand:
                c["calls"].append(rng.choice(cand)["name"])
    # distribute units over files
    if shape == "single-file" or len(units) == 1:
        nfiles = 1
    else:
        nfiles = pick_count(rng, [(1, 2), (2, 3), (3, 2), (len(units), 2)])
        nfiles = max(1, min(nfiles, len(units)))
    files = [{"name": None, "units": [], "doc": rng.random() < 0.6} for _ in range(nfiles)]
    for i, u in enumerate(units):
        files[i % nfiles if i < nfiles else rng.randrange(nfiles)]["units"].append(u)
    exts = ["f90", "f90", "F90", "f95", "f03", "f08"]
    subdirs = ["", "", "sub/", "sub/deep/"]
    for i, f in enumerate(files):
        base = (f["units"][0].get("name") or "unnamed").lower()
        f["name"] = rng.choice(subdirs) + f"{base}_{i}." + rng.choice(exts)
    # order units inside a file: modules before their users is not required by FORD
    extra = []
    if rng.random() < 0.2:
        extra.append({"name": "notes.inc", "doc": True})
        if rng.random() < 0.3:
            extra.append({"name": "sub/more.inc", "doc": False})
    P = {"shape": shape, "files": files, "extra_files": extra}
    P["opts"] = gen_options(rng)
    P["pages"] = gen_pages(rng) if rng.random() < 0.4 else None
    P["media"] = rng.random() < 0.25
    P["links"] = gen_links(rng, P)
    P["location"] = rng.choice(LOCATIONS)
    P["assets"] = gen_assets(rng, P)
    return P


def gen_options(rng):
    o = {}
    o["incl_src"] = rng.random() < 0.7
    o["search"] = rng.random() < 0.35
    o["graph"] = rng.random() < 0.35
    o["proc_internals"] = rng.random() < 0.4
    o["display"] = rng.choice([["public", "protected"], ["public", "protected"], ["public"], ["public", "private", "protected"],
                               ["private"], ["public", "private"]])
    o["sort"] = rng.choice(["src", "alpha", "permission", "permission-alpha", "type", "type-alpha"])
    o["source"] = rng.random() < 0.3
    o["hide_undoc"] = rng.random() < 0.15
    o["graph_dir"] = o["graph"] and rng.random() < 0.3
    # small limits make FORD fall back to the "graph as table" rendering / truncate graphs
    o["graph_maxnodes"] = rng.choice([None, None, 1, 2, 3, 5]) if o["graph"] else None
    o["graph_maxdepth"] = rng.choice([None, None, 1, 2]) if o["graph"] else None
    o["show_proc_parent"] = rng.random() < 0.3
    o["summary"] = rng.random() < 0.3
    o["author"] = rng.random() < 0.3
    o["version"] = rng.random() < 0.2
    o["max_frontpage_items"] = rng.choice([10, 10, 1, 0, 3])
    o["license"] = rng.choice([None, "by", "gfdl"])
    o["css"] = rng.random() < 0.15
    o["privacy"] = rng.random() < 0.15
    o["externalize"] = rng.random() < 0.1
    return o


# Names of the directories / pages of the static page tree.  The property quantifies over every page depth, and a page
# is identified by its whole path, not by the name of its directory or file: so names repeat at different depths
# (`page/examples/` and `page/dev/examples/`, `page/sub/sub/`), and some are the names FORD itself uses for directories
# of the output (`module/`, `lists/`, `page/`, the default output directory `doc`).
PAGE_DIR_NAMES = ["sub", "other", "deeper", "examples", "dev", "module", "lists", "proc", "page", "doc", "media", "src"]
PAGE_LEAF_NAMES = ["first", "leaf", "last", "notes"]
# File names of static pages are the user's: release notes and versioned documents have dots in their stem
# (`release-1.2.md`, `v2.0-notes.md`), directories too (`v1.0/`).  Whatever FORD calls the page it writes for such a
# file, the links it writes itself (side-bar tree, breadcrumbs, navigation bar, search index) have to name that file.
PAGE_DOTTED_LEAF_NAMES = ["release-1.2", "v2.0-notes", "changes.2024", "a.b.c", "notes.final", "x..y"]
PAGE_DOTTED_DIR_NAMES = ["v1.0", "rel.2"]


def gen_pages(rng):
    """Static page tree: {relative path: {"title", "links"}}; nested up to depth 3; directory and page names may repeat
    at different places of the tree."""
    used = []

    def dname(avoid=()):
        # a name seen before (elsewhere in the tree) with probability 0.4, else any name of the pool
        cand = [n for n in (used if used and rng.random() < 0.4 else PAGE_DIR_NAMES) if n not in avoid]
        n = rng.choice(cand or [x for x in PAGE_DIR_NAMES if x not in avoid])
        if dotted and rng.random() < 0.25:
            n = rng.choice([x for x in PAGE_DOTTED_DIR_NAMES if x not in avoid])
        used.append(n)
        return n

    def leaf():
        if dotted and rng.random() < 0.6:
            return rng.choice(PAGE_DOTTED_LEAF_NAMES)
        return rng.choice(PAGE_LEAF_NAMES)

    dotted = rng.random() < 0.35

    pages = {"index.md": {"title": "Notes"}}
    if rng.random() < 0.7:
        pages[f"{leaf()}.md"] = {"title": "First"}
    a = None
    if rng.random() < 0.6:
        a = dname()
        pages[f"{a}/index.md"] = {"title": "Sub"}
        if rng.random() < 0.6:
            pages[f"{a}/{leaf()}.md"] = {"title": "Leaf"}
        if rng.random() < 0.5:
            b = dname()
            pages[f"{a}/{b}/index.md"] = {"title": "Deeper"}
            if rng.random() < 0.5:
                pages[f"{a}/{b}/{leaf()}.md"] = {"title": "Last"}
    if rng.random() < 0.35:
        c = dname(avoid=(a,))
        pages[f"{c}/index.md"] = {"title": "Other"}
        if rng.random() < 0.4:
            pages[f"{c}/{leaf()}.md"] = {"title": "Other leaf"}
        if rng.random() < 0.4:
            d = dname()
            pages[f"{c}/{d}/index.md"] = {"title": "Other deeper"}
            if rng.random() < 0.5:
                pages[f"{c}/{d}/{leaf()}.md"] = {"title": "Other last"}
    return pages


# ----------------------------------------------------------------- files that are not pages

# A user-supplied icon may be any image type (the option takes a path; the documentation example is a .png, real
# projects use .ico / .svg as well); sub-directories and upper-case suffixes occur too.
ICONS = ["logo.png", "logo.ico", "logo.svg", "icons/Logo.PNG", "logo.jpg", "brand.gif", "favicon.ico"]
MATHJAX = ["conf.js", "mj/My-Config.js"]
COPY_FILES = [["a.png"], ["a.png", "deep/b.csv"], ["plot.svg", "data/table.csv", "data/more/x.txt"]]
DIR_FILES = [["notes.txt"], ["notes.txt", "plot.png"], ["archive.tar.gz"]]


def gen_page_assets(rng, pages):
    """What lies next to the static pages besides Markdown: directories copied through `copy_subdir` (the project-wide
    setting = fall-back of every page, or the page's own metadata - index pages and other pages alike) and plain files
    of a page directory; plus relative links from the pages to all of it and to one another."""
    dirs = sorted({rel.rsplit("/", 1)[0] if "/" in rel else "" for rel in pages})
    out = {"proj_copy_subdir": [], "copy_dirs": [], "own": {}, "dir_files": {}, "page_links": rng.random() < 0.6}
    if rng.random() < 0.35:
        out["proj_copy_subdir"] = ["figs"] + (["data"] if rng.random() < 0.3 else [])
        for d in dirs:
            for name in out["proj_copy_subdir"]:
                if rng.random() < 0.6:
                    out["copy_dirs"].append({"dir": d, "name": name, "files": rng.choice(COPY_FILES)})
    for rel in sorted(pages):
        if rng.random() < 0.3:
            d = rel.rsplit("/", 1)[0] if "/" in rel else ""
            stem = rel.rsplit("/", 1)[-1][:-3]
            names = [f"img_{stem}"] + ([f"extra_{stem}"] if rng.random() < 0.25 else [])
            out["own"][rel] = names
            for name in names:
                out["copy_dirs"].append({"dir": d, "name": name, "files": rng.choice(COPY_FILES)})
    for d in dirs:
        if rng.random() < 0.35:
            out["dir_files"][d] = rng.choice(DIR_FILES)
    return out


def gen_assets(rng, P):
    return {"favicon": rng.choice(ICONS) if rng.random() < 0.3 else None,
            "mathjax": rng.choice(MATHJAX) if rng.random() < 0.15 else None,
            "pages": gen_page_assets(rng, P["pages"]) if P["pages"] and rng.random() < 0.7 else None}


def page_asset_links(P, rel):
    """Relative links a page may rely on: into the directories its *effective* `copy_subdir` names (its own metadata,
    else the project setting) that exist next to it, to the plain files of its directory, to other pages."""
    import posixpath

    pa = (P.get("assets") or {}).get("pages")
    if not pa:
        return []
    d = rel.rsplit("/", 1)[0] if "/" in rel else ""
    eff = pa["own"].get(rel) or pa["proj_copy_subdir"]
    out = []
    for cd in pa["copy_dirs"]:
        if cd["dir"] == d and cd["name"] in eff:
            for f in cd["files"]:
                out.append((f"![fig]({cd['name']}/{f})" if f.endswith((".png", ".svg")) else f"[file]({cd['name']}/{f})", "page-copy_subdir"))
    for f in pa["dir_files"].get(d, []):
        out.append((f"[file]({f})", "page-dir-file"))
    if pa["page_links"]:
        for other in sorted(P["pages"]):
            # a hand-written link names the output file as the *user* expects it; for a page file with a dot in its stem
            # that name is FORD's decision (C17-dotted-stem-truncated), so no hand-written link is generated to such a
            # page - the links FORD writes itself (side-bar tree, breadcrumbs, search index) are the ones under test
            if other != rel and "." not in other.rsplit("/", 1)[-1][:-3]:
                out.append((f"[page]({posixpath.relpath(other[:-3] + '.html', d or '.')})", "page-relative"))
    return out


# ----------------------------------------------------------------- doc links

def entity_index(P):
    """Named entities that documentation may refer to: list of (link text, class) """
    out = []
    for f in P["files"]:
        for u in f["units"]:
            k = u["kind"]
            if k == "module":
                out.append((f"[[{u['name']}]]", "module"))
                out.append((f"[[{u['name']}(module)]]", "module"))
                for v in u["vars"]:
                    out.append((f"[[{u['name']}:{v['name']}]]", "modvar:" + (v["perm"] or u["default"] or "public")))
                    out.append((f"[[{u['name']}(module):{v['name']}(variable)]]", "modvar:" + (v["perm"] or u["default"] or "public")))
                for t in u["types"]:
                    tp = t["perm"] or u["default"] or "public"
                    out.append((f"[[{t['name']}]]", "type:" + tp))
                    out.append((f"[[{t['name']}(type)]]", "type:" + tp))
                    for c in t["comps"]:
                        out.append((f"[[{t['name']}:{c['name']}]]", "comp:" + tp + ":" + (c["perm"] or ("private" if t["privcomps"] else "public"))))
                    for b in t["bound"]:
                        out.append((f"[[{t['name']}(type):{b['name']}(bound)]]", "bound:" + tp + ":" + (b["perm"] or "public")))
                    if t["generic"]:
                        out.append((f"[[{t['name']}:{t['generic']['name']}]]", "bound-generic:" + tp))
                    if t["final"]:
                        out.append((f"[[{t['name']}:{t['final']}(final)]]", "final:" + tp))
                for p in u["procs"]:
                    pp = p["perm"] or u["default"] or "public"
                    out.append((f"[[{p['name']}]]", "modproc:" + pp))
                    out.append((f"[[{p['name']}(proc)]]", "modproc:" + pp))
                    out.append((f"[[{u['name']}:{p['name']}]]", "modproc-child:" + pp))
                    for a in p["args"]:
                        out.append((f"[[{p['name']}:{a['name']}]]", "arg:" + pp))
                    for q in p["internal"]:
                        out.append((f"[[{p['name']}:{q['name']}]]", "internal:" + pp))
                    for v in p["locals"]:
                        out.append((f"[[{p['name']}:{v['name']}]]", "local:" + pp))
                for g in u["generics"]:
                    if "(" not in g["name"]:
                        out.append((f"[[{g['name']}]]", "generic:" + (g["perm"] or u["default"] or "public")))
                        out.append((f"[[{u['name']}:{g['name']}(interface)]]", "generic-child:" + (g["perm"] or u["default"] or "public")))
                for i in u["ifaces"]:
                    if i["name"]:
                        out.append((f"[[{i['name']}]]", "named-iface:" + (u["default"] or "public")))
                    for b in i["bodies"]:
                        out.append((f"[[{b['name']}]]", "iface-body:" + (u["default"] or "public")))
                for a in u["absints"]:
                    out.append((f"[[{a['name']}]]", "absint:" + (u["default"] or "public")))
                    out.append((f"[[{a['name']}(absinterface)]]", "absint:" + (u["default"] or "public")))
                for b in u["modprocs"]:
                    out.append((f"[[{b['name']}]]", "modproc-iface:" + (u["default"] or "public")))
                if u["namelist"]:
                    out.append((f"[[{u['namelist']['name']}(namelist)]]", "namelist"))
            elif k == "submodule":
                out.append((f"[[{u['name']}]]", "submodule"))
                out.append((f"[[{u['name']}(submodule)]]", "submodule"))
            elif k == "program":
                out.append((f"[[{u['name']}]]", "program"))
                out.append((f"[[{u['name']}(program)]]", "program"))
                for v in u["vars"]:
                    out.append((f"[[{u['name']}:{v['name']}]]", "progvar"))
                for p in u["procs"]:
                    out.append((f"[[{u['name']}:{p['name']}]]", "progproc"))
                for t in u["types"]:
                    out.append((f"[[{t['name']}]]", "progtype"))
            elif k == "blockdata":
                if u["name"]:
                    out.append((f"[[{u['name']}(block)]]", "blockdata"))
                    out.append((f"[[{u['name']}]]", "blockdata"))
                if u.get("type"):
                    out.append((f"[[{u['type']['name']}]]", "blockdata-type"))
                    out.append((f"[[{u['type']['name']}(type)]]", "blockdata-type"))
            else:
                out.append((f"[[{u['name']}]]", "topproc"))
                for a in u["args"]:
                    out.append((f"[[{u['name']}:{a['name']}]]", "toparg"))
                for q in u["internal"]:
                    out.append((f"[[{u['name']}:{q['name']}]]", "top-internal"))
        out.append((f"[[{f['name'].split('/')[-1]}(file)]]", "file"))
    for e in P["extra_files"]:
        out.append((f"[[{e['name'].split('/')[-1]}(file)]]", "extrafile"))
    return out


def md_link_pool(P):
    """Markdown links through FORD's |url| / |page| / |media| aliases and plain relative links."""
    pool = [("[front](|url|/index.html)", "alias-url")]
    if P["pages"]:
        for rel in P["pages"]:
            html = rel[:-3] + ".html"
            if "." in rel.rsplit("/", 1)[-1][:-3]:
                continue    # hand-written name of a page whose name is FORD's decision, see page_asset_links
            pool.append((f"[pg](|page|/{html})", "alias-page"))
    if P["media"]:
        pool.append(("![pic](|media|/pic.png)", "alias-media"))
        pool.append(("[pic](|media|/pic.png)", "alias-media"))
    pool.append(("[ext](https://example.org/x/y.html)", "external"))
    return pool


def gen_links(rng, P):
    """Assign to every documentable slot a list of link texts.  Slots are addressed
    by a running counter in render(); here we only fix a seed and rates."""
    return {"seed": rng.randrange(1 << 30), "rate": rng.choice([0.0, 0.3, 0.6, 0.9]),
            "md_rate": rng.choice([0.0, 0.15, 0.3]),
            # doc comments of more than one paragraph (the summary is then shorter than the documentation and FORD
            # appends a "Read more" link) and doc comments with an explicit `summary:` metadata line
            "para_rate": rng.choice([0.0, 0.25, 0.5, 0.8]), "summary_rate": rng.choice([0.0, 0.0, 0.1, 0.3]),
            # doc comments that are a bullet list only (the converted documentation has no <p> paragraph)
            "list_rate": rng.choice([0.0, 0.0, 0.1, 0.25]),
            # Markdown constructs whose definitions the converter keeps in a table of its own until it is reset
            # (footnotes: every definition in the table is listed below the converted text with a back-link to the
            # place that refers to it): in doc comments, static pages and the front page text; `fn_first_rate` = share
            # of them whose reference sits in the first paragraph (the part that becomes the summary)
            "fn_rate": rng.choice([0.0, 0.0, 0.15, 0.4]), "fn_first_rate": rng.choice([0.0, 0.0, 0.3])}


# ----------------------------------------------------------------- rendering

class _Ctx:
    def __init__(self, P):
        self.P = P
        self.rng = random.Random(P["links"]["seed"])
        self.rate = P["links"]["rate"]
        self.md_rate = P["links"]["md_rate"]
        self.para_rate = P["links"].get("para_rate", 0.0)
        self.summary_rate = P["links"].get("summary_rate", 0.0)
        self.list_rate = P["links"].get("list_rate", 0.0)
        self.fn_rate = P["links"].get("fn_rate", 0.0)
        self.fn_first_rate = P["links"].get("fn_first_rate", 0.0)
        self.fn_n = 0
        self.fn_first: list[str] = []   # labels referred to in the first paragraph of their text
        self.pool = entity_index(P)
        self.mdpool = md_link_pool(P)
        self.used: dict[str, int] = {}

    def doc(self, has_doc, what, indent="  ", extra=None):
        """doc comment lines for an entity (after its statement)"""
        if not has_doc:
            return []
        txt = f"documentation of {what}"
        r = self.rng
        if self.pool and r.random() < self.rate:
            for _ in range(r.randint(1, 2)):
                lk, cls = r.choice(self.pool)
                self.used[cls] = self.used.get(cls, 0) + 1
                txt += f" see {lk}"
        if r.random() < self.md_rate:
            lk, cls = r.choice(self.mdpool)
            self.used[cls] = self.used.get(cls, 0) + 1
            txt += f" and {lk}"
        note, note_first = None, False
        if r.random() < self.fn_rate:
            self.fn_n += 1
            note, note_first = f"fn{self.fn_n}", r.random() < self.fn_first_rate
            self.used["(footnote)"] = self.used.get("(footnote)", 0) + 1
            if note_first:
                txt += f" with a note[^{note}]"
                self.fn_first.append(note)
        lines = [f"{indent}!! {txt}"]
        if note and not note_first:
            lines += [f"{indent}!!", f"{indent}!! remark with a note[^{note}] in a later paragraph"]
        if not note and r.random() < self.list_rate:
            self.used["(list-only doc)"] = self.used.get("(list-only doc)", 0) + 1
            lines = [f"{indent}!! * {txt}", f"{indent}!! * second point about {what}"]
        elif r.random() < self.para_rate:
            # further paragraphs: the first one becomes the summary, the entity's page shows everything
            self.used["(multi-paragraph doc)"] = self.used.get("(multi-paragraph doc)", 0) + 1
            for _ in range(r.randint(1, 2)):
                more = f"more about {what}"
                if self.pool and r.random() < self.rate:
                    lk, cls = r.choice(self.pool)
                    self.used[cls] = self.used.get(cls, 0) + 1
                    more += f" see {lk}"
                lines += [f"{indent}!!", f"{indent}!! {more}"]
        if note:
            lines += [f"{indent}!!", f"{indent}!! [^{note}]: text of note {note}"]
        if r.random() < self.summary_rate:
            # metadata block in front of the documentation (ends at the first blank doc line)
            self.used["(summary metadata)"] = self.used.get("(summary metadata)", 0) + 1
            lines = [f"{indent}!! summary: brief of {what}", f"{indent}!!"] + lines
        if extra:
            lines += [f"{indent}!! {e}" for e in extra]
        return lines


def _decl(v):
    if v.get("type"):
        return f"type({v['type']})"
    return "integer"


def render_proc(cx, p, ind, in_iface=False, prefix=""):
    L = []
    args = ", ".join(a["name"] for a in p["args"])
    head = f"{prefix}{p['kind']} {p['name']}({args})" + (f" result({p['result']})" if p.get("result") else "")
    L.append(ind + head)
    L += cx.doc(p["doc"], f"procedure {p['name']}", ind + "  ")
    for u in p.get("uses", []):
        L.append(f"{ind}  use {u}")
    if p.get("localtype"):
        lt = p["localtype"]
        L.append(f"{ind}  type {lt['name']}")
        L += cx.doc(True, f"local type {lt['name']}", ind + "    ")
        L.append(f"{ind}    integer :: {lt['comp']}")
        L += cx.doc(lt.get("compdoc", False), f"component {lt['comp']} of local type {lt['name']}", ind + "      ")
        L.append(f"{ind}  end type {lt['name']}")
    if p.get("localiface"):
        li = p["localiface"]
        L.append(f"{ind}  interface {li['generic']}" if li["generic"] else f"{ind}  interface")
        if li["generic"]:
            L += cx.doc(True, f"local interface {li['generic']}", ind + "    ")
        L.append(f"{ind}    subroutine {li['name']}()")
        L += cx.doc(True, f"local interface procedure {li['name']}", ind + "      ")
        L.append(f"{ind}    end subroutine {li['name']}")
        L.append(f"{ind}  end interface")
    for a in p["args"]:
        L.append(f"{ind}  {_decl(a)} :: {a['name']}")
        L += cx.doc(a["doc"], f"argument {a['name']}", ind + "    ")
    if p["kind"] == "function" and p.get("rtype"):
        rt = p["rtype"] if p["rtype"] == "integer" else f"type({p['rtype']})"
        L.append(f"{ind}  {rt} :: {p.get('result') or p['name']}")
    for v in p["locals"]:
        L.append(f"{ind}  {_decl(v)} :: {v['name']}")
        L += cx.doc(v["doc"], f"local {v['name']}", ind + "    ")
    if p.get("common"):
        c = p["common"]
        L.append(f"{ind}  integer :: {c['var']}")
        L.append(f"{ind}  common /{c['name']}/ {c['var']}")
        L += cx.doc(c["doc"], f"common {c['name']}", ind + "    ")
    if p.get("namelist"):
        n = p["namelist"]
        L.append(f"{ind}  namelist /{n['name']}/ {', '.join(n['vars'])}")
        L += cx.doc(n["doc"], f"namelist {n['name']}", ind + "    ")
    if not in_iface:
        if p["kind"] == "function" and p.get("rtype") in (None, "integer"):
            L.append(f"{ind}  {p.get('result') or p['name']} = 1")
        for c in p["calls"]:
            L.append(f"{ind}  call {c}()")
        for q in p["internal"]:
            L.append(f"{ind}  call {q['name']}()" if q["kind"] == "subroutine" else f"{ind}  print *, {q['name']}()")
        if p["internal"]:
            L.append(f"{ind}contains")
            for q in p["internal"]:
                L += render_proc(cx, q, ind + "  ")
    L.append(f"{ind}end {p['kind']} {p['name']}")
    return L


def render_type(cx, t, ind, default=None):
    L = []
    attrs = ""
    if t["extends"]:
        attrs += f", extends({t['extends']})"
    if t["perm"]:
        attrs += f", {t['perm']}"
    L.append(f"{ind}type{attrs} :: {t['name']}")
    L += cx.doc(t["doc"], f"type {t['name']}", ind + "  ")
    if t["privcomps"]:
        L.append(f"{ind}  private")
    for c in t["comps"]:
        pa = f", {c['perm']}" if c["perm"] else ""
        d = f"type({c['type']}), allocatable" if c["type"] else "integer"
        L.append(f"{ind}  {d}{pa} :: {c['name']}")
        L += cx.doc(c["doc"], f"component {c['name']}", ind + "    ")
    if t["bound"] or t["final"]:
        L.append(f"{ind}contains")
        for b in t["bound"]:
            pa = f", {b['perm']}" if b["perm"] else ""
            L.append(f"{ind}  procedure, nopass{pa} :: {b['name']} => {b['impl']}")
            L += cx.doc(b["doc"], f"bound procedure {b['name']}", ind + "    ")
        if t["generic"]:
            g = t["generic"]
            L.append(f"{ind}  generic :: {g['name']} => {', '.join(g['of'])}")
            L += cx.doc(g["doc"], f"generic binding {g['name']}", ind + "    ")
        if t["final"]:
            L.append(f"{ind}  final :: {t['final']}")
            L += cx.doc(True, f"finaliser {t['final']}", ind + "    ")
    L.append(f"{ind}end type {t['name']}")
    return L


def render_unit(cx, u):
    k = u["kind"]
    L = []
    if k == "module":
        L.append(f"module {u['name']}")
        L += cx.doc(u["doc"], f"module {u['name']}", "  ")
        for m in u["uses"]:
            L.append(f"  use {m}")
        L.append("  implicit none")
        if u["default"]:
            L.append(f"  {u['default']}")
        for g in u["generics"]:
            if g["perm"]:
                L.append(f"  {g['perm']} :: {g['name']}")
        for e in u["enums"]:
            L.append("  enum, bind(c)")
            L += cx.doc(e["doc"], "an enum", "    ")
            for i, it in enumerate(e["items"]):
                L.append(f"    enumerator :: {it} = {i}")
                L += cx.doc(e["itemdoc"], f"enumerator {it}", "      ")
            L.append("  end enum")
        for t in u["types"]:
            L += render_type(cx, t, "  ")
        for v in u["vars"]:
            attrs = ""
            if v["perm"]:
                attrs += f", {v['perm']}"
            if v["param"]:
                L.append(f"  integer, parameter{attrs} :: {v['name']} = 1")
            else:
                L.append(f"  {_decl(v)}{attrs} :: {v['name']}")
            L += cx.doc(v["doc"], f"variable {v['name']}", "    ")
        if u["namelist"]:
            n = u["namelist"]
            L.append(f"  namelist /{n['name']}/ {', '.join(n['vars'])}")
            L += cx.doc(n["doc"], f"namelist {n['name']}", "    ")
        for t in u["types"]:
            if t["constructor"]:
                L.append(f"  interface {t['name']}")
                L += cx.doc(True, f"constructor of {t['name']}", "    ")
                L.append(f"    module procedure {t['constructor']}")
                L.append(f"  end interface {t['name']}")
        for g in u["generics"]:
            L.append(f"  interface {g['name']}")
            L += cx.doc(g["doc"], f"generic {g['name']}", "    ")
            L.append(f"    module procedure {', '.join(g['of'])}")
            L.append("  end interface")
        for i in u["ifaces"]:
            L.append(f"  interface {i['name']}" if i["name"] else "  interface")
            if i["name"]:
                L += cx.doc(i["doc"], f"interface {i['name']}", "    ")
            for b in i["bodies"]:
                L += render_proc(cx, b, "    ", in_iface=True)
            L.append("  end interface")
        for a in u["absints"]:
            L.append("  abstract interface")
            L += render_proc(cx, a, "    ", in_iface=True)
            L.append("  end interface")
        if u["modprocs"]:
            L.append("  interface")
            for b in u["modprocs"]:
                L += render_proc(cx, b, "    ", in_iface=True, prefix="module ")
            L.append("  end interface")
        for p in u["procs"]:
            if p["perm"]:
                L.append(f"  {p['perm']} :: {p['name']}")
        if u["procs"]:
            L.append("contains")
            for p in u["procs"]:
                L += render_proc(cx, p, "  ")
        L.append(f"end module {u['name']}")
    elif k == "submodule":
        par = f"{u['ancestor']}:{u['parent']}" if u["parent"] else u["ancestor"]
        L.append(f"submodule ({par}) {u['name']}")
        L += cx.doc(u["doc"], f"submodule {u['name']}", "  ")
        for v in u["vars"]:
            L.append(f"  integer :: {v['name']}")
            L += cx.doc(v["doc"], f"variable {v['name']}", "    ")
        if u["impls"] or u["procs"]:
            L.append("contains")
        for b in u["impls"]:
            if b["implform"] == "procedure":
                L.append(f"  module procedure {b['name']}")
                L += cx.doc(b["doc"], f"implementation of {b['name']}", "    ")
                if b["kind"] == "function":
                    L.append(f"    {b['name']} = 1")
                L.append(f"  end procedure {b['name']}")
            else:
                bb = dict(b, locals=[], internal=[], calls=[])
                L += render_proc(cx, bb, "  ", prefix="module ")
        for p in u["procs"]:
            L += render_proc(cx, p, "  ")
        L.append(f"end submodule {u['name']}")
    elif k == "program":
        L.append(f"program {u['name']}")
        L += cx.doc(u["doc"], f"program {u['name']}", "  ")
        for m in u["uses"]:
            L.append(f"  use {m}")
        L.append("  implicit none")
        for t in u["types"]:
            L += render_type(cx, t, "  ")
        for v in u["vars"]:
            L.append(f"  integer :: {v['name']}")
            L += cx.doc(v["doc"], f"variable {v['name']}", "    ")
        if u["namelist"]:
            n = u["namelist"]
            L.append(f"  namelist /{n['name']}/ {', '.join(n['vars'])}")
            L += cx.doc(n["doc"], f"namelist {n['name']}", "    ")
        for c in u["calls"]:
            L.append(f"  call {c}()")
        for p in u["procs"]:
            if p["kind"] == "subroutine" and not p["args"]:
                L.append(f"  call {p['name']}()")
        if u["procs"]:
            L.append("contains")
            for p in u["procs"]:
                L += render_proc(cx, p, "  ")
        L.append(f"end program {u['name']}")
    elif k == "blockdata":
        L.append(f"block data {u['name']}" if u["name"] else "block data")
        L += cx.doc(u["doc"], f"block data {u['name']}", "  ")
        if u.get("type"):
            t = u["type"]
            L.append(f"  type {t['name']}")
            L += cx.doc(t["doc"], f"block data type {t['name']}", "    ")
            L.append("    sequence")
            L.append(f"    integer :: {t['comp']}")
            L.append(f"  end type {t['name']}")
            L.append(f"  type({t['name']}) :: {t['var']}")
            L += cx.doc(u["vardoc"], f"variable {t['var']}", "    ")
        for v in u["vars"]:
            L.append(f"  integer :: {v}")
            L += cx.doc(u["vardoc"], f"variable {v}", "    ")
        L.append(f"  common /{u['common']}/ {', '.join(u['vars'])}")
        L += cx.doc(u["vardoc"], f"common block {u['common']}", "    ")
        L.append(f"  data {u['vars'][0]} /1/")
        L.append(f"end block data {u['name']}" if u["name"] else "end block data")
    else:
        L += render_proc(cx, u, "")
    return L


def render(P):
    """-> dict(files={rel: text}, extra={rel: text}, pages={rel: text}|None, options={...}, text=str, media=bool, used=hist)"""
    cx = _Ctx(P)
    files = {}
    for f in P["files"]:
        L = []
        if f["doc"]:
            L += [ln.replace("!!", "!>", 1) if False else ln for ln in cx.doc(True, f"file {f['name']}", "")]
        for u in f["units"]:
            L += render_unit(cx, u)
            L.append("")
        files[f["name"]] = "\n".join(L) + "\n"
    extra = {}
    for e in P["extra_files"]:
        body = []
        if e["doc"]:
            body += cx.doc(True, f"extra file {e['name']}", "")
        body += ["! plain comment", "integer :: included_thing"]
        extra[e["name"]] = "\n".join(body) + "\n"
    pages = None
    if P["pages"]:
        pages = {}
        for rel, pg in P["pages"].items():
            meta = [f"title: {pg['title']}"]
            body = [f"Static page {pg['title']}."]
            for _ in range(cx.rng.randint(0, 3)):
                if cx.pool and cx.rng.random() < max(cx.rate, 0.3):
                    lk, cls = cx.rng.choice(cx.pool)
                    cx.used["page>" + cls.split(":")[0]] = cx.used.get("page>" + cls.split(":")[0], 0) + 1
                    body.append(f"See {lk}.")
                if cx.rng.random() < max(cx.md_rate, 0.2):
                    lk, cls = cx.rng.choice(cx.mdpool)
                    cx.used["page>" + cls] = cx.used.get("page>" + cls, 0) + 1
                    body.append(f"Also {lk}.")
            own = ((P.get("assets") or {}).get("pages") or {}).get("own", {}).get(rel)
            if own:
                meta.append("copy_subdir: " + own[0])
                meta += ["    " + x for x in own[1:]]
            for lk, cls in page_asset_links(P, rel):
                cx.used[cls] = cx.used.get(cls, 0) + 1
                body.append(f"Local {lk}.")
            if cx.rng.random() < cx.fn_rate:
                cx.fn_n += 1
                cx.used["page>(footnote)"] = cx.used.get("page>(footnote)", 0) + 1
                body.append(f"Remark with a note[^fn{cx.fn_n}].")
                body.append(f"[^fn{cx.fn_n}]: text of note fn{cx.fn_n}")
            pages[rel] = "\n".join(meta) + "\n\n" + "\n\n".join(body) + "\n"
        pa = (P.get("assets") or {}).get("pages")
        if pa:
            for cd in pa["copy_dirs"]:
                for f in cd["files"]:
                    pages[(cd["dir"] + "/" if cd["dir"] else "") + cd["name"] + "/" + f] = b"asset " + f.encode()
            for d, fs in pa["dir_files"].items():
                for f in fs:
                    pages[(d + "/" if d else "") + f] = b"file " + f.encode()
    o = P["opts"]
    opts = {
        "incl_src": str(o["incl_src"]).lower(),
        "search": str(o["search"]).lower(),
        "graph": str(o["graph"]).lower(),
        "proc_internals": str(o["proc_internals"]).lower(),
        "display": list(o["display"]),
        "sort": o["sort"],
        "source": str(o["source"]).lower(),
        "hide_undoc": str(o["hide_undoc"]).lower(),
        "show_proc_parent": str(o["show_proc_parent"]).lower(),
        "max_frontpage_items": str(o["max_frontpage_items"]),
        "extra_filetypes": "inc !",
        "warn": "false",
        "quiet": "true",
        "parallel": "0",
    }
    if o["graph_dir"]:
        opts["graph_dir"] = "./graphs_saved"
    if o.get("graph_maxnodes"):
        opts["graph_maxnodes"] = str(o["graph_maxnodes"])
    if o.get("graph_maxdepth"):
        opts["graph_maxdepth"] = str(o["graph_maxdepth"])
    if o["summary"]:
        opts["summary"] = "A summary with a link to [[%s]]" % "nothing_here" if False else "A summary of the project."
    if o["author"]:
        opts["author"] = "An Author"
        opts["author_description"] = "Writes Fortran."
        opts["email"] = "a@example.org"
        opts["github"] = "https://github.com/example"
    if o["version"]:
        opts["version"] = "1.2.3"
    if o["license"]:
        opts["license"] = o["license"]
    if o["privacy"]:
        opts["privacy_policy_url"] = "https://example.org/privacy"
        opts["terms_of_service_url"] = "https://example.org/tos"
    if o["externalize"]:
        opts["externalize"] = "true"
    if P["media"]:
        opts["media_dir"] = "./media"
    if o["css"]:
        opts["css"] = "./user.css"
    A = P.get("assets") or {}
    if A.get("favicon"):
        opts["favicon"] = "./" + A["favicon"]
    if A.get("mathjax"):
        opts["mathjax_config"] = "./" + A["mathjax"]
    if (A.get("pages") or {}).get("proj_copy_subdir"):
        opts["copy_subdir"] = list(A["pages"]["proj_copy_subdir"])
    text = "Front page text."
    for _ in range(cx.rng.randint(0, 3)):
        if cx.pool and cx.rng.random() < max(cx.rate, 0.3):
            lk, cls = cx.rng.choice(cx.pool)
            cx.used["front>" + cls.split(":")[0]] = cx.used.get("front>" + cls.split(":")[0], 0) + 1
            text += f" See {lk}."
        if cx.rng.random() < max(cx.md_rate, 0.2):
            lk, cls = cx.rng.choice(cx.mdpool)
            cx.used["front>" + cls] = cx.used.get("front>" + cls, 0) + 1
            text += f" Also {lk}."
    if cx.rng.random() < cx.fn_rate:
        cx.fn_n += 1
        cx.used["front>(footnote)"] = cx.used.get("front>(footnote)", 0) + 1
        text += f"\n\nRemark with a note[^fn{cx.fn_n}].\n\n[^fn{cx.fn_n}]: text of note fn{cx.fn_n}"
    return {"files": files, "extra": extra, "pages": pages, "options": opts, "text": text + "\n", "fn_first": list(cx.fn_first),
            "media": P["media"], "css": o["css"], "used": cx.used,
            "root_files": {x: b"user file " + x.encode() for x in (A.get("favicon"), A.get("mathjax")) if x}}


def shape_counts(P):
    """Expected project shape (generator's view), for the histogram."""
    c = {"files": len(P["files"]), "extra_files": len(P["extra_files"]), "modules": 0, "submodules": 0, "programs": 0,
         "blockdata": 0, "topprocs": 0}
    for f in P["files"]:
        for u in f["units"]:
            k = u["kind"]
            key = {"module": "modules", "submodule": "submodules", "program": "programs", "blockdata": "blockdata"}.get(k, "topprocs")
            c[key] += 1
    return c
