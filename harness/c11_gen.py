"""C11 generator: abstract Fortran projects whose names collide across levels,
their rendering to source files, the documented-lookup oracle (`spec`) over the
abstract project, and reference spellings.

Abstract entity: dict(kind, name, scope, kids, visible, perm, page-level flag ...).
Kinds: file module submodule program blockdata proc(function|subroutine) type
       interface(generic) absinterface variable bound final common namelist
All randomness comes from the rng passed in.
"""
from __future__ import annotations

import re

BASE_NAMES = ["alpha", "beta", "gamma", "delta", "eps", "zeta", "eta", "theta", "iota", "kappa",
              "lam", "mu", "nu", "xi", "omi", "rho", "sigma", "tau", "ups", "phi", "chi", "psi"]

# documented kind names (docs/user_guide/writing_documentation.rst); the translator
# extracts the same lists from the rst and a Lean theorem ties them to the tables
COMPONENT_KINDS = {
    "module": ["module"], "submodule": ["submodule"], "program": ["program"], "blockdata": ["block"],
    "file": ["file"], "type": ["type"], "namelist": ["namelist"],
    "proc": ["procedure", "proc", "subroutine", "function"],
    "interface": ["procedure", "proc", "subroutine", "function"],   # generic interfaces are listed with the procedures
    "absinterface": ["interface", "absinterface"],
}
ITEM_KINDS = {
    "variable": ["variable"], "type": ["type"], "interface": ["interface"], "absinterface": ["absinterface"],
    "bound": ["bound"], "final": ["final"], "common": ["common"],
}
PAGE_DIR = {"module": "module", "submodule": "module", "program": "program", "blockdata": "blockdata",
            "file": "sourcefile", "type": "type", "namelist": "namelist", "proc": "proc",
            "interface": "interface", "absinterface": "interface"}
ANCHOR = {"variable": "variable", "bound": "boundprocedure", "final": "finalproc", "common": "common", "proc": "proc"}
# kinds whose pages may share a name with another page of the same directory (FORD then numbers the
# pages `name~2.html` ...): procedures / programs / block data of different executables, types and
# interfaces of different modules.  Modules (ancestor lookup by name) and namelists (located by name) stay unique.
DUP_PAGE_DIRS = {"proc", "program", "type", "interface", "blockdata"}
# free-form extensions FORD reads by default (`preprocess: false` in the harness, so the capital ones are plain sources)
FREE_EXT = ["f90", "f90", "f90", "f95", "f03", "f08", "F90"]


def aupper(s):
    """upper-case the ASCII letters only (the model's `lower` is ASCII; FORD's is `str.lower`)"""
    return "".join(c.upper() if "a" <= c <= "z" else c for c in s)


def alower(s):
    return "".join(c.lower() if "A" <= c <= "Z" else c for c in s)


class Gen:
    def __init__(self, rng, size=2):
        self.rng = rng
        self.size = size
        self.all = []          # every abstract entity
        self.used = []         # names used so far (declared spelling)
        self.page_names = {}   # dir -> set(lower names)
        self.n = 0
        self.dup = 0.5         # probability of accepting a name that already has a page in the same directory

    def spell(self, name):
        r = self.rng.random()
        if r < 0.15:
            return name.capitalize()
        if r < 0.22:
            return name.upper()
        return name

    def name(self, scope, page_dir=None, collide=0.45):
        """a name not used among the siblings in `scope`; with probability `collide`
        one that exists elsewhere in the project"""
        sib = {k["name"].lower() for k in scope["kids"]} if scope else set()
        if scope:
            sib.add(scope["name"].lower())
        for _ in range(200):
            if self.used and self.rng.random() < collide:
                nm = self.rng.choice(self.used).lower()
            else:
                nm = self.rng.choice(BASE_NAMES) + (str(self.rng.randint(1, 9)) if self.rng.random() < 0.5 else "")
                # Fortran names are letters, digits and underscores (round 3: the underscore was never produced)
                r = self.rng.random()
                if r < 0.18:
                    nm += "_" + self.rng.choice(BASE_NAMES)[:3]
                elif r < 0.26:
                    nm += "_" + str(self.rng.randint(0, 99))
                elif r < 0.32:
                    nm += "_"
            if nm in sib:
                continue
            if page_dir is not None and nm in self.page_names.setdefault(page_dir, set()):
                if not (page_dir in DUP_PAGE_DIRS and self.rng.random() < self.dup):
                    continue
            if page_dir is not None:
                self.page_names[page_dir].add(nm)
            nm = self.spell(nm)
            self.used.append(nm)
            return nm
        raise RuntimeError("names exhausted")

    def file_name(self, i, seen):
        """Name of the i-th source file.  A source file is a documented link target (kind "file") and its
        name is a *file* name: it may start with a digit or an underscore, carry capitals, letters outside
        ASCII, a hyphen or several dots."""
        rng = self.rng
        for _ in range(100):
            b, b2 = rng.choice(BASE_NAMES), rng.choice(BASE_NAMES)
            d = str(rng.randint(0, 9))
            ext = rng.choice(FREE_EXT)
            r = rng.random()
            if r < 0.28:
                nm = f"src{i + 1}.f90"
            elif r < 0.55:      # starts with a digit
                nm = rng.choice([f"{d}{b}", f"{d}d_{b}", f"{d}{rng.randint(0, 9)}", f"{d}_{b}", f"{d}{b.upper()}"]) + "." + ext
            elif r < 0.72:      # underscores, capitals
                nm = rng.choice([f"{b}_{b2}", f"_{b}", f"{b}_", f"{b.capitalize()}{d}", f"{b}{d}_{d}"]) + "." + ext
            elif r < 0.80:      # letters outside ASCII (lower case only: see `aupper`)
                nm = rng.choice([f"{b}\u00e9", f"\u00fc{b}", f"{d}\u00f1{b}_{d}"]) + "." + ext
            elif r < 0.91:      # hyphen
                nm = rng.choice([f"{b}-{b2}", f"{d}{b}-{d}"]) + "." + ext
            else:               # several dots
                nm = rng.choice([f"{b}.v{d}", f"{b}.{b2}.{d}"]) + "." + ext
            if nm.lower() not in seen:
                seen.add(nm.lower())
                return nm
        raise RuntimeError("file names exhausted")

    def ent(self, kind, scope, name=None, **kw):
        page_dir = PAGE_DIR.get(kind) if kw.pop("page", True) else None
        if kind == "proc" and scope is not None and scope["kind"] == "proc":
            page_dir = None
        if kind == "type" and scope is not None and scope["kind"] == "proc":
            page_dir = None
        collide = kw.pop("collide", 0.45)
        if name is None:
            name = self.name(scope, page_dir, collide)
        e = {"kind": kind, "name": name, "scope": scope, "kids": [], "perm": "public", "id": len(self.all),
             "page_dir": page_dir, "internal": False, "doc": []}
        e.update(kw)
        self.all.append(e)
        if scope is not None:
            scope["kids"].append(e)
        return e

    # ------------------------------------------------------------------ units
    def proc(self, scope, depth=0, internal=False, collide=0.45):
        p = self.ent("proc", scope, proctype=self.rng.choice(["subroutine", "function"]), internal=internal, collide=collide)
        for _ in range(self.rng.choice([0, 1, 1, 2])):
            self.ent("variable", p, role="arg", internal=False)
        for _ in range(self.rng.choice([0, 0, 1, 2])):
            self.ent("variable", p, role="local", internal=True)
        if depth == 0 and self.rng.random() < 0.35:
            t = self.ent("type", p, internal=True)
            self.ent("variable", t, role="comp", internal=True)
        if depth == 0 and self.rng.random() < 0.35:
            self.proc(p, depth + 1, internal=True)
        if depth == 0 and self.rng.random() < 0.15:
            c = self.ent("common", p, internal=False)   # common blocks are shown whatever proc_internals says
            c["var"] = self.ent("variable", c, role="common")   # documented under the common block
        if depth == 0 and self.rng.random() < 0.15:
            nl = self.ent("namelist", p, internal=False)
            nl["vars"] = [k["name"] for k in p["kids"] if k["kind"] == "variable"][:2] or ["zz"]
        return p

    def module(self, f, kind="module"):
        m = self.ent(kind, f)
        rng = self.rng
        for _ in range(rng.choice([0, 1, 2, 3])):
            v = self.ent("variable", m, role="modvar")
            v["perm"] = rng.choice(["public", "public", "private", "protected"])
        procs = [self.proc(m) for _ in range(rng.choice([1, 2, 2, 3]))]
        for p in procs:
            p["perm"] = rng.choice(["public", "public", "public", "private"])
        for _ in range(rng.choice([0, 1, 1, 2])):
            t = self.ent("type", m)
            t["perm"] = rng.choice(["public", "public", "private"])
            for _ in range(rng.choice([1, 2])):
                self.ent("variable", t, role="comp")
            for _ in range(rng.choice([0, 1, 2])):
                b = self.ent("bound", t)
                b["target"] = rng.choice(procs)
            if rng.random() < 0.3:
                fin = rng.choice(procs)
                if not any(k["kind"] == "final" for k in t["kids"]) and fin["name"].lower() not in {k["name"].lower() for k in t["kids"]}:
                    self.ent("final", t, name=fin["name"], target=fin)
        if rng.random() < 0.45:
            g = self.ent("interface", m)
            g["perm"] = rng.choice(["public", "public", "private"])
            g["modprocs"] = rng.sample(procs, rng.randint(1, min(2, len(procs))))
        if rng.random() < 0.4:
            a = self.ent("absinterface", m)
            a["perm"] = rng.choice(["public", "public", "private"])
        return m

    def project(self):
        rng = self.rng
        P = {"files": [], "proc_internals": rng.random() < 0.5,
             "display": rng.choice([["public"], ["public"], ["public", "private", "protected"], ["public", "protected"]])}
        nfiles = rng.choice([1, 2, 2, 3]) if self.size > 1 else 1
        seen = set()
        for i in range(nfiles):
            f = self.ent("file", None, name=self.file_name(i, seen))
            P["files"].append(f)
        # a non-Fortran source file (`extra_filetypes`): listed with the source files, a link target of kind "file"
        P["extra_files"] = []
        if rng.random() < 0.3:
            b = rng.choice(BASE_NAMES)
            nm = rng.choice([f"{rng.randint(1, 9)}rdparty", f"{b}_defs", b, f"{rng.randint(0, 9)}{b}"]) + ".inc"
            if nm.lower() not in seen:
                P["extra_files"].append(self.ent("file", None, name=nm, extra=True))
        for i in range(rng.choice([1, 2, 2, 3])):
            self.module(rng.choice(P["files"]))
        # program units and external procedures: every file may hold its own program plus helpers, and the
        # helpers of different files (different executables) may carry the same names
        f0 = rng.choice(P["files"])
        for f in P["files"]:
            if not (rng.random() < (0.6 if f is f0 else 0.35)):
                continue
            pr = self.ent("program", f, collide=0.6)
            for _ in range(rng.choice([0, 1, 2])):
                self.ent("variable", pr, role="modvar")
            if rng.random() < 0.5:
                self.proc(pr, depth=1)
            if rng.random() < 0.4:
                nl = self.ent("namelist", pr)
                nl["vars"] = [k["name"] for k in pr["kids"] if k["kind"] == "variable"][:2] or ["zz"]
        for _ in range(rng.choice([0, 1, 1, 2]) + (len(P["files"]) - 1)):
            self.proc(rng.choice(P["files"]), collide=0.7)
        if rng.random() < 0.3:
            bd = self.ent("blockdata", rng.choice(P["files"]))
            c = self.ent("common", bd)
            c["var"] = self.ent("variable", c, role="common")
        mods = [e for e in self.all if e["kind"] == "module"]
        if mods and rng.random() < 0.3:
            anc = rng.choice(mods)
            sm = self.ent("submodule", rng.choice(P["files"]), ancestor=anc)
            for _ in range(rng.choice([0, 1])):
                self.ent("variable", sm, role="modvar")
            self.proc(sm)
        P["ents"] = self.all
        self.visibility(P)
        return P

    # ------------------------------------------------------------------ visibility (display / proc_internals)
    def visibility(self, P):
        disp = P["display"]
        for e in self.all:
            sc = e["scope"]
            if sc is None:
                e["visible"] = True
                continue
            vis = sc["visible"]
            if sc["kind"] == "submodule":
                e["perm"] = "private"    # nothing declared in a submodule is accessible from outside
            if sc["kind"] in ("module", "submodule") and e["kind"] in ("variable", "proc", "type", "interface", "absinterface"):
                vis = vis and e["perm"] in disp
            if sc["kind"] == "proc" and e.get("internal"):
                vis = vis and P["proc_internals"]
            e["visible"] = vis


def gen_project(rng, size=2):
    return Gen(rng, size).project()


# ---------------------------------------------------------------------- rendering

def _doc(e, ind):
    return [f"{ind}!! {ln}" for ln in (e["doc"] or [f"doc of {e['kind']} {e['name']}"])]


def render_proc(p, ind, out):
    args = [k for k in p["kids"] if k["kind"] == "variable" and k.get("role") == "arg"]
    head = f"{ind}{p['proctype']} {p['name']}({', '.join(a['name'] for a in args)})"
    if p["proctype"] == "function":
        head += f" result(res{p['id']}x)"   # keep the implicit result variable from shadowing the function's name
    out.append(head)
    out += _doc(p, ind + "  ")
    i2 = ind + "  "
    for k in p["kids"]:
        if k["kind"] == "type":
            out.append(f"{i2}type :: {k['name']}")
            out += _doc(k, i2 + "  ")
            for c in k["kids"]:
                out.append(f"{i2}  integer :: {c['name']}")
                out += _doc(c, i2 + "    ")
            out.append(f"{i2}end type {k['name']}")
    for k in p["kids"]:
        if k["kind"] == "variable":
            out.append(f"{i2}integer :: {k['name']}")
            out += _doc(k, i2 + "  ")
    if p["proctype"] == "function" and not any(k["name"].lower() == p["name"].lower() for k in p["kids"]):
        pass
    for k in p["kids"]:
        if k["kind"] == "common":
            out.append(f"{i2}integer :: {k['var']['name']}")
            out += _doc(k["var"], i2 + "  ")
            out.append(f"{i2}common /{k['name']}/ {k['var']['name']}")
            out += _doc(k, i2 + "  ")
    for k in p["kids"]:
        if k["kind"] == "namelist":
            out.append(f"{i2}namelist /{k['name']}/ {', '.join(k['vars'])}")
            out += _doc(k, i2 + "  ")
    inner = [k for k in p["kids"] if k["kind"] == "proc"]
    if inner:
        out.append(f"{ind}contains")
        for k in inner:
            render_proc(k, i2, out)
    out.append(f"{ind}end {p['proctype']} {p['name']}")


def render_module(m, out):
    if m["kind"] == "submodule":
        out.append(f"submodule ({m['ancestor']['name']}) {m['name']}")
    else:
        out.append(f"module {m['name']}")
    out += _doc(m, "  ")
    out.append("  implicit none")
    for k in m["kids"]:
        if k["kind"] in ("proc", "interface", "absinterface") and k["perm"] != "public" and m["kind"] == "module":
            out.append(f"  {k['perm']} :: {k['name']}")
    for k in m["kids"]:
        if k["kind"] == "variable":
            attr = f", {k['perm']}" if (k["perm"] != "public" and m["kind"] == "module") else ""
            out.append(f"  integer{attr} :: {k['name']}")
            out += _doc(k, "    ")
    for k in m["kids"]:
        if k["kind"] == "type":
            attr = f", {k['perm']}" if k["perm"] != "public" else ""
            out.append(f"  type{attr} :: {k['name']}")
            out += _doc(k, "    ")
            for c in k["kids"]:
                if c["kind"] == "variable":
                    out.append(f"    integer :: {c['name']}")
                    out += _doc(c, "      ")
            rest = [c for c in k["kids"] if c["kind"] in ("bound", "final")]
            if rest:
                out.append("  contains")
                for c in rest:
                    if c["kind"] == "bound":
                        out.append(f"    procedure, nopass :: {c['name']} => {c['target']['name']}")
                    else:
                        out.append(f"    final :: {c['name']}")
                    out += _doc(c, "      ")
            out.append(f"  end type {k['name']}")
        elif k["kind"] == "interface":
            out.append(f"  interface {k['name']}")
            out += _doc(k, "    ")
            for p in k["modprocs"]:
                out.append(f"    module procedure {p['name']}")
            out.append("  end interface")
        elif k["kind"] == "absinterface":
            out.append("  abstract interface")
            out.append(f"    subroutine {k['name']}(xx)")
            out += _doc(k, "      ")
            out.append("      integer :: xx")
            out.append(f"    end subroutine {k['name']}")
            out.append("  end interface")
        elif k["kind"] == "namelist":
            out.append(f"  namelist /{k['name']}/ {', '.join(k['vars'])}")
            out += _doc(k, "    ")
    procs = [k for k in m["kids"] if k["kind"] == "proc"]
    if procs:
        out.append("contains")
        for p in procs:
            render_proc(p, "  ", out)
    out.append(f"end {'submodule' if m['kind'] == 'submodule' else 'module'} {m['name']}")


def render_project(P):
    files = {}
    for f in P["files"]:
        out = []
        order = {"module": 0, "submodule": 1, "proc": 2, "program": 3, "blockdata": 4}
        for u in sorted(f["kids"], key=lambda k: order[k["kind"]]):
            if u["kind"] in ("module", "submodule"):
                render_module(u, out)
            elif u["kind"] == "proc":
                render_proc(u, "", out)
            elif u["kind"] == "program":
                out.append(f"program {u['name']}")
                out += _doc(u, "  ")
                for k in u["kids"]:
                    if k["kind"] == "variable":
                        out.append(f"  integer :: {k['name']}")
                        out += _doc(k, "    ")
                for k in u["kids"]:
                    if k["kind"] == "namelist":
                        out.append(f"  namelist /{k['name']}/ {', '.join(k['vars'])}")
                        out += _doc(k, "    ")
                inner = [k for k in u["kids"] if k["kind"] == "proc"]
                if inner:
                    out.append("contains")
                    for k in inner:
                        render_proc(k, "  ", out)
                out.append(f"end program {u['name']}")
            elif u["kind"] == "blockdata":
                out.append(f"block data {u['name']}")
                out += _doc(u, "  ")
                for k in u["kids"]:
                    if k["kind"] == "variable":
                        out.append(f"  integer :: {k['name']}")
                        out += _doc(k, "    ")
                for k in u["kids"]:
                    if k["kind"] == "common":
                        out.append(f"  integer :: {k['var']['name']}")
                        out += _doc(k["var"], "    ")
                        out.append(f"  common /{k['name']}/ {k['var']['name']}")
                        out += _doc(k, "    ")
                out.append(f"end block data {u['name']}")
            out.append("")
        files[f["name"]] = "\n".join(out) + "\n"
    for f in P.get("extra_files", []):
        files[f["name"]] = "! shared declarations\n      integer ncommon\n"
    return files


def project_options(P):
    """the settings a generated project needs"""
    o = {"proc_internals": "true" if P["proc_internals"] else "false", "display": P["display"]}
    if P.get("extra_files"):
        o["extra_filetypes"] = "inc !"
    return o


# ---------------------------------------------------------------------- the documented lookup (oracle side)

def page_holder(e):
    """the entity on whose page `e` is documented"""
    while e["page_dir"] is None:
        e = e["scope"]
    return e


def file_of(e):
    while e["scope"] is not None:
        e = e["scope"]
    return e


def expected_url(e):
    """(path relative to the site root, anchor regex or None) according to the documented site layout"""
    h = page_holder(e)
    if h["kind"] == "file":
        path = f"sourcefile/{h['name'].lower()}.html"
    else:
        # the page's file name is the entity's identifier: the lower-cased name, numbered (`~2` ...) when
        # several pages of one directory share it (which number an entity gets is property C10's business;
        # the harness records the identifier FORD gave to the entity at this position as `page_name`)
        path = f"{h['page_dir']}/{h.get('page_name') or h['name'].lower()}.html"
    if h is e:
        return path, None
    x = e
    while x is not h:
        if x["kind"] == "type":   # a type local to a procedure (and what it contains) has neither page nor anchor
            return None, None
        x = x["scope"]
    return path, re.compile("^" + re.escape(ANCHOR[e["kind"]] + "-" + e["name"].lower()) + r"(~\d+)?$")


def contents(e, designated=True):
    """visible entities declared directly in `e` (what a reader finds on e's page under e)"""
    out = [k for k in e["kids"] if k["visible"]]
    if e["kind"] == "interface":
        out = out + [p for p in e["modprocs"] if p["visible"]]
    if designated and e["kind"] in ("bound", "final") and e["target"]["visible"]:
        out = out + [e["target"]]     # the procedure a binding designates
    return out


def bindings_to_hidden(P):
    """(visible binding-like entity, hidden procedure it designates)"""
    out = []
    for e in P["ents"]:
        if not e["visible"]:
            continue
        if e["kind"] in ("bound", "final") and not e["target"]["visible"]:
            out.append((e, e["target"]))
        if e["kind"] == "interface":
            out += [(e, p) for p in e["modprocs"] if not p["visible"]]
    return out


def item_kind_ok(e, q):
    if q is None:
        return True
    q = q.lower()
    if e["kind"] == "proc":
        return q == e["proctype"]
    return q in ITEM_KINDS.get(e["kind"], [])


def item_kind_ok_in(comp, e, q):
    """item kind `q` for item `e` of component `comp`; "modproc" = module procedure of a generic interface"""
    if q is not None and q.lower() == "modproc":
        return comp["kind"] == "interface" and any(e is p for p in comp["modprocs"])
    return item_kind_ok(e, q)


def comp_kind_ok(e, q):
    if q is None:
        return True
    return q.lower() in COMPONENT_KINDS.get(e["kind"], [])


def project_wide(P):
    """entities with their own page that the whole-project lookup knows"""
    out = []
    for e in P["ents"]:
        if not e["visible"] or e["page_dir"] is None:
            continue
        out.append(e)
    return out


ITEM_Q = {q for v in ITEM_KINDS.values() for q in v} | {"function", "subroutine", "modproc", "constructor"}
COMP_Q = {q for v in COMPONENT_KINDS.values() for q in v}


def grey_names(e):
    """names whose place in the documentation is not fixed by the user guide: variables of a common
    block / namelist group seen from the enclosing unit or from the namelist"""
    out = set()
    for k in e["kids"]:
        if k["kind"] == "common":
            out.add(k["var"]["name"].lower())
    if e["kind"] == "namelist":
        out |= {v.lower() for v in e["vars"]}
    return out


def spec(P, ctx, ref):
    """Documented lookup.  Returns ('text', None) | ('link', [acceptable abstract entities], fallback_ok)
    | ('unspecified', why).

    A type-bound / final procedure *designates* a procedure, it does not declare it, and the user guide
    gives no item kind for "the procedure of a binding": for a bare name the designated procedure counts
    as the binding's own contents; with a kind qualifier both readings are accepted (the designated
    procedure, or what the lookup gives when a binding has no contents of that kind)."""
    s1 = _spec(P, ctx, ref, True)
    if ref[1] is None or ctx is None or ctx["kind"] not in ("bound", "final") or s1[0] == "unspecified":
        return s1
    s2 = _spec(P, ctx, ref, False)
    if s1 == s2 or s2[0] == "unspecified":
        return s1
    if s1[0] == "text":
        return s2
    if s2[0] == "text":
        return ("link", s1[1], True)
    return ("link", s1[1] + [t for t in s2[1] if not any(t is u for u in s1[1])], s1[2] or s2[2])


def _spec(P, ctx, ref, designated):
    name, kind, child, ckind = ref
    lname = name.lower()
    if ctx is not None and ctx.get("role") == "common":
        return ("unspecified", "context is a variable of a common block")
    if ctx is not None:
        g = grey_names(ctx) | (grey_names(ctx["scope"]) if ctx["scope"] is not None else set())
        if lname in g:
            return ("unspecified", "variable of a common block / namelist group seen from outside the block")
    for e in P["ents"]:
        if e["kind"] in ("common", "namelist") and not e["scope"]["visible"]:
            if e["name"].lower() in (lname, (child or "").lower()) or ctx is e or (ctx is not None and ctx["scope"] is e):
                return ("unspecified", "common block / namelist group of a procedure that is not displayed")
    if child is not None:
        for e in P["ents"]:
            if e["name"].lower() == lname and child.lower() in grey_names(e):
                return ("unspecified", "variable of a common block / namelist group seen from outside the block")
    levels = []
    if ctx is not None:
        levels.append(("local", contents(ctx, designated)))
        if ctx["scope"] is not None:
            levels.append(("local", contents(ctx["scope"])))
    levels.append(("project", project_wide(P)))
    if kind is not None and kind.lower() not in ITEM_Q | COMP_Q:
        return ("unspecified", "undocumented kind")
    if ckind is not None and ckind.lower() not in ITEM_Q:
        return ("unspecified", "undocumented item kind")
    if kind is not None and kind.lower() not in COMP_Q:
        return ("unspecified", "item kind in component position")

    def comps(levelkind, ents):
        if levelkind == "local":
            if kind is not None and kind.lower() not in ITEM_Q:
                return []
            return [e for e in ents if e["name"].lower() == lname and item_kind_ok(e, kind)]
        return [e for e in ents if e["name"].lower() == lname and comp_kind_ok(e, kind)]

    if child is None:
        for lk, ents in levels:
            c = comps(lk, ents)
            if c:
                return ("link", c, False)
        return ("text", None)
    # with an item part: first level at which component and item both resolve
    found = []     # (components at that level, items found in them), levels with a component only
    for lk, ents in levels:
        c = comps(lk, ents)
        if c:
            items = [k for e in c for k in contents(e) if k["name"].lower() == child.lower() and item_kind_ok_in(e, k, ckind)]
            found.append((c, items))
    if not found:
        return ("text", None)
    proj_comps = comps("project", levels[-1][1])
    c0, items0 = found[0]
    if items0 and len(c0) == 1:
        return ("link", items0, False)
    all_items = [k for _, it in found for k in it]
    if all_items:
        # several components of that name (same level: "FORD's behaviour is undefined; it will link to the
        # first of those items which it finds"; or a nearer level has the component without the item):
        # any of the items, the component's page, or plain text
        return ("link", all_items + proj_comps, True)
    # the component exists, the item does not: a warning is documented; FORD links the component's page
    return ("link", proj_comps, True)


# ---------------------------------------------------------------------- references

def spellings(rng, t, hidden_or_absent=False):
    """documented spellings of a reference to abstract entity `t`: list of (name, kind, child, ckind)"""
    out = []

    def case(n):
        r = rng.random()
        return aupper(n) if r < 0.15 else alower(n) if r < 0.3 else n

    ck = COMPONENT_KINDS.get(t["kind"])
    if t["page_dir"] is not None and ck:
        out.append((case(t["name"]), None, None, None))
        for q in ck:
            out.append((case(t["name"]), q if rng.random() < 0.8 else q.upper(), None, None))
    else:
        out.append((case(t["name"]), None, None, None))
    if t["kind"] == "interface":
        # the module procedures of a generic interface are items of it (item kind "modproc")
        for p in t["modprocs"]:
            out.append((case(t["name"]), None, case(p["name"]), None))
            out.append((case(t["name"]), None, case(p["name"]), "modproc"))
    sc = t["scope"]
    if sc is not None and sc["kind"] != "file":
        iq = [t["proctype"]] if t["kind"] == "proc" else ITEM_KINDS.get(t["kind"], [])
        pq = COMPONENT_KINDS.get(sc["kind"], []) if sc["page_dir"] is not None else []
        out.append((case(sc["name"]), None, case(t["name"]), None))
        for q in iq:
            out.append((case(sc["name"]), None, case(t["name"]), q))
        for p in pq:
            out.append((case(sc["name"]), p, case(t["name"]), None))
            for q in iq:
                out.append((case(sc["name"]), p, case(t["name"]), q))
    return out


def render_ref(ref):
    name, kind, child, ckind = ref
    s = "[[" + name + (f"({kind})" if kind else "")
    if child:
        s += ":" + child + (f"({ckind})" if ckind else "")
    return s + "]]"
