"""C10 - distinct entities never share a page, anchor or copied file.

Streams
  c10a-sel : random request sequences against the *real* `NameSelector` (through
             `FortranBase.ident/anchor/get_url` of light stub entities) vs the Lean
             model `trace` / `anchorOf` / `urlOf` - exact comparison of every stem,
             anchor and URL; `legal` sequences additionally go through the property
             oracle (distinct entities of one directory -> distinct stems / URLs /
             anchors, repeated requests -> same answer).
  c10a-dir : small generated Fortran projects parsed and correlated by the real code
             (`ford.fortran_project.Project`), every entity reached from the project:
             real `obj`, `get_dir()`, `ident` vs the model's `objOf`, `dirOf` and the
             stem the model assigns to the recorded `get_name` calls.
  c10b     : end-to-end "collision mode" sites (harness/c10_e2e.py): recorded get_name
             trace vs model, output files vs model, and the property oracle on the
             written site (shared outfiles, tracer at URL, duplicate ids, src/ copies).
"""
from __future__ import annotations

import json
import random
import re
import string
import time
import traceback
from pathlib import Path

from . import common
from .common import Driver, Report, lean_prove

PROP = "C10"

# ------------------------------------------------------------------ names

BASES = ["foo", "bar", "baz", "init", "x1", "a_b", "solver", "foo_2", "foo2", "bar_2", "foo_1"]
OPS = ["+", "-", "*", "/", "**", "//", "==", "/=", "<", "<=", ">", ">="]
OP_NAMES = [f"operator({o})" for o in OPS] + ["assignment(=)", "<em>unnamed</em>"]
DOT_OPS = ["operator(.add.)", "operator(.lt.)", "operator(.x.)"]
FILES = ["util.f90", "main.f90", "solver.F90", "a.f", "mod_foo.f90"]
# characters a file name may contain besides letters/digits and that a "tidy the identifier" step could
# drop or merge: near-miss variants of one file name differ in exactly such characters
FILE_FILL = [" ", "-", "_", ".", ""]
DIRS = ["proc", "module", "type", "interface", "sourcefile", "program", "blockdata", "namelist", None]
# kind words (`obj`) of the entities that live in each page directory (a submodule has obj "submodule"
# and get_dir() "module"; interface procedures are obj "proc" in "interface")
OBJS = {"proc": ["proc"], "module": ["module", "module", "submodule"], "type": ["type"],
        "interface": ["interface", "interface", "proc"], "sourcefile": ["sourcefile"], "program": ["program"],
        "blockdata": ["blockdata"], "namelist": ["namelist"]}
NONE_OBJS = ["variable", "boundprocedure", "proc", "type", "interface", "common", "enum", "finalproc"]
JUNK = ["foo~2", "foo~", "~", "__unnamed__", "__UNNAMED__", "operator(lt)", "operator(SLASH)", "a<b", "a/b",
        "ltgt", "x*y", "SLASH", "asterisk", "operator (<)", "operator ( lt )", "operator (/ /)", "a b", "50%", "foo-2", "foo_2", "foo.2", "é"]


def spell(rng, s: str) -> str:
    r = rng.random()
    if r < 0.35:
        return s
    if r < 0.55:
        return s.upper()
    if r < 0.75:
        return s.capitalize()
    return "".join(c.upper() if rng.random() < 0.5 else c for c in s)


IDENT_RE = re.compile(r"[A-Za-z][A-Za-z0-9_]*\Z")
# Fortran (free form) allows blanks between the tokens of a generic spec: `operator ( + )`, `assignment (=)`;
# FORD keeps the text after `interface` verbatim as the entity's name
DOTOP_RE = re.compile(r"operator *\( *\.[a-z]+\. *\)\Z", re.I)
INTRINSIC_OP_RE = re.compile(r"(?:operator *\( *(?:\+|-|\*|/|\*\*|//|==|/=|<|<=|>|>=) *\)|assignment *\( *= *\))\Z", re.I)
FILE_RE = re.compile(r"[A-Za-z0-9][A-Za-z0-9_. -]*\.[A-Za-z0-9]+\Z")


def space_op(rng, name: str) -> str:
    """Another legal spacing of a generic spec `kw(op)`: blanks after the keyword and inside the parentheses."""
    m = re.match(r"(\w+)\((.*)\)\Z", name)
    if not m:
        return name
    gap = lambda: " " * rng.choice([0, 0, 1, 1, 2])  # noqa: E731
    return f"{m.group(1)}{gap()}({gap()}{m.group(2)}{gap()})"


def near_file(rng, base: str) -> str:
    """`my<fill>mod.f90`-style variants of one file name (the fill is a blank, -, _, . or nothing)."""
    stem, ext = base.rsplit(".", 1)
    cut = max(1, len(stem) // 2)
    return stem[:cut] + rng.choice(FILE_FILL) + stem[cut:] + "." + ext


def is_legal(name: str) -> bool:
    """Names a Fortran project can give to FORD - defined from Fortran's rules and FORD's inputs, *not*
    from the literals of get_name: the empty name of an unnamed unit, identifiers, defined operators,
    intrinsic operator / assignment generic specs, FORD's placeholder for unnamed block data, file names.
    Every such name must satisfy the hypothesis `Legal cfg opNames` of the Lean theorems (checked on
    every run: if the generated literals make a Fortran-legal name illegal there, the tie is broken)."""
    return (name == "" or bool(IDENT_RE.match(name)) or bool(DOTOP_RE.match(name))
            or name.lower() in OP_NAMES or bool(INTRINSIC_OP_RE.match(name)) or bool(FILE_RE.match(name)))


def gen_sequence(rng, legal: bool, case_clean: bool):
    """-> (entities [(dir, name, obj)], request order [entity index])"""
    nent = rng.choice([1, 2, 2, 3, 3, 4, 5, 6, 8])
    pool_b = rng.sample(BASES, rng.randint(1, 3))
    fixed = {b: spell(rng, b) for b in BASES + OP_NAMES + DOT_OPS + FILES}
    dirs = rng.sample(DIRS, rng.randint(1, 3))
    # the same operator / file in several spellings inside one sequence: small per-sequence pools
    pool_op = rng.sample(OP_NAMES, rng.randint(1, 2))
    pool_file = rng.sample(FILES, rng.randint(1, 2))
    respace = rng.random() < 0.5
    ents = []
    for _ in range(nent):
        r = rng.random()
        spaced = None
        if r < 0.50:
            b = rng.choice(pool_b)
        elif r < 0.70:
            b = rng.choice(pool_op if rng.random() < 0.7 else OP_NAMES)
            if respace and "(" in b:
                spaced = space_op
        elif r < 0.78:
            b = rng.choice(DOT_OPS)
            if respace:
                spaced = space_op
        elif r < 0.86:
            b = ""
        else:
            b = rng.choice(pool_file)
            if respace:
                spaced = near_file
        name = fixed.get(b, b) if case_clean else spell(rng, b)
        if spaced is not None:
            name = spaced(rng, name)
        if not legal and rng.random() < 0.4:
            if rng.random() < 0.6:
                name = rng.choice(JUNK)
            else:
                name = "".join(rng.choice("aA<>/*~_(). %-2") for _ in range(rng.randint(0, 6)))
            if "é" in name and rng.random() < 0.9:
                name = "foo~2"
        d = rng.choice(dirs)
        obj = rng.choice(OBJS[d]) if d is not None else rng.choice(NONE_OBJS)
        ents.append((d, name, obj))
    order = list(range(nent))
    rng.shuffle(order)
    extra = [rng.randrange(nent) for _ in range(rng.randint(0, nent + 2))]
    for e in extra:
        order.insert(rng.randint(0, len(order)), e)
    return ents, order


# ------------------------------------------------------------------ real code, selector level

def make_stub_class(sf):
    class Stub(sf.FortranBase):  # a FortranBase whose get_dir/name/obj are given
        def __init__(self, name, d, obj):
            self.name = name
            self._d = d
            self.obj = obj
            self.parent = None

        def get_dir(self):
            return self._d
    return Stub


def impl_sequence(sf, Stub, ents, order):
    """Run one request sequence on a fresh NameSelector through the real properties.
    -> list of (stem, anchor, url) per request, or ('exc', text)."""
    sf.namelist = sf.NameSelector()
    stubs = [Stub(n, d, o) for d, n, o in ents]
    out = []
    try:
        for k, i in enumerate(order):
            s = stubs[i]
            if k % 3 == 0:
                stem = sf.namelist.get_name(s)
            else:
                stem = s.ident
            out.append((stem, s.anchor, s.get_url()))
    except Exception as e:  # a changed implementation may raise: that is a difference, not an infra error
        return ("exc", f"{type(e).__name__}: {e}")
    return out


def detect_variant(sf, Stub) -> str:
    r = impl_sequence(sf, Stub, [("proc", "Foo", "proc"), ("proc", "foo", "proc")], [0, 1])
    if isinstance(r, tuple):
        return "asIs"
    return "repaired" if r[0][0] != r[1][0] else "asIs"


def enc_dir(d):
    return "N" if d is None else "S" + d


def oracle_sequence(ents, order, res):
    """Property oracle on the real answers of a *legal* sequence. -> list of (why, i, j)."""
    fails = []
    first = {}
    for (stem, anchor, url), i in zip(res, order):
        if i in first:
            if first[i] != (stem, anchor, url):
                fails.append((f"entity {i} got {first[i]} first and {(stem, anchor, url)} later", i, i))
        else:
            first[i] = (stem, anchor, url)
    idx = sorted(first)
    for a in range(len(idx)):
        for b in range(a + 1, len(idx)):
            i, j = idx[a], idx[b]
            (s1, a1, u1), (s2, a2, u2) = first[i], first[j]
            # entities with a page: the page is <dir>/<stem>.html - equal URL = one output file
            if u1 is not None and u1 == u2:
                fails.append((f"entities {ents[i]} and {ents[j]} share the URL {u1!r}", i, j))
            elif ents[i][0] is not None and ents[i][0] == ents[j][0] and s1 == s2:
                fails.append((f"entities {ents[i]} and {ents[j]} share the page {ents[i][0]}/{s1}.html", i, j))
            # items of one kind and one directory are listed together (procedures / interfaces / types of
            # a module on the module page, variables of a scope, ...): the id attribute is the anchor.
            # (Whether two items of different directories ever meet on one page depends on the templates
            # and is observed end-to-end only, stream c10b.)
            if ents[i][0] == ents[j][0] and ents[i][2] == ents[j][2] and a1 == a2:
                fails.append((f"entities {ents[i]} and {ents[j]} share the anchor {a1!r}", i, j))
    return fails


def shrink_sequence(sf, Stub, ents, order):
    """Greedy shrink of a failing legal sequence: drop entities / repeated requests while the real
    code still fails the oracle with the same classification."""
    def fails(en, od):
        res = impl_sequence(sf, Stub, en, od)
        if isinstance(res, tuple) or not od:
            return None
        f = oracle_sequence(en, od, res)
        return (classify_names(en[f[0][1]][1], en[f[0][2]][1]), f[0][0], res) if f else None

    cur = fails(ents, order)
    if cur is None:
        return ents, order, None
    changed = True
    while changed:
        changed = False
        for drop in range(len(ents)):
            en = ents[:drop] + ents[drop + 1:]
            od = [i - (i > drop) for i in order if i != drop]
            r = fails(en, od)
            if r is not None and r[0] == cur[0]:
                ents, order, cur, changed = en, od, r, True
                break
        if changed:
            continue
        for k in range(len(order)):
            od = order[:k] + order[k + 1:]
            if set(od) != set(order):
                continue
            r = fails(ents, od)
            if r is not None and r[0] == cur[0]:
                order, cur, changed = od, r, True
                break
    return ents, order, cur


def classify_names(n1: str, n2: str):
    if n1 != n2 and n1.lower() == n2.lower():
        return "C10-case-only-names"
    return None


def stream_selector(sf, drv, rng, n, variant, rep, cfg):
    table, sep, unnamed = cfg
    Stub = make_stub_class(sf)
    cases = []
    for k in range(n):
        legal = (k % 4) != 3
        case_clean = legal and (k % 2 == 0)
        ents, order = gen_sequence(rng, legal, case_clean)
        if any(ord(c) > 127 for _, nm, _ in ents for c in nm):
            # non-ASCII: lower()/quote of the model are ASCII only - keep for the oracle-free
            # implementation smoke run, not for the comparison
            continue
        cases.append((ents, order, legal, case_clean))
    reqs = []
    for ents, order, legal, _ in cases:
        flat = []
        for i in order:
            flat += [str(i + 1), enc_dir(ents[i][0]), ents[i][1]]
        reqs.append(["c10.run", variant] + flat)
    model = drv.batch(reqs)
    # legality according to the Lean definition, for every distinct name
    names = sorted({nm for ents, _, _, _ in cases for _, nm, _ in ents})
    legal_lean = {nm: r[1] == "1" for nm, r in zip(names, drv.batch([["c10.legal", nm] for nm in names]))}
    n_legal_names = 0
    for nm in names:
        if is_legal(nm):
            n_legal_names += 1
            if not legal_lean[nm]:
                rep.tie_broken(f"the Fortran-legal name {nm!r} does not satisfy the hypothesis `Legal cfg opNames` "
                               f"of the theorems (generated literals: sep={sep!r}, unnamed={unnamed!r}, table={table})")
    # anchors / urls for every (obj, stem) the implementation produced
    impl = [impl_sequence(sf, Stub, ents, order) for ents, order, _, _ in cases]
    aux = {}
    for (ents, order, _, _), res in zip(cases, impl):
        if isinstance(res, tuple):
            continue
        for (stem, anchor, url), i in zip(res, order):
            if all(ord(c) < 128 for c in stem):
                aux[("a", ents[i][2], stem)] = None
                if ents[i][0] is not None:
                    aux[("u", ents[i][0], stem)] = None
    keys = list(aux)
    ans = drv.batch([["c10.anchor", k[1], k[2]] if k[0] == "a" else ["c10.url", k[1], k[2]] for k in keys])
    for k, a in zip(keys, ans):
        aux[k] = a[1]
    hist = {"sequences": 0, "legal": 0, "case_clean": 0, "junk": 0, "entities": 0, "requests": 0,
            "repeat_requests": 0, "with_suffix": 0, "max_suffix": 0, "unnamed": 0, "operator": 0,
            "case_only_pair": 0, "same_name_pair": 0, "dir_none": 0,
            "fill_only_pair": 0, "spaced_operator": 0}
    distinct = set()
    bad = 0
    ofail = 0
    samples = []
    for (ents, order, legal, case_clean), res, mo in zip(cases, impl, model):
        hist["sequences"] += 1
        hist["legal" if legal else "junk"] += 1
        hist["case_clean"] += case_clean
        hist["entities"] += len(ents)
        hist["requests"] += len(order)
        hist["repeat_requests"] += len(order) - len(set(order))
        hist["unnamed"] += any(nm == "" for _, nm, _ in ents)
        hist["operator"] += any("(" in nm for _, nm, _ in ents)
        hist["dir_none"] += any(d is None for d, _, _ in ents)
        pairs = [(a, b) for x, a in enumerate(ents) for b in ents[x + 1:] if a[0] == b[0]]
        co = any(a[1] != b[1] and a[1].lower() == b[1].lower() for a, b in pairs)
        sn = any(a[1] == b[1] for a, b in pairs)
        hist["case_only_pair"] += co
        hist["same_name_pair"] += sn
        sq = lambda x: re.sub(r"[ ._-]", "", x.lower())  # noqa: E731
        bo = any(a[1].lower() != b[1].lower() and sq(a[1]) == sq(b[1]) for a, b in pairs)
        hist["fill_only_pair"] += bo
        hist["spaced_operator"] += any("(" in nm and " " in nm for _, nm, _ in ents)
        if co or sn or bo:
            distinct.add(common.digest([ents, order]))
        case = {"stream": "c10a-sel", "entities": [list(e) for e in ents], "order": order, "legal": legal}
        if isinstance(res, tuple):
            bad += 1
            rep.tie_broken(f"correspondence c10a-sel: implementation raised {res[1]}", dict(case, impl=res, model=mo))
            continue
        stems = [r[0] for r in res]
        for s in stems:
            if "~" in s and s.rsplit("~", 1)[1].isdigit():
                hist["max_suffix"] = max(hist["max_suffix"], int(s.rsplit("~", 1)[1]))
        hist["with_suffix"] += any("~" in s for s in stems)
        if mo[0] != "ok" or mo[1:] != stems:
            bad += 1
            rep.tie_broken(f"correspondence c10a-sel: stems differ (variant {variant}) on {ents} order {order}",
                           dict(case, impl=stems, model=mo))
        else:
            for (stem, anchor, url), i in zip(res, order):
                if any(ord(c) > 127 for c in stem):
                    continue
                ma = aux[("a", ents[i][2], stem)]
                mu = aux[("u", ents[i][0], stem)] if ents[i][0] is not None else None
                if ma != anchor or mu != url:
                    bad += 1
                    rep.tie_broken(f"correspondence c10a-sel: anchor/url differ for {ents[i]}: "
                                   f"implementation {(anchor, url)} model {(ma, mu)}", case)
                    break
        if all(is_legal(nm) for _, nm, _ in ents):
            for why, i, j in oracle_sequence(ents, order, res):
                ofail += 1
                cls = classify_names(ents[i][1], ents[j][1])
                if (cls is None and len(rep.violations) < 5) or (cls is not None and cls not in rep.known_hits):
                    e2, o2, cur = shrink_sequence(sf, Stub, list(ents), list(order))
                    if cur is not None and cur[0] == cls:
                        case = dict(case, entities=[list(e) for e in e2], order=o2, shrunk_from=len(ents))
                        why, res = cur[1], cur[2]
                rep.failing_input(dict(case, oracle="selector: distinct entities of one directory get distinct "
                                       "stems/anchors/URLs; an entity keeps its stem",
                                       why=why, observed=[list(r) for r in res]), cls)
                break
        if len(samples) < 2 and sn and co:
            samples.append(dict(case, observed=stems))
    hist["distinct_names"] = len(names)
    hist["distinct_legal_names"] = n_legal_names
    return dict(n=len(cases), bad=bad, oracle_fail=ofail, hist=hist, distinct=distinct, samples=samples,
                aux=len(keys))


# ------------------------------------------------------------------ real code, entity level (get_dir / obj / ident)

KIND_OF_CLASS = {
    "FortranSourceFile": "sourcefile", "GenericSource": "genericsource", "FortranProgram": "program",
    "FortranModule": "module", "FortranSubmodule": "submodule", "FortranBlockData": "blockdata",
    "FortranNamelist": "namelist", "FortranType": "type", "FortranInterface": "interface",
    "FortranModuleProcedureInterface": "modprocinterface", "FortranSubroutine": "subroutine",
    "FortranFunction": "function", "FortranModuleProcedureImplementation": "modprocimpl",
    "FortranVariable": "variable", "FortranBoundProcedure": "boundproc", "FortranCommon": "common",
    "FortranEnum": "enum", "FortranFinalProc": "finalproc", "FortranModuleProcedureReference": "modprocref",
}


def gen_dir_sources(rng):
    """A small project that contains every entity kind in several parent situations."""
    n = lambda: spell(rng, rng.choice(BASES))  # noqa: E731
    t = spell(rng, rng.choice(["t1", "vec", "foo"]))
    m1, m2 = "m_" + rng.choice("abc"), "m_" + rng.choice("def")
    p_impl, p_fin, p_gen, p_ext, p_extf, p_abs, p_ms, p_int, p_top = (
        "impl_" + rng.choice("ab"), "fin_x", n(), "ext_" + rng.choice("ab"), "extf", "absi_" + rng.choice("ab"),
        "msub", n(), n())
    op = rng.choice(["operator(+)", "operator(<)", "operator(/)", "operator(.dot.)", "OPERATOR(*)", "operator(==)"])
    op_i = space_op(rng, op)  # the interface may be written in another spacing than the type-bound generic
    # interface blocks of every shape (generic / plain / abstract, 0-3 bodies) in the second module
    blocks = []
    blk_lines = []
    nblk = rng.randint(1, 4)
    gen_ops = rng.sample(["operator(+)", "operator(<)", "operator(//)", "assignment(=)", "operator(.dot.)"], 2)
    for bi in range(nblk):
        shape = rng.choice(["generic", "generic", "plain", "abstract"])
        nb = rng.choice([0, 1, 2, 2, 3])
        if shape == "generic":
            r = rng.random()
            gname = f"gen{bi}" if r < 0.4 else (n() if r < 0.6 else space_op(rng, rng.choice(gen_ops)))
            head, tail = f"  interface {gname}", "  end interface"
        elif shape == "plain":
            head, tail = "  interface", "  end interface"
        else:
            head, tail = "  abstract interface", "  end interface"
        blk_lines.append(head)
        if shape == "generic":
            blk_lines.append(f"    !! generic block {bi}")
            if nb == 0 or rng.random() < 0.4:
                blk_lines.append("    module procedure blk_mp")
        for j in range(nb):
            bn = f"blk{bi}_{j}" if rng.random() < 0.7 else f"{rng.choice(BASES)}_b{bi}{j}"
            if rng.random() < 0.5:
                blk_lines += [f"    subroutine {bn}(a, b)", "      integer :: a", f"      {['integer', 'real', 'logical', 'complex'][j]} :: b",
                              f"    end subroutine {bn}"]
            else:
                blk_lines += [f"    function {bn}(a, b) result(r)", "      integer :: a", f"      {['integer', 'real', 'logical', 'complex'][j]} :: b",
                              "      integer :: r", f"    end function {bn}"]
        blk_lines.append(tail)
        blocks.append({"named": shape == "generic", "abstract": shape == "abstract", "bodies": nb})
    blk_text = "\n".join(blk_lines)
    unnamed_bd = rng.random() < 0.5
    unnamed_prog = rng.random() < 0.5
    mod = f"""module {m1}
  !! module doc
  implicit none
  type :: {t}
    !! type doc
    integer :: comp
  contains
    procedure :: bp => {p_impl}
    procedure :: opf
    generic :: {op} => opf
    final :: {p_fin}
  end type {t}
  interface {p_gen}
    !! generic doc
    module procedure {p_impl}
    subroutine body_in_gen(a, b)
      integer :: a, b
    end subroutine body_in_gen
    function body2_in_gen(a) result(r)
      !! a second interface body of the same generic
      real :: a
      integer :: r
    end function body2_in_gen
  end interface {p_gen}
  interface {op_i}
    module procedure opf2
  end interface
  interface
    subroutine {p_ext}(a)
      !! non-generic interface body
      integer :: a
    end subroutine {p_ext}
    function {p_extf}(a)
      integer :: a, {p_extf}
    end function {p_extf}
  end interface
  abstract interface
    subroutine {p_abs}(a)
      integer :: a
    end subroutine {p_abs}
  end interface
  interface
    module subroutine {p_ms}(a)
      integer :: a
    end subroutine {p_ms}
    module function mfun(a) result(r)
      integer :: a, r
    end function mfun
  end interface
  integer :: var1
  integer, parameter :: {p_int}_v = 1
  enum, bind(c)
    enumerator :: red = 1
  end enum
  namelist /nl_{rng.choice("ab")}/ var1
contains
  subroutine {p_impl}(self)
    class({t}), intent(in) :: self
    integer :: loc
    call {p_int}()
  contains
    subroutine {p_int}()
      !! internal procedure
      type :: {t}
        integer :: z
      end type {t}
      interface
        subroutine inner_ext(q)
          integer :: q
        end subroutine inner_ext
      end interface
    end subroutine {p_int}
    function ifun() result(r)
      integer :: r
      r = 1
    end function ifun
  end subroutine {p_impl}
  function opf(a, b) result(r)
    class({t}), intent(in) :: a, b
    integer :: r
    r = 1
  end function opf
  function opf2(a, b) result(r)
    type({t}), intent(in) :: a
    integer, intent(in) :: b
    integer :: r
    r = 1
  end function opf2
  subroutine {p_fin}(x)
    type({t}) :: x
  end subroutine {p_fin}
end module {m1}
"""
    sub = f"""submodule ({m1}) sm_{rng.choice("ab")}
  !! submodule doc
  type :: {t}
    integer :: in_sub
  end type {t}
  interface {p_gen}_s
    module procedure sub_local
  end interface
  interface
    subroutine ext_in_sub(a)
      integer :: a
    end subroutine ext_in_sub
  end interface
contains
  subroutine sub_local(a)
    integer :: a
  end subroutine sub_local
  module subroutine {p_ms}(a)
    integer :: a
  end subroutine {p_ms}
  module procedure mfun
    r = a
  end procedure mfun
end submodule
"""
    mod2 = f"""module {m2}
  use {m1}
  implicit none
  type {t}
    real :: x
  end type
{blk_text}
contains
  subroutine blk_mp(q)
    character(len=*) :: q
  end subroutine blk_mp
  subroutine {p_impl}(self, cb)
    type({t}) :: self
    interface
      subroutine cb(z)
        integer :: z
      end subroutine cb
    end interface
  end subroutine
  function {p_top}_f(a)
    integer :: a, {p_top}_f
    {p_top}_f = a
  end function
end module {m2}
"""
    prog = f"""program {'' if unnamed_prog else 'main_' + rng.choice('ab')}
  !! program doc
  use {m1}
  implicit none
  type :: {t}
    integer :: in_prog
  end type {t}
  integer :: pv
  common /blk/ pv
  interface {p_gen}
    module procedure in_prog
  end interface
  interface
    subroutine {p_top}(a)
      integer :: a
    end subroutine
  end interface
  call {p_top}(1)
contains
  subroutine in_prog()
  end subroutine in_prog
end program
"""
    top = f"""subroutine {p_top}(a)
  !! top-level procedure
  integer :: a
  integer :: cv
  common /blk/ cv
end subroutine {p_top}

function {p_top}_g(a) result(r)
  integer :: a, r
  r = a
end function

block data {'' if unnamed_bd else 'bd_' + rng.choice('ab')}
  type :: {t}
    sequence
    integer :: in_bd
  end type {t}
  integer :: cv
  common /blk/ cv
  data cv /1/
end block data
"""
    files = {"a/" + rng.choice(["mods.f90", "util.f90"]): mod + ("\n" + sub if rng.random() < 0.8 else ""),
             "b/" + rng.choice(["mod2.f90", "util.f90"]): mod2,
             "main.f90": prog, "c/" + rng.choice(["top.f90", "util.f90", "Main.f90"]): top}
    if rng.random() < 0.5:
        files["extra.inc"] = "! just text\n"
    return files, {"module": m2, "blocks": blocks}


def walk_entities(sf, roots):
    seen = {}
    todo = list(roots)
    while todo:
        e = todo.pop()
        if id(e) in seen or not isinstance(e, sf.FortranBase):
            continue
        seen[id(e)] = e
        for v in list(vars(e).values()):
            if isinstance(v, sf.FortranBase):
                if v is not getattr(e, "parent", None):
                    todo.append(v)
            elif isinstance(v, (list, tuple)):
                todo += [x for x in v if isinstance(x, sf.FortranBase)]
            elif isinstance(v, dict):
                todo += [x for x in v.values() if isinstance(x, sf.FortranBase)]
    return list(seen.values())


def stream_dirs(ford, sf, drv, rng, n, variant, rep, workdir):
    from ford.fortran_project import Project
    from ford.settings import ProjectSettings

    from .c10_e2e import ParentRecorder, entity_oracle, source_of_compare, source_of_request

    srcstats = {"entities": 0, "bad": 0, "max_depth": 0, "reparented": 0, "files": 0, "depth_hist": {}}
    stats = {"source_of": srcstats, "projects": 0, "entities": 0, "bad": 0, "kinds": {}, "dirs": {}, "requests": 0, "borrowed": 0,
             "unmapped": {}, "blocks": {}, "block_entities": 0, "oracle_fail": 0, "oracle_pairs": 0}
    for k in range(n):
        files, plan = gen_dir_sources(rng)
        root = workdir / f"d{k}"
        for rel, body in files.items():
            p = root / "src" / rel
            p.parent.mkdir(parents=True, exist_ok=True)
            p.write_text(body)
        log = []
        keep = []
        orig = sf.NameSelector.get_name

        def rec(self, item, _orig=orig):
            r = _orig(self, item)
            keep.append(item)
            log.append((id(item), item.get_dir(), item.name, r))
            return r

        sf.namelist = sf.NameSelector()
        sf.NameSelector.get_name = rec
        try:
            with common.quiet(), ParentRecorder(sf) as precs:
                settings = ProjectSettings(src_dir=[root / "src"], preprocess=False, warn=False, dbg=True,
                                           extra_filetypes=[{"extension": "inc", "comment": "!"}] if "extra.inc" in files else [],
                                           display=["public", "private", "protected"])
                project = Project(settings)
                project.correlate()
                roots = list(project.files) + list(project.extra_files)
                ents = walk_entities(sf, roots)
                srcof = source_of_request(sf, ents, precs.at_init)
                srcstats["reparented"] += sum(1 for e in ents if id(e) in precs.at_init
                                              and precs.at_init[id(e)] is not getattr(e, "parent", None))
                obs = []
                for e in ents:
                    cls = type(e).__name__
                    kind = KIND_OF_CLASS.get(cls)
                    par = getattr(e, "parent", None)
                    pk = KIND_OF_CLASS.get(type(par).__name__) if par is not None else None
                    if kind is None or (par is not None and pk is None and isinstance(par, sf.FortranBase)):
                        stats["unmapped"][cls] = stats["unmapped"].get(cls, 0) + 1
                        continue
                    pg = bool(getattr(par, "generic", False)) if par is not None else False
                    named = bool(e.name)
                    obs.append((e, kind, pk, pg, named, e.obj, e.get_dir()))
                idents = [(e, e.ident) for e, *_ in obs if isinstance(getattr(e, "name", None), str)]
                # interface entities of the block module: (generic, number of procedure children)
                blk_mod = [m for m in project.modules if m.name == plan["module"]]
                blk_seen = []
                for m in blk_mod:
                    for it in list(m.interfaces) + list(m.absinterfaces):
                        kids = [x for x in ents if isinstance(x, sf.FortranProcedure) and x.parent is it]
                        blk_seen.append((bool(it.generic), len(kids)))
                ofails, npairs = entity_oracle(sf, ents)
        except BaseException as ex:  # noqa
            stats["bad"] += 1
            rep.tie_broken(f"c10a-dir: the implementation failed on a generated project: {type(ex).__name__}: {ex}",
                           {"stream": "c10a-dir", "files": files, "trace": traceback.format_exc()[-1500:]})
            continue
        finally:
            sf.NameSelector.get_name = orig
        stats["projects"] += 1
        # hierarchy / source_file / filename of every entity vs the model (FordModel/SourceOf.lean)
        if srcof is not None:
            req, expect, keepobjs, _skipped, entf = srcof
            ans = drv.batch([req])[0]
            srcstats["entities"] += len(expect)
            srcstats["files"] += len({x[1] for x in expect})
            for h, _, _ in expect:
                dpt = 0 if h == "-" else h.count(",") + 1
                srcstats["max_depth"] = max(srcstats["max_depth"], dpt)
                srcstats["depth_hist"][str(dpt)] = srcstats["depth_hist"].get(str(dpt), 0) + 1
            for o, got, want in source_of_compare(ans, expect, keepobjs, entf)[:3]:
                srcstats["bad"] += 1
                stats["bad"] += 1
                rep.tie_broken(f"correspondence c10a-dir: (hierarchy, source_file, filename) of {type(o).__name__} "
                               f"{getattr(o, 'name', None)!r}: model {got}, implementation {want}",
                               {"stream": "c10a-dir", "files": files, "model": list(got), "code": list(want)})
        # property oracle on the entities of the real project (before anything is rendered)
        stats["oracle_pairs"] += npairs
        for f in ofails:
            stats["oracle_fail"] += 1
            rep.failing_input({"stream": "c10a-dir", "oracle": "entity: " + f["oracle"], "why": f["why"],
                               "names": f["names"], "files": files}, classify_names(*f["names"][:2]))
        # interface blocks: which interface entities exist and how many procedures hang below each
        want = []
        for b in plan["blocks"]:
            a = drv.batch([["c10.block", "1" if b["named"] else "0", "1" if b["abstract"] else "0", str(b["bodies"])]])[0]
            sig = ("generic" if b["named"] else "abstract" if b["abstract"] else "plain") + f":{b['bodies']}"
            stats["blocks"][sig] = stats["blocks"].get(sig, 0) + 1
            want += [(a[i] == "1", int(a[i + 1])) for i in range(1, len(a) - 1, 2)]
        stats["block_entities"] += len(blk_seen)
        if len(blk_mod) != 1 or sorted(want) != sorted(blk_seen):
            stats["bad"] += 1
            rep.tie_broken(f"correspondence c10a-dir: interface blocks {plan['blocks']} of module {plan['module']}: "
                           f"implementation keeps (generic, children) {sorted(blk_seen)}, model {sorted(want)}",
                           {"stream": "c10a-dir", "files": files})
        ans = drv.batch([["c10.dir", kind, pk or "-", "1" if pg else "0", "1" if named else "0"]
                         for _, kind, pk, pg, named, _, _ in obs])
        borrow = {}
        for (e, kind, pk, pg, named, obj, d), a in zip(obs, ans):
            stats["entities"] += 1
            sig = f"{kind}<{pk}" + ("(generic)" if pg else "") + ("" if named else "[unnamed]")
            stats["kinds"][sig] = stats["kinds"].get(sig, 0) + 1
            stats["dirs"][str(d)] = stats["dirs"].get(str(d), 0) + 1
            borrow[id(e)] = a[3] == "1" if len(a) > 3 else False
            if a[0] != "ok" or a[1] != obj or a[2] != enc_dir(d):
                stats["bad"] += 1
                rep.tie_broken(f"correspondence c10a-dir: {sig} name={e.name!r}: implementation obj/get_dir "
                               f"{(obj, d)} model {a[1:3]}", {"stream": "c10a-dir", "files": files, "entity": sig})
        # recorded get_name trace vs the model
        ids = {}
        flat = []
        ok = True
        for pid, d, nm, _ in log:
            if not isinstance(nm, str) or any(ord(c) > 127 for c in nm):
                ok = False
                break
            flat += [str(ids.setdefault(pid, len(ids) + 1)), enc_dir(d), nm]
        if ok and log:
            mo = drv.batch([["c10.run", variant] + flat])[0]
            stats["requests"] += len(log)
            if mo[1:] != [r for _, _, _, r in log]:
                stats["bad"] += 1
                rep.tie_broken("correspondence c10a-dir: recorded get_name trace differs from the model",
                               {"stream": "c10a-dir", "files": files, "impl": [r for *_, r in log], "model": mo[1:]})
        # ident of an entity = stem registered for the entity itself, or for its interface when the
        # model says the request is made on behalf of the parent (non-generic interface procedure)
        stem_of = {}
        for pid, _, _, r in log:
            stem_of.setdefault(pid, r)
        for e, ident in idents:
            target = e.parent if borrow.get(id(e)) else e
            if borrow.get(id(e)):
                stats["borrowed"] += 1
            if stem_of.get(id(target)) != ident:
                stats["bad"] += 1
                rep.tie_broken(f"correspondence c10a-dir: ident of {type(e).__name__} {e.name!r} is {ident!r}, "
                               f"the stem registered for its {'parent' if target is not e else 'own'} entry is "
                               f"{stem_of.get(id(target))!r}", {"stream": "c10a-dir", "files": files})
                break
    return stats


def replay_dir_case(sf, rep, files: dict, root: Path):
    """Re-evaluate the entity-level oracle on the project of a stored c10a-dir case."""
    from ford.fortran_project import Project
    from ford.settings import ProjectSettings
    from .c10_e2e import entity_oracle

    for rel, body in files.items():
        p = root / "src" / rel
        p.parent.mkdir(parents=True, exist_ok=True)
        p.write_text(body)
    sf.namelist = sf.NameSelector()
    with common.quiet():
        settings = ProjectSettings(src_dir=[root / "src"], preprocess=False, warn=False, dbg=True,
                                   extra_filetypes=[{"extension": "inc", "comment": "!"}] if "extra.inc" in files else [],
                                   display=["public", "private", "protected"])
        project = Project(settings)
        project.correlate()
        ents = walk_entities(sf, list(project.files) + list(project.extra_files))
        ofails, _ = entity_oracle(sf, ents)
    for f in ofails:
        rep.failing_input({"stream": "c10a-dir", "oracle": "entity: " + f["oracle"], "why": f["why"],
                           "names": f["names"], "files": files, "replayed": True}, classify_names(*f["names"][:2]))


# ------------------------------------------------------------------ main

def load_cfg():
    from translate import c10 as T

    table, sep, unnamed = T.extract_get_name(common.REPO)
    return table, sep, unnamed


def run(tier: str, seed: int, replay: str | None = None) -> int:
    from translate import c10 as T

    rep = Report(PROP, tier, seed)
    lean = lean_prove(PROP, translate=T.translate, thorough=(tier == "thorough"))
    for b in lean.broken():
        rep.tie_broken("proof: " + b)
    if not lean.driver_ok:
        raise common.Infra("driver could not be built: " + common.first_error(lean.build_log))
    ford = common.import_ford()
    import ford.sourceform as sf

    try:
        cfg = load_cfg()
    except Exception as e:
        cfg = ([("<", "lt"), (">", "gt"), ("/", "SLASH"), ("*", "ASTERISK")], "~", "__unnamed__")
        rep.tie_broken(f"translator: {type(e).__name__}: {e}")
    rng = random.Random(seed * 104729 + 10)
    drv = Driver()
    variant = detect_variant(sf, make_stub_class(sf))
    n_sel = 20000 if tier == "quick" else 120000
    n_dir = 40 if tier == "quick" else 300
    n_e2e = 150 if tier == "quick" else 1500

    replay_cases = None
    if replay:
        data = json.loads(Path(replay).read_text())
        replay_cases = data.get("cases") or data.get("first_disagreements") or []

    sel = stream_selector(sf, drv, rng, n_sel, variant, rep, cfg)
    if replay_cases:
        Stub = make_stub_class(sf)
        for c in replay_cases:
            if c.get("stream") == "c10a-sel":
                ents = [tuple(e) for e in c["entities"]]
                res = impl_sequence(sf, Stub, ents, c["order"])
                if not isinstance(res, tuple):
                    for why, i, j in oracle_sequence(ents, c["order"], res):
                        rep.failing_input(dict(c, why=why, replayed=True), classify_names(ents[i][1], ents[j][1]))
                        break
    e2e_stats = {}
    with common.scratch_dir() as d:
        dirs = stream_dirs(ford, sf, drv, rng, n_dir, variant, rep, d)
        seen_dir_cases = set()
        for c in (replay_cases or []):
            if c.get("stream") == "c10a-dir" and isinstance(c.get("files"), dict):
                dg = common.digest(c["files"])
                if dg not in seen_dir_cases:
                    seen_dir_cases.add(dg)
                    try:
                        replay_dir_case(sf, rep, c["files"], d / f"rd{len(seen_dir_cases)}")
                    except Exception as ex:  # the stored project no longer parses: report, do not crash
                        rep.tie_broken(f"c10a-dir replay: {type(ex).__name__}: {ex}", {"stream": "c10a-dir", "files": c["files"]})
        try:
            from . import c10_e2e
        except ImportError as e:  # pragma: no cover
            c10_e2e = None
            rep.tie_broken(f"c10b stream missing: {e}")
        if c10_e2e is not None:
            t0 = time.time()
            e2e_stats = c10_e2e.run_e2e(rep, drv, rng, n_e2e, variant, d / "e2e")
            rp = [c for c in (replay_cases or []) if c.get("stream") == "c10b" and c.get("files")]
            if rp:
                seen_sites = {}
                for c in rp:
                    pj = c.get("project") or {}
                    seen_sites.setdefault(common.digest(c["files"]),
                                          {"files": c["files"], "entities": pj.get("entities", []),
                                           "features": c.get("features", []), "clean": pj.get("clean", False)})
                c10_e2e.run_e2e(rep, drv, rng, 0, variant, d / "replay", projects=list(seen_sites.values()))
            e2e_stats["wall_s"] = round(time.time() - t0, 1)
    sf.namelist = sf.NameSelector()
    drv.close()

    e2e_public = {k: v for k, v in e2e_stats.items() if k != "samples"}
    rep.coverage.update(
        variant_decided=variant,
        evaluations=sel["n"] + dirs["entities"] + e2e_stats.get("sites", 0),
        distinct_nontrivial=len(sel["distinct"]),
        rule="c10a-sel: one evaluation = one request sequence (1-8 entities, 1-3 directories, repeated requests) "
             "run on the real NameSelector through ident/anchor/get_url and on the model; non-trivial = at least two "
             "entities of one directory have equal names, names equal up to case, or names equal up to blanks/-/_/. "
             "(the numbering mechanism, or the step after it, is reached); distinct by digest of (entities, order). c10a-dir: one evaluation = one real entity object "
             "(obj, get_dir, ident). c10b: one evaluation = one generated site run end-to-end.",
        samples=(sel["samples"] + e2e_stats.get("samples", []))[:4],
        traces_validated_against_impl=sel["n"] + dirs["projects"] + e2e_stats.get("sites", 0),
        correspondence_disagreements=sel["bad"] + dirs["bad"] + e2e_stats.get("corr_bad", 0),
        oracle_failures={"c10a-sel": sel["oracle_fail"], "c10b": e2e_stats.get("oracle_fail", {})},
        selector_histogram=sel["hist"],
        anchor_url_pairs_compared=sel["aux"],
        entity_stream={k: v for k, v in dirs.items()},
        source_of_entities_compared=dirs["source_of"]["entities"] + e2e_stats.get("source_of", {}).get("entities", 0),
        e2e_stream=e2e_public,
        generated_table={"symbolTable": cfg[0], "suffixSep": cfg[1], "unnamedStem": cfg[2]},
    )
    rep.assumptions += [
        "names are ASCII (lower() and urllib quote are modelled on ASCII input)",
        "the file system is case-sensitive (Linux); page files that differ only in letter case are distinct files",
        "generic specs are spelled with blanks between their tokens only (operator ( + )), as free source form "
        "requires; FORD keeps the spelling verbatim and treats different spacings as different names",
        "Jinja templates are not modelled: which items appear on a page, and with which id attribute, is observed "
        "on the written site (stream c10b): the ids in the HTML, and which entity objects answered `anchor` while "
        "the page was rendered (outside get_url)",
        "hierarchy/source_file: the model takes the parent every entity had when `_make_hierarchy` ran (recorded "
        "by wrapping that method); FORD re-parents interface bodies later without recomputing `hierarchy`",
    ]
    return rep.finish(lean)
