"""C01, stream `ptype`: ford.sourceform.parse_type against the Lean model FordModel/TypeSpec.lean.

Correspondence (tie): the model's decomposition (vartype, rest, kind, strlen, proto) or error class must equal
the implementation's on structured type specifications, 1-point mutations of them and junk.
Oracle (from the property statement, not from the model): the equivalent spellings of one type specification
(`t*n`, `t(n)`, `t(kind=n)`; `character*n`, `character(n)`, `character(len=n)` ...) must be decomposed by the
real parse_type into the same type / kind / length / remainder, in any letter case and blank layout.
"""
from __future__ import annotations

NUM_TYPES = ["integer", "real", "complex", "logical"]
ALL_TYPES = NUM_TYPES + ["double precision", "doubleprecision", "double  complex", "doublecomplex", "character", "type",
                         "class", "procedure", "enumerator", "double\tprecision", "realx", "int", "typ"]
WS = ["", " ", "  ", "\t"]
FLAT_KINDS = ["8", "4", "16", "dp", "real64", "c_int", "k%v", "kind", "len", "n", "wp_", "int32", "2"]
KINDS = FLAT_KINDS + ["kind(1.0d0)", "selected_real_kind(15, 307)", "merge(4,8,c)", "*", ":", "n+1", "2*n", "len(s)", "(n)",
                      "", "a,b", "c_char", "kind=4", "len=3", "\"1\"", "'a'", "10", "len=*", "kind = 4", "[1,2]"]
TAILS = ["", " :: x", ":: x", ", intent(in) :: x(3)", " x", ",pointer::p=>null()", " function f(a)", "x", " ", "_x", ":x",
         ", dimension(n) :: a", " :: s = \"0\""]
ALPH = list("()**[],,:: =_ \tkindlenreal8\"'x%+")


def _case(rng, s):
    r = rng.random()
    if r < .5:
        return s
    if r < .7:
        return s.upper()
    return "".join(c.upper() if rng.random() < .5 else c for c in s)


def _ws(rng):
    return rng.choice(WS)


def structured(rng):
    t = _case(rng, rng.choice(ALL_TYPES))
    form = rng.randrange(13)
    k, k2 = rng.choice(KINDS), rng.choice(KINDS)
    tail = rng.choice(TAILS)
    ws = lambda: _ws(rng)  # noqa
    cs = lambda s: _case(rng, s)  # noqa
    if form == 0:
        spec = ""
    elif form == 1:
        spec = ws() + "(" + ws() + k + ws() + ")"
    elif form == 2:
        spec = ws() + "(" + ws() + cs("kind") + ws() + "=" + ws() + k + ws() + ")"
    elif form == 3:
        spec = ws() + "*" + ws() + k
    elif form == 4:
        spec = ws() + "*" + ws() + "(" + ws() + k + ws() + ")"
    elif form == 5:
        spec = ws() + "(" + ws() + cs("len") + ws() + "=" + ws() + k + ws() + ")"
    elif form == 6:
        spec = ws() + "(" + cs("len") + "=" + k + ws() + "," + ws() + cs("kind") + ws() + "=" + k2 + ")"
    elif form == 7:
        spec = ws() + "(" + cs("kind") + "=" + k + "," + ws() + cs("len") + ws() + "=" + ws() + k2 + ")"
    elif form == 8:
        spec = ws() + "(" + k + ws() + "," + ws() + k2 + ")"
    elif form == 9:
        spec = ws() + "(" + k + "," + cs("kind") + "=" + k2 + ")"
    elif form == 10:
        spec = ws() + "(" + k + "," + k2 + "," + rng.choice(KINDS) + ")"
    elif form == 11:
        spec = ws() + "(" + k + "(" + k2 + ")" + ")"
    else:
        spec = ws() + "(" + k + ws() + ")" + ws() + "(" + k2 + ")"
    return t + spec + tail


def junk(rng):
    t = rng.choice(ALL_TYPES) if rng.random() < .8 else ""
    return _case(rng, t) + "".join(rng.choice(ALPH) for _ in range(rng.randrange(0, 12)))


def mutate(rng, s):
    if not s:
        return s
    i = rng.randrange(len(s))
    r = rng.random()
    if r < .4:
        return s[:i] + s[i + 1:]
    if r < .8:
        return s[:i] + rng.choice(ALPH) + s[i:]
    return s[:i] + rng.choice(ALPH) + s[i + 1:]


def real_parse(sf, s):
    """the implementation's answer in the model's vocabulary"""
    try:
        p = sf.parse_type(s, ["CAP%d" % i for i in range(20)], ())
    except ValueError as e:
        m = str(e)
        if m.startswith("Invalid variable declaration"):
            return ("err", "invalidDecl")
        if m.startswith("Bad declaration of variable type"):
            return ("err", "badType")
        if m.startswith("Bad type, class"):
            return ("err", "badProto")
        if "too many parameters" in m:
            return ("err", "tooMany")
        return ("err", "ValueError:" + m[:60])
    except RuntimeError:
        return ("err", "parenErr")
    except AttributeError:
        return ("err", "attrErr")
    except Exception as e:  # noqa
        return ("err", type(e).__name__)
    o = lambda x: "-" if x is None else "+" + str(x)  # noqa
    pr = p.proto
    return ("ok", p.vartype, p.rest, o(p.kind), o(p.strlen), o(pr[0] if pr else None), o(pr[1] if pr else None))


def spelling_groups(rng):
    """one abstract type specification in all its equivalent spellings -> (description, [strings], expected)"""
    ws = lambda: _ws(rng)  # noqa
    cs = lambda s: _case(rng, s)  # noqa
    tail = rng.choice([t for t in TAILS if t == "" or t[0] in " :,_" or t[0].isalpha()])
    if rng.random() < .6:
        ty = rng.choice(NUM_TYPES)
        k = rng.choice(FLAT_KINDS)
        forms = [cs(ty) + ws() + "(" + ws() + k + ws() + ")" + tail,
                 cs(ty) + ws() + "(" + ws() + cs("kind") + ws() + "=" + ws() + k + ws() + ")" + tail]
        if k.isdigit():
            forms.append(cs(ty) + ws() + "*" + k + tail)
        return ("kind", forms, (ty, "+" + k, "-"))
    n = rng.choice(["10", "1", "*", ":", "n", "maxlen", "80"])
    withkind = rng.random() < .5
    k = rng.choice(["c_char", "ck", "1", "4"])
    if not withkind:
        forms = ["character" + ws() + "(" + ws() + n + ws() + ")" + tail,
                 cs("character") + ws() + "(" + ws() + cs("len") + ws() + "=" + ws() + n + ws() + ")" + tail,
                 cs("character") + ws() + "*" + ws() + "(" + ws() + n + ws() + ")" + tail]
        if n.isdigit():
            forms.append(cs("character") + ws() + "*" + n + tail)
        return ("charlen", forms, ("character", "-", "+" + n))
    forms = [cs("character") + "(" + cs("len") + "=" + n + "," + ws() + cs("kind") + ws() + "=" + ws() + k + ")" + tail,
             cs("character") + "(" + cs("kind") + "=" + k + ws() + "," + ws() + cs("len") + ws() + "=" + n + ")" + tail,
             cs("character") + "(" + n + "," + ws() + cs("kind") + "=" + k + ")" + tail,
             cs("character") + ws() + "(" + ws() + n + ws() + "," + ws() + k + ws() + ")" + tail]
    return ("charlenkind", forms, ("character", "+" + k, "+" + n))


def run_stream(drv, ford, rng, n_cases, n_groups, rep):
    import ford.sourceform as sf

    stats = {"cases": 0, "disagree": 0, "unmodelled": 0, "groups": 0, "oracle_fail": 0, "outcomes": {}, "group_kinds": {}}
    cases = []
    for _ in range(n_cases):
        r = rng.random()
        cases.append(structured(rng) if r < .6 else mutate(rng, structured(rng)) if r < .8 else junk(rng))
    answers = drv.batch([["c01.parsetype", s] for s in cases])
    for s, m in zip(cases, answers):
        stats["cases"] += 1
        m = tuple(m)
        if m == ("err", "unmodelled"):
            stats["unmodelled"] += 1
            continue
        r = real_parse(sf, s)
        key = r[1] if r[0] == "err" else "ok:" + r[1]
        stats["outcomes"][key] = stats["outcomes"].get(key, 0) + 1
        if m != r:
            stats["disagree"] += 1
            rep.tie_broken("correspondence ptype: parse_type and the Lean model TypeSpec.parseType differ on %r" % s,
                           {"stream": "ptype", "string": s, "impl": list(r), "model": list(m)})
    for _ in range(n_groups):
        kind, forms, (ty, kk, ll) = spelling_groups(rng)
        stats["groups"] += 1
        stats["group_kinds"][kind] = stats["group_kinds"].get(kind, 0) + 1
        got = [real_parse(sf, f) for f in forms]
        want = None
        bad = None
        for f, g in zip(forms, got):
            if g[0] != "ok":
                bad = "parse_type fails on a valid spelling %r: %s" % (f, g[1])
                break
            view = (g[1], g[3], g[4], g[2])
            if (g[1], g[3], g[4]) != (ty, kk, ll):
                bad = "spelling %r is decomposed into type=%s kind=%s len=%s, declared %s %s %s" % (f, g[1], g[3], g[4], ty, kk, ll)
                break
            if want is None:
                want = view
            elif view != want:
                bad = "equivalent spellings differ: %r -> %s but %r -> %s" % (forms[0], want, f, view)
                break
        if bad:
            stats["oracle_fail"] += 1
            rep.failing_input({"stream": "ptype", "why": bad, "spellings": forms}, None)
    return stats
