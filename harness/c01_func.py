"""C01, round 6: the statement that opens a function, and the set of source files handed to the parser.

funcre   (correspondence) function statements - 0-2 prefix items, names from a pool dense in keyword-like identifiers,
         0-3 dummy arguments, the suffix items RESULT(..) and BIND(..) in both legal orders, any keyword case / blank
         layout -, statements of other kinds, 1-2 point mutations of all of these and junk built from the pattern's own
         words: the five groups of the real `FortranContainer.FUNCTION_RE.match` (or no match) must equal `c01.funcre`
         (FordModel/FuncHead.lean `funcRe`) EXACTLY.
funcstmt (correspondence) well-formed function statements + declarations, read by the real FortranSourceFile: name,
         bind text, the dummy arguments (declared / implicit), the result variable (typed by the prefix / the
         declaration with its name / implicit) and the remaining variables must equal `c01.funcstmt` (`funcRe` +
         `argNames` + `bindText` + `Entity.cleanup` + `takeResult`).
funcq    (property oracle, independent of the model) abstract functions (dummy arguments, result name and type,
         language binding, locals) written in BOTH orders of the suffix items with independent blank / case choices:
         FORD must report exactly what was declared in both (so the two spellings agree).
files    (correspondence) random directory trees x settings (src_dir lists that overlap, repeat, nest; exclude_dir;
         exclude patterns): `sorted(find_all_files(settings))` WITH multiplicity and `settings.exclude` afterwards must
         equal `c01.files` (FordModel/SrcFiles.lean `findAllFiles`, `excludeAfter`).
srcq     (property oracle) small projects spread over nested directories, documented by the real `Project` under several
         spellings of the same set of source directories (one directory inside another, a directory listed twice,
         another order): every declared source file / program unit / type / procedure is reported exactly once, and all
         spellings agree.
"""
from __future__ import annotations

import collections
import os
import random
import re
from pathlib import Path

from . import common, progen

WS = ["", "", "", " ", " ", "  ", "\t"]
WS1 = [" ", " ", " ", "  ", "\t", " \t"]
NAMES = ["f", "func", "function", "functions", "function_f", "result", "result_", "results", "bind", "bindc", "rebind", "res",
         "r", "is_ready", "to_kelvin", "end", "x1", "_p", "F2", "Bind_Result", "pure_fn", "module_f", "integer8", "result1"]
ARGS = ["x", "y", "n", "buf", "Handle", "result", "bind", "function", "a1", "k"]
TYPE_PREFIX = ["integer(7)", "real(kind=7)", "character(len=7)", "type(t7)", "integer (7)", "REAL(KIND=7)", "complex(7)"]
PROC_PREFIX = ["pure", "elemental", "recursive", "module", "impure", "PURE", "Recursive", "non_recursive"]
BIND_TEXT = ["c", "C", " c ", "c, name='{n}'", 'C,name="{n}"', "c , name = '{n}'", "c, name=\"{n}\" "]
JUNK = ["function", "FUNCTION", "Function", " ", " ", "  ", "\t", "(", ")", "result", "RESULT", "bind", "Bind", "f", "r", "x",
        ",", "c", "1", "_", "=", "::", "end", "integer", "*", "'a'"]
OTHER = ["end function f", "endfunction", "integer :: function_x", "call function (x)", "x = result(bind(3))", "subroutine s(a)",
         "integer function", "function", "function ", "function(x)", "functionf()", "module procedure function", "contains",
         "procedure(function), pointer :: p", "real functions(3)", "  function g()", "pure function", "interface function"]


def kwc(rng, w):
    r = rng.random()
    return w if r < 0.6 else w.upper() if r < 0.8 else w.capitalize()


def gen_wellformed(rng):
    """an abstract function statement and one spelling of it"""
    name = rng.choice(NAMES)
    args = rng.sample(ARGS, rng.choice([0, 0, 1, 1, 2, 3]))
    typed = rng.random() < 0.3
    prefix = rng.sample(PROC_PREFIX, rng.choice([0, 0, 0, 1, 1, 2]))
    if typed:
        prefix.insert(rng.randrange(len(prefix) + 1), rng.choice(TYPE_PREFIX))
    result = rng.choice(["res", "r", "Kelvin", "result", "bind", "function", "rv_1", name + "_r"]) if rng.random() < 0.6 else None
    lit = None
    bind = None
    if rng.random() < 0.55:
        bind = rng.choice(BIND_TEXT)
        if "{n}" in bind:
            lit = rng.choice(["f_c", "to kelvin", "result(x)", "bind(c)", "0", "a)b", "q"])
            bind = bind.replace("{n}", lit)
    return {"name": name, "args": args, "typed": typed, "prefix": prefix, "result": result, "bind": bind, "lit": lit}


def render_stmt(fn, rng, order=None, paren=True):
    head = "".join((p if "(" in p else kwc(rng, p)) + rng.choice(WS1) for p in fn["prefix"])
    head += kwc(rng, "function") + rng.choice(WS1) + fn["name"]
    if fn["args"] or paren or rng.random() < 0.9:
        head += rng.choice(WS) + "(" + rng.choice(WS) + (rng.choice(WS) + "," + rng.choice(WS)).join(fn["args"]) + rng.choice(WS) + ")"
    items = []
    if fn["result"]:
        items.append(("result", kwc(rng, "result") + rng.choice(WS) + "(" + rng.choice(WS) + fn["result"] + rng.choice(WS) + ")"))
    if fn["bind"]:
        items.append(("bind", kwc(rng, "bind") + rng.choice(WS) + "(" + fn["bind"] + ")"))
    if order == "bind-first":
        items.sort(key=lambda x: x[0])
    elif order == "result-first":
        items.sort(key=lambda x: x[0], reverse=True)
    else:
        rng.shuffle(items)
    for _, t in items:
        head += rng.choice(WS1 if rng.random() < 0.8 else WS) + t
    return head + rng.choice(["", "", " "]), [k for k, _ in items]


def mutate(rng, s):
    for _ in range(rng.choice([1, 1, 2])):
        pos = rng.randrange(len(s) + 1)
        r = rng.random()
        if r < 0.4:
            s = s[:pos] + rng.choice(list(" \t()rbfx,_c1") + ["result", "bind", "function", "("]) + s[pos:]
        elif r < 0.8 and s:
            pos = min(pos, len(s) - 1)
            s = s[:pos] + s[pos + 1:]
        elif s:
            pos = min(pos, len(s) - 1)
            s = s[:pos] + rng.choice(list(" ()xr")) + s[pos + 1:]
    return s


def gen_stmt(rng):
    r = rng.random()
    if r < 0.5:
        fn = gen_wellformed(rng)
        return "wellformed", render_stmt(fn, rng, paren=rng.random() < 0.9)[0]
    if r < 0.72:
        return "mutated", mutate(rng, gen_stmt(rng)[1])
    if r < 0.85:
        return "other", rng.choice(OTHER)
    return "junk", "".join(rng.choice(JUNK) for _ in range(rng.randrange(1, 9)))


def opt(x):
    return "-" if x is None else "+" + x


def run_funcre(drv, ford, rng, n, rep, distinct=None):
    from ford.sourceform import FortranContainer

    st = {"cases": 0, "disagree": 0, "unmodelled": 0, "kinds": {}, "matched": 0, "both_suffix_items": 0, "bind_before_result": 0,
          "result_group_set": 0, "bind_group_set": 0, "attributes_group_set": 0}
    cases = [gen_stmt(rng) for _ in range(n)]
    answers = drv.batch([["c01.funcre", s] for _, s in cases])
    for (kind, s), m in zip(cases, answers):
        st["cases"] += 1
        st["kinds"][kind] = st["kinds"].get(kind, 0) + 1
        if distinct is not None:
            distinct.add(common.digest(["funcre", s]))
        if m[0] == "unmodelled":
            st["unmodelled"] += 1
            continue
        mt = FortranContainer.FUNCTION_RE.match(s)
        if mt is None:
            im = ["none"]
        else:
            g = mt.groupdict()
            im = ["some", opt(g["attributes"]), g["name"], opt(g["arguments"]), opt(g["result"]), opt(g["bindC"])]
            st["matched"] += 1
            st["result_group_set"] += g["result"] is not None
            st["bind_group_set"] += g["bindC"] is not None
            st["attributes_group_set"] += g["attributes"] is not None
            low = s.lower()
            if "result" in low and "bind" in low:
                st["both_suffix_items"] += 1
                st["bind_before_result"] += low.rfind("bind") < low.rfind("result")
        if list(m) != im:
            st["disagree"] += 1
            rep.tie_broken("correspondence funcre: FortranContainer.FUNCTION_RE and the Lean model FuncHead.funcRe differ on %r" % s,
                           {"stream": "funcre", "statement": s, "impl": im, "model": list(m)})
    return st


# ------------------------------------------------------------------ stream funcstmt

def gen_func_case(rng):
    fn = gen_wellformed(rng)
    # names must differ from one another (letter case ignored) to be a legal function
    seen = set()
    fn["args"] = [a for a in fn["args"] if not (a.lower() in seen or seen.add(a.lower()))]
    rname = fn["result"] or fn["name"]
    if rname.lower() in seen:
        fn["result"] = rname = "rv_9"
    seen.add(rname.lower())
    ents = []
    for a in fn["args"]:
        if rng.random() < 0.75:
            ents.append(a)
    fn["result_declared"] = (not fn["typed"]) and rng.random() < 0.8
    if fn["result_declared"]:
        ents.append(rname)
    for loc in rng.sample(["tmp", "scratch", "i_loc", "w"], rng.choice([0, 1, 1, 2])):
        if loc.lower() not in seen:
            ents.append(loc)
    rng.shuffle(ents)
    fn["ents"] = [(rng.choice([e, e, e.upper(), e.capitalize()]), rng.choice(["", "", "(3)", "(2,n)", "(:)"])) for e in ents]
    return fn


def render_func_file(fn, rng, order=None):
    stmt, items = render_stmt(fn, rng, order=order)
    lines = [stmt]
    ent_texts = []
    ents = list(fn["ents"])
    while ents:
        k = rng.choice([1, 1, 2, 3])
        grp, ents = ents[:k], ents[k:]
        lines.append("  " + kwc(rng, "logical") + " :: " + (rng.choice(WS) + "," + rng.choice(WS)).join(n + rng.choice(["", " "]) + d if d else n for n, d in grp))
        ent_texts += [n + d for n, d in grp]
    lines.append(rng.choice(["end function", "end function " + fn["name"], "end", "endfunction"]))
    return "\n".join(lines) + "\n", stmt, ent_texts, items


def observe_function(f):
    """what the real object says, in the shape of `c01.funcstmt`"""
    def is_prefix_typed(v):
        return str(getattr(v, "kind", "")) == "7" or str(getattr(v, "strlen", "")) == "7" or "t7" in str(getattr(v, "proto", ""))
    im = ["some", f.name, opt(f.bindC), str(len(f.args))]
    for a in f.args:
        nm = str(getattr(a, "name", a))
        im += ["d", nm, str(a.dimension)] if getattr(a, "vartype", None) == "logical" else ["i", nm, ""]
    rv = f.retvar
    if getattr(rv, "vartype", None) == "logical":
        im += ["d", rv.name, str(rv.dimension)]
    elif is_prefix_typed(rv):
        im += ["p", rv.name, ""]
    else:
        im += ["i", str(getattr(rv, "name", rv)), ""]
    for v in f.variables:
        im += [str(v.name), str(v.dimension)]
    return im


def fold(resp):
    if not resp or resp[0] != "some":
        return list(resp)
    n = int(resp[3])
    out = [resp[0], resp[1], resp[2], resp[3]]
    body = resp[4:]
    for j in range(0, 3 * (n + 1), 3):
        out += [body[j], body[j + 1].lower(), body[j + 2]]
    rest = body[3 * (n + 1):]
    for j in range(0, len(rest), 2):
        out += [rest[j].lower(), rest[j + 1]]
    return out


def read_function(d, k, text):
    from ford.settings import ProjectSettings
    from ford.sourceform import FortranSourceFile

    p = d / ("func%d.f90" % (k % 16))
    p.write_text(text)
    with common.quiet():
        fobj = FortranSourceFile(str(p), ProjectSettings())
    return fobj


def run_funcstmt(drv, ford, rng, n, rep, d, distinct=None):
    st = {"cases": 0, "disagree": 0, "unmodelled": 0, "exceptions": 0, "result_declared": 0, "result_implicit": 0, "result_prefix_typed": 0,
          "both_suffix_items": 0, "bind_before_result": 0, "bind_with_literal": 0}
    cases = []
    for k in range(n):
        crng = random.Random(rng.getrandbits(48))
        fn = gen_func_case(crng)
        text, stmt, ents, items = render_func_file(fn, crng)
        masked = stmt
        if fn["lit"] is not None:
            masked = re.sub(r"'[^']*'|\"[^\"]*\"", '"0"', stmt, count=1)
        cases.append((fn, text, stmt, masked, ents, items))
    answers = drv.batch([["c01.funcstmt", "1" if fn["typed"] else "0", masked] + ents for fn, _, _, masked, ents, _ in cases])
    for k, ((fn, text, stmt, masked, ents, items), m) in enumerate(zip(cases, answers)):
        st["cases"] += 1
        if distinct is not None:
            distinct.add(common.digest(["funcstmt", text]))
        if m[0] == "unmodelled":
            st["unmodelled"] += 1
            continue
        st["both_suffix_items"] += len(items) == 2
        st["bind_before_result"] += items == ["bind", "result"]
        st["bind_with_literal"] += fn["lit"] is not None
        m = list(m)
        try:
            fobj = read_function(d, k, text)
            if len(fobj.functions) != 1:
                im = ["none"]
            else:
                im = observe_function(fobj.functions[0])
                kind = im[4 + 3 * len(fobj.functions[0].args)]
                st["result_declared"] += kind == "d"
                st["result_implicit"] += kind == "i"
                st["result_prefix_typed"] += kind == "p"
        except Exception as e:  # noqa
            im = ["exc", type(e).__name__]
            st["exceptions"] += 1
        if m[0] == "some" and m[2] == "!":
            m = ["exc", "RuntimeError"]
        elif m[0] == "some" and fn["lit"] is not None and m[2].startswith("+"):
            q = re.search(r"'[^']*'|\"[^\"]*\"", stmt).group()
            m[2] = m[2].replace('"0"', q, 1)
        if fold(m) != fold(im):
            st["disagree"] += 1
            rep.tie_broken("correspondence funcstmt: the function FORD records differs from the Lean model FuncHead.funcCleanup on case %d" % k,
                           {"stream": "funcstmt", "text": text, "impl": im, "model": m})
    return st


# ------------------------------------------------------------------ stream funcq (property oracle)

RESULT_TYPES = [("integer", None), ("real", "8"), ("logical", None), ("real", "c_double"), ("integer", "c_int")]


def bind_defect_class(order_items, diffs_here):
    """C01-bind-before-result: BIND written before RESULT and FORD reports the bind text followed by one `)`"""
    return order_items == ["bind", "result"]


def run_funcq(ford, rng, n, rep, d, distinct=None):
    st = {"cases": 0, "spellings": 0, "oracle_fail": 0, "known": {}, "with_both_items": 0}
    for k in range(n):
        crng = random.Random(rng.getrandbits(48))
        fn = gen_func_case(crng)
        fn["typed"] = False
        fn["prefix"] = [p for p in fn["prefix"] if "(" not in p and p.lower() != "module"]
        fn["result_declared"] = True
        rname = fn["result"] or fn["name"]
        names = {e[0].lower() for e in fn["ents"]}
        for a in fn["args"] + [rname]:
            if a.lower() not in names:
                fn["ents"].append((a, ""))
                names.add(a.lower())
        rtype, rkind = crng.choice(RESULT_TYPES)
        st["cases"] += 1
        st["with_both_items"] += bool(fn["result"] and fn["bind"])
        exp_bind = None if fn["bind"] is None else progen.nsp(fn["bind"]).lower()
        for order in ("result-first", "bind-first"):
            srng = random.Random(crng.getrandbits(48))
            stmt, items = render_stmt(fn, srng, order=order)
            lines = [stmt]
            for nm, dims in fn["ents"]:
                if nm.lower() == rname.lower():
                    lines.append("  %s%s :: %s%s" % (rtype, "(kind=%s)" % rkind if rkind else "", nm, dims))
                else:
                    lines.append("  character(len=5) :: %s%s" % (nm, dims))
            lines.append("end function " + fn["name"])
            text = "\n".join(lines) + "\n"
            st["spellings"] += 1
            if distinct is not None:
                distinct.add(common.digest(["funcq", text]))
            problems = []
            try:
                fobj = read_function(d, k, text)
                if len(fobj.functions) != 1:
                    problems.append(("functions reported %s, declared [%s]" % ([f.name for f in fobj.functions], fn["name"]), None))
                else:
                    f = fobj.functions[0]
                    by = {nm.lower(): dims for nm, dims in fn["ents"]}
                    if f.name.lower() != fn["name"].lower():
                        problems.append(("name: declared %r reported %r" % (fn["name"], f.name), None))
                    got_args = [(str(getattr(a, "name", a)).lower(), getattr(a, "vartype", None), progen.nsp(str(getattr(a, "dimension", "")))) for a in f.args]
                    exp_args = [(a.lower(), "character", progen.nsp(by[a.lower()])) for a in fn["args"]]
                    if got_args != exp_args:
                        problems.append(("argument list: declared %s reported %s" % (exp_args, got_args), None))
                    rv = f.retvar
                    got_rv = (str(getattr(rv, "name", rv)).lower(), getattr(rv, "vartype", None), getattr(rv, "kind", None) and str(rv.kind).lower(),
                              progen.nsp(str(getattr(rv, "dimension", ""))))
                    exp_rv = (rname.lower(), rtype, rkind, progen.nsp(by[rname.lower()]))
                    if got_rv != exp_rv:
                        problems.append(("result variable: declared %s reported %s" % (exp_rv, got_rv), None))
                    got_loc = sorted((v.name.lower(), v.vartype, progen.nsp(str(v.dimension))) for v in f.variables)
                    exp_loc = sorted((nm.lower(), "character", progen.nsp(dims)) for nm, dims in fn["ents"]
                                     if nm.lower() != rname.lower() and nm.lower() not in [a.lower() for a in fn["args"]])
                    if got_loc != exp_loc:
                        problems.append(("local variables: declared %s reported %s" % (exp_loc, got_loc), None))
                    got_bind = None if f.bindC is None else progen.nsp(f.bindC).lower()
                    if got_bind != exp_bind:
                        fid = None
                        if items == ["bind", "result"] and exp_bind is not None and got_bind == exp_bind + ")":
                            fid = "C01-bind-before-result"
                        problems.append(("bindC: declared %r reported %r" % (exp_bind, got_bind), fid))
            except Exception as e:  # noqa
                problems.append(("FORD failed on valid input: %s: %s" % (type(e).__name__, str(e)[:100]), None))
            for why, fid in problems:
                st["oracle_fail"] += 1
                st["known"][str(fid)] = st["known"].get(str(fid), 0) + 1
                rep.failing_input({"stream": "funcq", "case": k, "suffix_order": order, "why": why, "text": text}, fid)
    return st


# ------------------------------------------------------------------ stream files

DIRS = ["src", "src/legacy", "src/legacy/old", "app", "lib", "lib/src", "src2", "doc", "src/x.f90", "app/src"]
FILE_NAMES = ["a.f90", "b.F90", "c.f", "d.txt", "e.md", "f.f90.bak", "g.F", "h.for", "i.f90x", ".f90", "j.f95", "k.f03", "noext", "l.f90", "m.inc", "n.fpp"]
EXCL = ["a.f90", "l.f90", "legacy/a.f90", "src/a.f90", "*.f", "x?.f90", "?.f90", "src/legacy/*", "**/l.f90", "app/b.F90", "old/c.f", "*legacy*", "doc", "c.f", "src/src/a.f90"]


def make_tree(root, rng):
    dirs = rng.sample(DIRS, rng.randrange(2, 7))
    for dname in dirs:
        (root / dname).mkdir(parents=True, exist_ok=True)
    all_dirs = sorted({str(p.relative_to(root)) for p in root.rglob("*") if p.is_dir()})
    for dname in all_dirs:
        for fname in rng.sample(FILE_NAMES, rng.randrange(0, 5)):
            p = root / dname / fname
            if not p.exists():
                p.write_text("")
    return all_dirs


def run_files(drv, ford, rng, n, rep, d, distinct=None):
    from itertools import chain
    from ford.fortran_project import find_all_files
    from ford.settings import ProjectSettings
    import shutil

    st = {"cases": 0, "disagree": 0, "unmodelled": 0, "overlapping_src_dirs": 0, "repeated_src_dir": 0, "files_selected": 0,
          "files_excluded_by_dir": 0, "patterns_rewritten": 0, "exceptions": 0}
    reqs, impls, descr = [], [], []
    old = os.getcwd()
    for k in range(n):
        crng = random.Random(rng.getrandbits(48))
        root = d / "tree"
        shutil.rmtree(root, ignore_errors=True)
        root.mkdir()
        dirs = make_tree(root, crng)
        src = [crng.choice(dirs) for _ in range(crng.choice([1, 1, 2, 2, 3, 4]))]
        exdirs = [str(root / x) if crng.random() < 0.7 else x for x in crng.sample(dirs, crng.choice([0, 0, 1, 2]))]
        excl = crng.sample(EXCL, crng.choice([0, 0, 1, 2, 3]))
        entries = sorted(("F" if p.is_file() else "D") + str(p) for p in root.rglob("*"))
        try:
            os.chdir(root)
            with common.quiet():
                settings = ProjectSettings(src_dir=[root / s for s in src], exclude_dir=list(exdirs), exclude=list(excl))
                sdirs = [str(p) for p in settings.src_dir]
                exts = list(chain(settings.extensions, settings.fixed_extensions, settings.extra_filetypes.keys()))
                sex = [str(x) for x in settings.exclude_dir]
                sexcl = list(settings.exclude)
                try:
                    got = find_all_files(settings)
                    im = ["ok", "|".join(settings.exclude)] + sorted(str(p) for p in got)
                except Exception as e:  # noqa
                    im = ["exc", type(e).__name__]
                    st["exceptions"] += 1
        finally:
            os.chdir(old)
        reqs.append(["c01.files", str(root), "|".join(sdirs), "|".join(exts), "|".join(sex), "|".join(sexcl)] + entries)
        impls.append(im)
        descr.append({"src_dir": src, "exclude_dir": exdirs, "exclude": excl, "entries": [e[0] + e[len(str(root)) + 2:] for e in entries]})
        st["overlapping_src_dirs"] += any(a != b and (b + "/").startswith(a + "/") for a in src for b in src)
        st["repeated_src_dir"] += len(set(src)) < len(src)
    answers = drv.batch(reqs)
    for k, (m, im, ds) in enumerate(zip(answers, impls, descr)):
        st["cases"] += 1
        if distinct is not None:
            distinct.add(common.digest(["files", ds]))
        if m[0] == "unmodelled":
            st["unmodelled"] += 1
            continue
        mm = list(m[:2]) + sorted(m[2:]) if m[0] == "ok" else list(m)
        if im[0] == "ok":
            st["files_selected"] += len(im) - 2
            st["patterns_rewritten"] += im[1].count("**/") - "|".join(ds["exclude"]).count("**/")
        if mm != im:
            st["disagree"] += 1
            rep.tie_broken("correspondence files: find_all_files and the Lean model SrcFiles.findAllFiles differ on case %d" % k,
                           {"stream": "files", "settings": ds, "impl": im, "model": mm})
    return st


# ------------------------------------------------------------------ stream srcq (property oracle)

def gen_units(rng, k):
    """k source files with uniquely named program units; returns [(file name, text, declared Counter)]"""
    out = []
    have_program = False
    for i in range(k):
        decl = collections.Counter()
        lines = []
        for j in range(rng.choice([1, 1, 2, 3])):
            u = "u%d_%d" % (i, j)
            kind = rng.choice(["module", "module", "subroutine", "function", "blockdata", "program"])
            if kind == "program" and have_program:
                kind = "module"
            if kind == "module":
                lines += ["module m%s" % u, "  type :: t%s" % u, "    integer :: c", "  end type", "contains",
                          "  subroutine p%s(x)" % u, "    integer :: x", "  end subroutine", "end module m%s" % u]
                decl[("module", "m" + u)] += 1
                decl[("type", "t" + u)] += 1
                decl[("module procedure", "p" + u)] += 1
            elif kind == "subroutine":
                lines += ["subroutine s%s(a)" % u, "  real :: a", "end subroutine"]
                decl[("external procedure", "s" + u)] += 1
            elif kind == "function":
                lines += ["function f%s(a) result(r)" % u, "  real :: a, r", "end function"]
                decl[("external procedure", "f" + u)] += 1
            elif kind == "blockdata":
                lines += ["block data b%s" % u, "  real :: q%s" % u, "  common /c%s/ q%s" % (u, u), "end block data"]
                decl[("block data", "b" + u)] += 1
            else:
                have_program = True
                lines += ["program g%s" % u, "  integer :: i", "end program"]
                decl[("program", "g" + u)] += 1
        fname = "file%d.%s" % (i, rng.choice(["f90", "f90", "F90", "f95"]))
        decl[("source file", fname)] += 1
        out.append((fname, "\n".join(lines) + "\n", decl))
    return out


def document(ford, src_dirs):
    import ford.sourceform as sf
    from ford.fortran_project import Project
    from ford.settings import ProjectSettings

    sf.namelist = sf.NameSelector()
    with common.quiet():
        project = Project(ProjectSettings(src_dir=list(src_dirs), preprocess=False))
    rep = collections.Counter()
    for f in project.files:
        rep[("source file", f.name)] += 1
    for m in project.modules:
        rep[("module", m.name.lower())] += 1
        for t in m.types:
            rep[("type", t.name.lower())] += 1
        for p in m.routines:
            rep[("module procedure", p.name.lower())] += 1
    for p in project.programs:
        rep[("program", p.name.lower())] += 1
    for b in project.blockdata:
        rep[("block data", b.name.lower())] += 1
    for p in project.procedures:
        rep[("external procedure", p.name.lower())] += 1
    return rep


def run_srcq(ford, rng, n, rep, d, distinct=None):
    import shutil
    import ford as ford_pkg  # noqa

    st = {"cases": 0, "spellings": 0, "oracle_fail": 0, "nested_spellings": 0, "repeated_spellings": 0}
    old = os.getcwd()
    for k in range(n):
        crng = random.Random(rng.getrandbits(48))
        root = d / "proj"
        shutil.rmtree(root, ignore_errors=True)
        root.mkdir()
        layout = crng.sample(["src", "src/legacy", "src/legacy/old", "app", "lib/core", "lib"], crng.randrange(2, 5))
        units = gen_units(crng, crng.randrange(2, 5))
        declared = collections.Counter()
        used = set()
        for fname, text, decl in units:
            sub = crng.choice(layout)
            used.add(sub)
            (root / sub).mkdir(parents=True, exist_ok=True)
            (root / sub / fname).write_text(text)
            declared += decl
        tops = sorted({u.split("/")[0] for u in used})
        nested = sorted({"/".join(u.split("/")[:i]) for u in used for i in range(2, len(u.split("/")) + 1)})
        spellings = [("top directories", tops)]
        if nested:
            extra = crng.sample(nested, crng.randrange(1, len(nested) + 1))
            mixed = tops + extra
            crng.shuffle(mixed)
            spellings.append(("a directory and directories inside it", mixed))
        spellings.append(("a directory listed twice", tops + [crng.choice(tops)]))
        st["cases"] += 1
        for label, src in spellings:
            st["spellings"] += 1
            st["nested_spellings"] += label.startswith("a directory and")
            st["repeated_spellings"] += label.endswith("twice")
            if distinct is not None:
                distinct.add(common.digest(["srcq", [(f, t) for f, t, _ in units], src]))
            try:
                os.chdir(root)
                reported = document(ford, [root / s for s in src])
                why = None
                if reported != declared:
                    bad = sorted(key for key in set(reported) | set(declared) if reported[key] != declared[key])
                    why = "; ".join("%s %s declared %d time(s), documented %d time(s)" % (kd, nm, declared[(kd, nm)], reported[(kd, nm)])
                                    for kd, nm in bad[:6])
            except Exception as e:  # noqa
                why = "FORD failed on valid input: %s: %s" % (type(e).__name__, str(e)[:100])
            finally:
                os.chdir(old)
            if why:
                st["oracle_fail"] += 1
                rep.failing_input({"stream": "srcq", "case": k, "src_dir": src, "spelling": label, "why": why,
                                   "files": {f: t for f, t, _ in units}}, None)
    return st
