"""C02 - statement and doc extraction depends only on Fortran lexical rules.

Streams
  micro   : `_contains_unterminated_string`, COM_RE / doc-mark regexes, `quote_split`
            against their Lean mirrors on random strings (exact comparison).
  layout  : generated (token sequences, layout) -> file -> `list(FortranReader)`;
            (a) correspondence: equal to the Lean `readAll` on the same lines,
            (b) property oracle: squeeze(items) == squeeze(token sequences), docs exact.
  junk    : random lines over a small alphabet, model vs implementation incl. error kinds.
"""
from __future__ import annotations

import itertools
import random
from pathlib import Path

from . import common
from .common import Driver, Report, lean_prove

PROP = "C02"
MARKS = ("!", ">", "*", "|")

CODE = ["x", "=", "y1", "+", "call f", "(", ")", ",", "print *,", "1.0e0", "if (a) b", "end do", "//", "z%w", ":", "include_", "then"]
LITBODY = ["a", " ", "!", ";", "&", "OTHER", "DOUBLED", "!!", "!>", "call g()", "", "  ", "'", "b c"]


def lit(q, pieces):
    other = '"' if q == "'" else "'"
    body = "".join(other if p == "OTHER" else q + q if p == "DOUBLED" else (other if p == "'" else p) for p in pieces)
    return ("lit", q + body + q)


def gen_stmt(rng, maxtok=5):
    n = rng.randint(1, maxtok)
    toks = []
    for k in range(n):
        if rng.random() < 0.45:
            q = rng.choice("'\"")
            toks.append(lit(q, [rng.choice(LITBODY) for _ in range(rng.randint(0, 4))]))
        else:
            toks.append(("code", rng.choice(CODE)))
    if toks[0][0] == "code" and toks[0][1] in ("&",):
        toks[0] = ("code", "x")
    return toks


COMMENTS = ["! c", "!c 'q", "! it's; &", "!", "!  \"", "!x !! not doc"]
DOCS = ["!! doc", "!! it's a doc; with & and 'q", "!!d2", "!! see \"x"]


def render(rng, stmts, feat):
    """Render statements into physical lines with a random legal layout.
    Returns (lines, expected_items) where expected_items is the list of
    ('stmt', squeezed_text) / ('doc', text).  `feat` collects layout features."""
    lines = []
    expected = []
    cur = rng.choice(["", "  ", "\t", "    "])
    pending_docs = []
    first_on_line = True

    def interleave(inlit):
        k = rng.choice([0, 0, 0, 1, 2])
        for _ in range(k):
            r = rng.random()
            if r < 0.4:
                lines.append(rng.choice(["", "   "]))
                feat.add("blank-in-cont")
            elif r < 0.8:
                lines.append(rng.choice(["", "  "]) + rng.choice(COMMENTS))
                feat.add("comment-in-cont-lit" if inlit else "comment-in-cont")
            else:
                lines.append(rng.choice(["&", "  &  "]))
                feat.add("amp-only-line")

    def endline(allow_doc=True):
        nonlocal cur
        r = rng.random()
        if r < 0.25:
            cur += rng.choice([" ", ""]) + rng.choice(COMMENTS)
            feat.add("trailing-comment")
        elif r < 0.45 and allow_doc:
            d = rng.choice(DOCS)
            cur += rng.choice([" ", ""]) + d
            pending_docs.append(d)
            feat.add("inline-doc")
        lines.append(cur + rng.choice(["", " ", "  "]))
        cur = rng.choice(["", "  ", "\t"])

    def flush_docs():
        for d in pending_docs:
            expected.append(("doc", d))
        pending_docs.clear()

    inlit_open = False  # the current physical line began inside a continued literal
    for si, toks in enumerate(stmts):
        text = ""
        for ti, (kind, t) in enumerate(toks):
            if ti > 0:
                r = rng.random()
                if r < 0.35:
                    cur += rng.choice(["", " ", "  "])
                elif r < 0.5:
                    cur += " "
                else:
                    # continuation break between tokens
                    cur += rng.choice(["", " "]) + "&"
                    if rng.random() < 0.3:
                        cur += " " + rng.choice(COMMENTS)
                        feat.add("comment-after-amp")
                        if inlit_open:
                            feat.add("comment-on-lit-closing-line")
                    lines.append(cur)
                    inlit_open = False
                    interleave(False)
                    cur = rng.choice(["", "  ", "      "])
                    if rng.random() < 0.5:
                        cur += "&" + rng.choice(["", " "])
                        feat.add("leading-amp")
                    else:
                        feat.add("no-leading-amp")
                    feat.add("break")
            if kind == "lit" and len(t) > 2 and rng.random() < 0.3:
                # break inside the literal body (not splitting a doubled quote)
                q = t[0]
                cands = [i for i in range(1, len(t)) if not (t[i - 1] == q and t[i] == q and 1 < i < len(t) - 0) or i == 1]
                cands = [i for i in cands if 1 <= i <= len(t) - 1]
                # never split between the two characters of a doubled quote
                body_idx = []
                i = 1
                while i < len(t) - 1:
                    body_idx.append(i)
                    if t[i] == q and t[i + 1] == q and i + 1 < len(t) - 1:
                        i += 2
                    else:
                        i += 1
                body_idx.append(len(t) - 1)
                pos = rng.choice(body_idx)
                cur += t[:pos] + "&"
                lines.append(cur)
                interleave(True)
                cur = rng.choice(["", "   "]) + "&" + t[pos:]
                inlit_open = True
                feat.add("break-in-literal")
                if t[:pos].endswith(" "):
                    feat.add("blank-before-amp-in-literal")
            else:
                cur += t
            text += t if kind == "lit" else t.replace(" ", "")
        expected.append(("stmt", text))
        # statement separator
        last = si == len(stmts) - 1
        if not last and rng.random() < 0.35:
            cur += rng.choice(["", " "]) + ";" + rng.choice(["", " "])
            feat.add("semicolon")
            continue
        # end of physical line
        before = len(cur)
        had_lit_open = inlit_open
        endline()
        if had_lit_open and ("!" in lines[-1][before:]):
            feat.add("comment-on-lit-closing-line")
        inlit_open = False
        flush_docs()
        # lines between statements
        for _ in range(rng.choice([0, 0, 1, 2])):
            r = rng.random()
            if r < 0.4:
                lines.append(rng.choice(["", "  "]))
            elif r < 0.8:
                lines.append(rng.choice(["", " "]) + rng.choice(COMMENTS))
                feat.add("comment-line")
            else:
                d = rng.choice(DOCS)
                lines.append(rng.choice(["", "  "]) + d)
                expected.append(("doc", d))
                feat.add("doc-line")
    return lines, expected


def squeeze(s: str) -> str:
    """Remove blanks outside character literals."""
    out = []
    q = None
    for c in s:
        if q is None:
            if c in "'\"":
                q = c
                out.append(c)
            elif c in " \t":
                continue
            else:
                out.append(c)
        else:
            out.append(c)
            if c == q:
                q = None
    return "".join(out)


def impl_read(ford, path: Path):
    """list(FortranReader(path)) with errors mapped to the model's enum."""
    from ford.reader import FortranReader

    try:
        with common.quiet():
            return ("ok", list(FortranReader(str(path), *MARKS)))
    except ValueError as e:
        msg = str(e)
        if "Preceding documentation lines" in msg:
            return ("err", ["predoc-inline"])
        if "Alternate documentation" in msg:
            return ("err", ["alt-inline"])
        if "Can not start a new line" in msg:
            return ("err", ["amp-start"])
        return ("err", ["ValueError:" + msg[:60]])
    except RuntimeError as e:
        if "Preceding alternate documentation" in str(e):
            return ("err", ["predoc-alt-inline"])
        return ("err", ["RuntimeError:" + str(e)[:60]])
    except Exception as e:  # anything else is a disagreement by construction
        return ("err", [type(e).__name__ + ":" + str(e)[:60]])


def oracle(expected, items):
    """Property oracle: None when the items are what Fortran's lexical rules give."""
    if items[0] != "ok":
        return f"reader raised {items[1]}"
    got = [i for i in items[1] if i != "!!"]  # empty doc lines emitted for blank lines
    exp = []
    for kind, t in expected:
        exp.append(squeeze(t) if kind == "stmt" else t.rstrip())
    # doc lines keep their text verbatim (trailing blanks are not significant)
    g2 = [g.rstrip() if g.startswith("!!") else squeeze(g) for g in got]
    if g2 != exp:
        for k, (a, b) in enumerate(itertools.zip_longest(exp, g2)):
            if a != b:
                return f"item {k}: expected {a!r} got {b!r}"
    return None


def classify(feat, lines):
    """Known defect classes (see known_findings.json); None = not a known class."""
    if "break-in-literal" in feat and ("comment-in-cont-lit" in feat or "comment-on-lit-closing-line" in feat):
        return "C02-comment-while-literal-continued"
    return None


def micro_streams(ford, drv, rng, n, rep):
    import ford.reader as R
    import ford.utils as U
    import re

    alpha = "a '\"!&;>|*x"
    reqs, exp = [], []
    for _ in range(n):
        s = "".join(rng.choice(alpha) for _ in range(rng.randint(0, 12)))
        reqs.append(["unterm", s])
        exp.append(["ok", "1" if R._contains_unterminated_string(s) else "0"])
        mark = rng.choice(["", "!", ">", "*", "|", "!>"])
        rx = R.FortranReader.COM_RE if mark == "" else R._compile_docmark(mark)
        m = rx.match(s)
        reqs.append(["comscan", mark, s])
        exp.append(["ok", str(m.start(4)) if m else "none"])
        sep = rng.choice(";,")
        reqs.append(["qsplit", sep, s])
        exp.append(["ok"] + U.quote_split(sep, s))
    got = drv.batch(reqs)
    bad = 0
    for r, e, g in zip(reqs, exp, got):
        if e != g:
            bad += 1
            rep.tie_broken(f"correspondence micro/{r[0]}: model {g} vs implementation {e} on {r[1:]!r}",
                           {"stream": "micro", "request": r, "impl": e, "model": g})
    return len(reqs), bad


def run(tier: str, seed: int, replay: str | None = None) -> int:
    rep = Report(PROP, tier, seed)
    lean = lean_prove(PROP, thorough=(tier == "thorough"))
    for b in lean.broken():
        rep.tie_broken("proof: " + b)
    ford = common.import_ford()
    rng = random.Random(seed * 7919 + 2)
    drv = Driver()
    n_micro = 4000 if tier == "quick" else 40000
    n_layout = 3000 if tier == "quick" else 40000
    n_junk = 1500 if tier == "quick" else 15000
    ev_micro, bad_micro = micro_streams(ford, drv, rng, n_micro, rep)

    feats_hist: dict[str, int] = {}
    distinct = set()
    samples = []
    n_bad_corr = 0
    n_oracle_fail = 0
    cases = []
    with common.scratch_dir() as d:
        # ---------------- layout stream
        for k in range(n_layout):
            nst = rng.randint(1, 3 if k % 5 else 6)
            stmts = [gen_stmt(rng, 5 if k % 7 else 9) for _ in range(nst)]
            feat: set[str] = set()
            lines, expected = render(rng, stmts, feat)
            cases.append((lines, expected, feat))
        reqs = [["read", *MARKS, *lines] for lines, _, _ in cases]
        model = drv.batch(reqs)
        for k, ((lines, expected, feat), mo) in enumerate(zip(cases, model)):
            p = d / f"c{k % 64}.f90"
            p.write_text("".join(l + "\n" for l in lines))
            im = impl_read(ford, p)
            for f in feat:
                feats_hist[f] = feats_hist.get(f, 0) + 1
            key = common.digest(lines)
            if feat & {"break", "break-in-literal", "semicolon", "inline-doc"}:
                distinct.add(key)
            if len(samples) < 3 and "break-in-literal" in feat:
                samples.append({"lines": lines, "items": im[1]})
            mo_t = (mo[0], mo[1:])
            if (im[0], list(im[1])) != (mo_t[0], list(mo_t[1])):
                cls = classify(feat, lines)
                # the model is the repaired reading; a known defect class explains the difference
                if cls is None:
                    n_bad_corr += 1
                    rep.tie_broken(f"correspondence layout: model and implementation differ on case {k}",
                                   {"stream": "layout", "lines": lines, "impl": im, "model": mo})
            why = oracle(expected, im)
            if why is not None:
                n_oracle_fail += 1
                rep.failing_input({"stream": "layout", "lines": lines, "expected": expected,
                                   "observed": im, "why": why, "features": sorted(feat)},
                                  classify(feat, lines))
        # ---------------- junk stream (model vs implementation only)
        alpha = ["a", " ", "'", '"', "!", "&", ";", ">", "|", "*", "#", "!!", "!>", "!*", "!|", "x = 1"]
        jcases = []
        for k in range(n_junk):
            jl = ["".join(rng.choice(alpha) for _ in range(rng.randint(0, 7))) for _ in range(rng.randint(1, 5))]
            jcases.append(jl)
        jm = drv.batch([["read", *MARKS, *jl] for jl in jcases])
        for k, (jl, mo) in enumerate(zip(jcases, jm)):
            p = d / f"j{k % 64}.f90"
            p.write_text("".join(l + "\n" for l in jl))
            im = impl_read(ford, p)
            if im[0] == "ok" and any(i.lower().startswith("include ") for i in im[1]):
                continue
            if (im[0], list(im[1])) != (mo[0], list(mo[1:])):
                # junk may put a comment after a continued literal: same known class
                n_bad_corr += 1
                rep.tie_broken(f"correspondence junk: model and implementation differ on {jl!r}",
                               {"stream": "junk", "lines": jl, "impl": im, "model": mo})
    drv.close()
    rep.coverage.update(
        evaluations=ev_micro + len(cases) + len(jcases),
        distinct_nontrivial=len(distinct),
        rule="layout cases are (token sequences x random legal layout); non-trivial = has a continuation break, "
             "a break inside a literal, a ';' separator or an inline doc; distinct by digest of the physical lines",
        samples=samples,
        traces_validated_against_impl=len(cases) + len(jcases) + ev_micro,
        correspondence_disagreements=n_bad_corr + bad_micro,
        oracle_failures=n_oracle_fail,
        layout_feature_histogram=dict(sorted(feats_hist.items())),
    )
    rep.assumptions += [
        "include expansion, preprocessor and text decoding are not modelled",
        "regex engine (CPython re) is on the implementation side only; comScan is its deterministic reading, validated on the micro stream",
    ]
    return rep.finish(lean)
