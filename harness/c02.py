"""C02 - statement and doc extraction depends only on Fortran lexical rules.

Streams
  micro   : `_contains_unterminated_string`, COM_RE / doc-mark regexes, `quote_split`
            against their Lean mirrors on random strings (exact comparison).
  layout  : generated (token sequences, layout) -> file -> `list(FortranReader)`;
            (a) correspondence: equal to the Lean `readAll` on the same lines,
            (b) property oracle: squeeze(items) == squeeze(token sequences), docs exact.
  sweep   : bounded-exhaustive: every literal of <= 2 units over SWEEP_UNITS (incl. `\\`, `!`, `;`, `&`, the other
            quote, a doubled quote), both quote kinds, followed on its line by nothing / a comment / an inline doc /
            `;` + statement / `//` + literal + comment, written on one line and continued inside the literal;
            same two checks as the layout stream.
  junk    : random lines over a small alphabet, model vs implementation incl. error kinds.
  program : generated modules with character literals wherever FORD keeps or interprets statement
            text (initial values, bind names, call arguments, conditions) ->
            (a) the layout stream's checks on a random layout of the program,
            (b) property oracle on `FortranSourceFile`: the entity tree of the random layout equals
                that of the one-statement-per-line layout; it equals the tree of the same program
                with neutral literals once the literals are put back (literal contents are never
                syntax); every initial value / bind name is the source text, literals verbatim.
  program-sweep : bounded-exhaustive array constructors `[L1, ..., Ln]` (n <= 3) over c02prog.SWEEP_LITS
            (placeholder look-alikes `"0"`, `"1"` ... in both quote kinds, `'"0"'`, `""`, `'a,b'`, `"\\"`) as
            initial values, one statement per line: the program stream's checks.

  include : generated main file + include files (statements of the layout stream, an `include 'name'` statement
            first / in the middle / last on its line, after `;`, continued, nested, files without statements, a missing
            `.h` file, names with blanks `;` `!` `&` and a quote of the other kind):
            (a) correspondence: equal to the Lean `Include.readFS` (model of the `pending` queue and `include()`),
            (b) property oracle: the items are those of the program with every include statement replaced by the
                items of the file it names (what INCLUDE means), token for token, docs exact.
  include-sweep : bounded-exhaustive: every line of <= 3 statements over {plain statement, include of a one-statement
            file, of a file with a literal `'a;b ! c'` + doc + second statement, of a file without statements, of a file
            that includes another, of a missing `.h` file} x every choice of `;` / new line between them x
            {nothing, comment, doc comment} behind the last one; the include stream's checks.
  A third of the program cases are *include-split*: a random run of the program's statements is moved to an
  include file (any run: INCLUDE is textual); the entity tree must be that of the unsplit program.

The statement oracle compares *lexical tokens* (c02prog.lex): blanks between tokens are free,
a blank inside a token (a name, number or operator continued with `&` ... `&`) is a difference.
"""
from __future__ import annotations

import contextlib
import itertools
import os
import random
import shutil
import tempfile
from pathlib import Path

from . import common
from .common import Driver, Report, lean_prove
from . import c02prog as PG
from .c02prog import lex, needs_sep, atoms_of, squeeze

PROP = "C02"
MARKS = ("!", ">", "*", "|")

CODE = ["x", "=", "y1", "+", "call f", "(", ")", ",", "print *,", "1.0e0", "if (a) b", "end do", "//", "z%w", ":", "include_", "then",
        "big_number", "123456", "1.5e3", "**", "=>", "==", ".and.", "compute_totals", "total_count", "::", "integer", "/=", "subroutine"]
LITBODY = ["a", " ", "!", ";", "&", "OTHER", "DOUBLED", "!!", "!>", "call g()", "", "  ", "'", "b c", ",", "x,y",
           # characters that other languages (or regex / template engines) treat specially inside a string but
           # that are ordinary characters of a Fortran literal: a backslash is not an escape, ...
           "\\", "\\", "\\\\", "C:\\", "\\n", "%", "#", "$", "{x}", "~", "`", "?", "@", "^", "<b>", "[", "0", "1"]


def lit(q, pieces):
    other = '"' if q == "'" else "'"
    body = "".join(other if p == "OTHER" else q + q if p == "DOUBLED" else (other if p == "'" else p) for p in pieces)
    return ("lit", q + body + q)


def gen_stmt(rng, maxtok=5):
    """A statement as a list of lexical tokens ('code', t) / ('lit', t)."""
    n = rng.randint(1, maxtok)
    toks = []
    for k in range(n):
        if rng.random() < 0.45:
            q = rng.choice("'\"")
            toks.append(lit(q, [rng.choice(LITBODY) for _ in range(rng.randint(0, 4))]))
        else:
            toks.extend(atoms_of(rng.choice(CODE)))
    return toks


COMMENTS = ["! c", "!c 'q", "! it's; &", "!", "!  \"", "!x !! not doc"]
DOCS = ["!! doc", "!! it's a doc; with & and 'q", "!!d2", "!! see \"x"]


def is_inc(toks):
    """token texts of an include statement: the keyword, then a character literal"""
    return len(toks) == 2 and toks[0].lower() == "include" and toks[1][:1] in ("'", '"')


def render(rng, stmts, feat, docs=None, safe=False, seps=None):
    """Render statements (lists of lexical tokens) into physical lines with a random legal
    layout.  Returns (lines, expected) where expected is the list of ('stmt', [token texts]) /
    ('doc', text) in reading order.  `feat` collects layout features.
    `docs` = None: doc comments are placed at random; otherwise docs[i] is the list of doc lines
    that belong to statement i (placed inline or on the following lines) and no others appear.
    `seps` (a list) receives, for every statement, whether a `;` (True) or the end of the line follows it.
    `safe`: do not produce the layouts of the known finding C02-comment-while-literal-continued
    (no comment line inside, and no comment / doc behind, a literal continued across lines), so
    that no failure on this case can be excused by that class.

    Layout rules (Fortran free form): tokens on one line are separated by any number of blanks
    (at least one when the two would otherwise read as one token); a statement is continued by
    a trailing `&` (then optional comment), any number of blank / comment / `&`-only lines, and
    a next line with or without a leading `&`; a *token* (name, number, operator, literal) may
    be continued only in the `&` ... `&` form, the pieces being joined directly."""
    lines = []
    expected = []
    cur = rng.choice(["", "  ", "\t", "    "])
    pending_docs = []
    inlit_open = False  # the current physical line began inside a continued literal

    def interleave(inlit):
        k = rng.choice([0, 0, 0, 1, 2])
        for _ in range(k):
            r = rng.random()
            if r < 0.4:
                lines.append(rng.choice(["", "   "]))
                feat.add("blank-in-cont")
            elif r < 0.8 and not (safe and inlit):
                lines.append(rng.choice(["", "  "]) + rng.choice(COMMENTS))
                feat.add("comment-in-cont-lit" if inlit else "comment-in-cont")
            else:
                lines.append(rng.choice(["&", "  &  "]))
                feat.add("amp-only-line")

    def break_line(inlit, before=""):
        """end the physical line with `&` (+ optional comment) and emit in-between lines"""
        nonlocal cur, inlit_open
        cur += before + "&"
        if not inlit and rng.random() < 0.3 and not (safe and inlit_open):
            cur += rng.choice([" ", ""]) + rng.choice(COMMENTS)
            feat.add("comment-after-amp")
            if inlit_open:
                feat.add("comment-on-lit-closing-line")
        lines.append(cur)
        inlit_open = False
        interleave(inlit)
        cur = rng.choice(["", "  ", "      "])

    def endline(own_docs):
        nonlocal cur
        r = rng.random()
        if safe and inlit_open:
            r = 1.0
        if r < 0.25:
            cur += rng.choice([" ", ""]) + rng.choice(COMMENTS)
            feat.add("trailing-comment")
        elif own_docs is None and r < 0.45:
            d = rng.choice(DOCS)
            cur += rng.choice([" ", ""]) + d
            pending_docs.append(d)
            feat.add("inline-doc")
        elif own_docs and r < 0.6:
            d = own_docs.pop(0)
            cur += rng.choice([" ", ""]) + d
            pending_docs.append(d)
            feat.add("inline-doc")
        lines.append(cur + rng.choice(["", " ", "  "]))
        cur = rng.choice(["", "  ", "\t"])

    def flush_docs():
        for d in pending_docs:
            expected.append(("doc", d))
        pending_docs.clear()

    for si, toks in enumerate(stmts):
        for ti, (kind, t) in enumerate(toks):
            if ti > 0:
                need = needs_sep(toks[ti - 1][1], t)
                if ti == 1 and kind == "lit" and toks[0][1].lower() == "include":
                    # FORD knows an include statement by the keyword followed by a blank (open finding
                    # C02-include-keyword-separator; the other spellings are the business of inc_form_cases)
                    need = True
                r = rng.random()
                if r < 0.5:
                    cur += rng.choice([" ", "  "] if need else ["", " ", "  ", " "])
                else:
                    # continuation break between tokens
                    tb = rng.choice(["", " "])
                    lead = rng.random() < 0.5
                    lb = rng.choice(["", " "]) if lead else ""
                    if lead and need and tb == "" and lb == "":
                        # `a&` / `&b` joins directly: the separating blank must be written
                        if rng.random() < 0.5:
                            tb = " "
                        else:
                            lb = " "
                    break_line(False, tb)
                    if lead:
                        cur += "&" + lb
                        feat.add("leading-amp")
                    else:
                        feat.add("no-leading-amp")
                    feat.add("break")
            if kind == "lit" and len(t) > 2 and rng.random() < 0.3:
                # break inside the literal body (never between the two characters of a doubled quote)
                q = t[0]
                body_idx = []
                i = 1
                while i < len(t) - 1:
                    body_idx.append(i)
                    if t[i] == q and t[i + 1] == q and i + 1 < len(t) - 1:
                        i += 2
                    else:
                        i += 1
                body_idx.append(len(t) - 1)
                pos = rng.choice(body_idx)
                cur += t[:pos]
                break_line(True)
                cur = rng.choice(["", "   "]) + "&" + t[pos:]
                inlit_open = True
                feat.add("break-in-literal")
                if t[:pos].endswith(" "):
                    feat.add("blank-before-amp-in-literal")
            elif kind == "code" and len(t) >= 2 and rng.random() < 0.22:
                # break inside a token: `&` ... `&`, pieces joined directly
                pos = rng.randint(1, len(t) - 1)
                cur += t[:pos]
                break_line(False)
                cur += "&" + t[pos:]
                feat.add("break-in-token")
            else:
                cur += t
        expected.append(("stmt", [t for _, t in toks]))
        own = None if docs is None else list(docs[si])
        # statement separator
        last = si == len(stmts) - 1
        if not last and not own and rng.random() < 0.35:
            cur += rng.choice(["", " "]) + ";" + rng.choice(["", " "])
            feat.add("semicolon")
            if seps is not None:
                seps.append(True)
            continue
        if seps is not None:
            seps.append(False)
        # end of physical line
        before = len(cur)
        had_lit_open = inlit_open
        endline(own)
        if had_lit_open and ("!" in lines[-1][before:]):
            feat.add("comment-on-lit-closing-line")
        inlit_open = False
        flush_docs()
        for d in own or []:
            lines.append(rng.choice(["", "  "]) + d)
            expected.append(("doc", d))
            feat.add("doc-line")
        # lines between statements
        for _ in range(rng.choice([0, 0, 1, 2])):
            r = rng.random()
            if r < 0.4:
                lines.append(rng.choice(["", "  "]))
            elif r < 0.8 or docs is not None:
                lines.append(rng.choice(["", " "]) + rng.choice(COMMENTS))
                feat.add("comment-line")
            else:
                d = rng.choice(DOCS)
                lines.append(rng.choice(["", "  "]) + d)
                expected.append(("doc", d))
                feat.add("doc-line")
    return lines, expected


SWEEP_UNITS = ["a", " ", "!", ";", "&", "OTHER", "DOUBLED", "\\", ",", "0", "%", "#", "$", "=", "(", "{", "~", "@", "?", "\t"]
# (text after the literal on its line, following physical lines, tokens that continue the statement,
#  second statement, doc line)
SWEEP_TAILS = [("", [], [], None, None), (" ! c", [], [], None, None), (" !! d 'q", [], [], None, "!! d 'q"),
               ("; y = 2", [], [], ["y", "=", "2"], None), (" // 'z' ! it's", [], ["//", "'z'"], None, None),
               ("!c", [], [], None, None), ("!!d", [], [], None, "!!d"),
               (" &", ["  // 'z' ! c"], ["//", "'z'"], None, None), (" & ! c", ["! c2", " &// 'z' !! d"], ["//", "'z'"], None, "!! d")]


def sweep_cases(rng, maxunits, with_breaks):
    """Bounded-exhaustive: every character literal of at most `maxunits` units over SWEEP_UNITS, both
    quote kinds, as the last literal of the statement `x = <literal><tail>` for every tail (nothing,
    ordinary comment, inline doc comment, `;` + second statement, `//` + literal + comment, the same
    continued on a following line with comments); with `with_breaks` also the same statement with
    the literal itself continued across two lines at a random position.
    Yields (lines, expected, features)."""
    for q in "'\"":
        other = '"' if q == "'" else "'"
        for n in range(maxunits + 1):
            for units in itertools.product(SWEEP_UNITS, repeat=n):
                us = [other if u == "OTHER" else q + q if u == "DOUBLED" else u for u in units]
                litt = q + "".join(us) + q
                for tail, extra, cont, more, doc in SWEEP_TAILS:
                    exp = [("stmt", ["x", "=", litt] + cont)]
                    if more:
                        exp.append(("stmt", more))
                    if doc:
                        exp.append(("doc", doc))
                    feat0 = {"sweep"} | ({"break"} if extra else set())
                    yield ["x = " + litt + tail] + extra, exp, set(feat0)
                    if with_breaks:
                        pos = rng.randint(0, len(us))
                        feat = feat0 | {"break-in-literal", "leading-amp"}
                        if "!" in tail:
                            feat.add("comment-on-lit-closing-line")
                        yield (["x = " + q + "".join(us[:pos]) + "&", rng.choice(["", "  "]) + "&" + "".join(us[pos:]) + q + tail] + extra,
                               exp, feat)


# ---------------------------------------------------------------------------------------
# include statements
#
# The property's reading of INCLUDE: the statement stands for the statements and doc lines of the
# file it names, wherever it stands in the layout.  FORD keeps the statement (with a warning) when a
# `.h` file cannot be found; that is the expectation for such a name too.

INC_NAMES = ["decls.inc", "a b.inc", "x;y.inc", "it's.inc", 'say"q".inc', "amp&.inc", "bang!.inc", "UPPER.INC",
             "defs.h", "consts.inc", "inc_2.f90", " lead.inc", "p(1).inc", "include .inc"]
MISSING_H = "c02_gone.h"          # never written
INC_FINDING = "C02-include-without-statements"


def inc_stmt(rng, name):
    q = '"' if "'" in name else "'" if '"' in name else rng.choice("'\"")
    return [("code", rng.choice(["include", "include", "INCLUDE", "Include"])), ("lit", q + name + q)]


def inline(expected, file_expected):
    """Replace every include statement of `expected` by the (inlined) items of the file it names."""
    out = []
    for kind, t in expected:
        if kind == "stmt" and is_inc(t) and t[1][1:-1] in file_expected:
            out.extend(inline(file_expected[t[1][1:-1]], file_expected))
        else:
            out.append((kind, t))
    return out


def inc_class(main, file_stmts, file_seps, file_expected):
    """Class of the open finding C02-include-without-statements (decided on the input): in the main file or in a
    file it (transitively) includes, an include statement whose file gives no statement and no doc line stands last
    on its logical line or directly in front of another include statement."""
    seen, todo = set(), [main]
    while todo:
        f = todo.pop()
        if f in seen:
            continue
        seen.add(f)
        stmts, seps = file_stmts[f], file_seps[f]
        for i, t in enumerate(stmts):
            if not (is_inc(t) and t[1][1:-1] in file_stmts):
                continue
            todo.append(t[1][1:-1])
            if inline(file_expected[t[1][1:-1]], file_expected):
                continue
            if i == len(stmts) - 1 or not seps[i] or is_inc(stmts[i + 1]):
                return INC_FINDING
    return None


def gen_inc_case(rng, k):
    """main file + include files, each a random layout of random statements.
    Returns (main lines, expected items, features, files {name: lines}, finding class or None)."""
    feat = {"include"}
    nfiles = rng.choice([1, 1, 2, 2, 3])
    names = rng.sample(INC_NAMES, nfiles)
    allow_empty = k % 6 == 0
    # the cases that may fall into the class of C02-include-without-statements are rendered `safe`, so that no
    # input belongs to the classes of both open findings
    safe = k % 2 == 1 or allow_empty
    stmts = {}
    docs_only = set()
    for i, nm in enumerate(names):
        r = rng.random()
        if allow_empty and r < 0.45:
            stmts[nm] = []
            feat.add("include-file-without-statements")
        elif r < 0.08:
            stmts[nm] = []
            docs_only.add(nm)
        else:
            stmts[nm] = [gen_stmt(rng, 4) for _ in range(rng.randint(1, 3))]
        # nesting: only files later in the list are included (no cycles)
        if i + 1 < nfiles and rng.random() < 0.4:
            stmts[nm].insert(rng.randint(0, len(stmts[nm])), inc_stmt(rng, names[i + 1]))
            feat.add("include-nested")
    main = [gen_stmt(rng, 4) for _ in range(rng.randint(1, 4))]
    targets = [names[0]] + [n for n in names[1:] if rng.random() < 0.5]
    if rng.random() < 0.12:
        targets.append(MISSING_H)
        feat.add("include-missing-h")
    if rng.random() < 0.1:
        targets.append(names[0])          # the same file twice
    for t in targets:
        main.insert(rng.randint(0, len(main)), inc_stmt(rng, t))
    files, file_expected, file_stmts, file_seps = {}, {}, {}, {}
    for nm in ["<main>"] + names:
        st = main if nm == "<main>" else stmts[nm]
        seps = []
        f2 = set()
        if st:
            lines, exp = render(rng, st, f2, safe=safe, seps=seps)
        elif nm in docs_only:
            lines, exp = ["!! a doc line, no statement", "  !! and another"], [("doc", "!! a doc line, no statement"), ("doc", "!! and another")]
        else:
            lines, exp = rng.choice([[], [""], ["! nothing but a comment", ""], ["", "   ! c", "!c 'q"]]), []
        # where the include statements stand
        for i, toks in enumerate(st):
            if is_inc([t for _, t in toks]):
                first = i == 0 or not seps[i - 1]
                lastp = not seps[i]
                feat.add("include-alone-on-line" if first and lastp else "include-first-of-line" if first
                         else "include-last-after-semicolon" if lastp else "include-between-semicolons")
        feat |= f2
        file_expected[nm] = exp
        file_stmts[nm] = [[t for _, t in toks] for toks in st]
        file_seps[nm] = seps
        if nm != "<main>":
            files[nm] = lines
        else:
            main_lines = lines
    expected = inline(file_expected["<main>"], file_expected)
    return main_lines, expected, feat, files, inc_class("<main>", file_stmts, file_seps, file_expected)


INC_SWEEP_FILES = {
    "one.inc": (["y = 2"], [("stmt", ["y", "=", "2"])]),
    "two.inc": (["y = 'a;b ! c'  !! dy", "", "z = 3 ! c"], [("stmt", ["y", "=", "'a;b ! c'"]), ("doc", "!! dy"), ("stmt", ["z", "=", "3"])]),
    "none.inc": (["! nothing but a comment", ""], []),
    "nest.inc": (["w = 4; include 'one.inc'"], [("stmt", ["w", "=", "4"]), ("stmt", ["include", "'one.inc'"])]),
}
INC_SWEEP_ITEMS = [None, "one.inc", "two.inc", "none.inc", "nest.inc", MISSING_H]
INC_SWEEP_TAILS = [("", None), (" ! c", None), (" !! d", "!! d")]


def inc_sweep_cases(maxn):
    """Bounded-exhaustive: every sequence of <= maxn statements over INC_SWEEP_ITEMS (None = a plain statement)
    with at least one include x every choice of `;` / new line between consecutive statements x INC_SWEEP_TAILS."""
    files = {n: ls for n, (ls, _) in INC_SWEEP_FILES.items()}
    file_expected = {n: e for n, (_, e) in INC_SWEEP_FILES.items()}
    fstmts = {n: [t for kind, t in e if kind == "stmt"] for n, e in file_expected.items()}
    fseps = {"one.inc": [False], "two.inc": [False, False], "none.inc": [], "nest.inc": [True, False]}
    for n in range(1, maxn + 1):
        for seq in itertools.product(INC_SWEEP_ITEMS, repeat=n):
            if all(x is None for x in seq):
                continue
            toks = [["v%d" % i, "=", str(i)] if x is None else ["include", "'%s'" % x] for i, x in enumerate(seq)]
            text = ["v%d = %d" % (i, i) if x is None else "%s '%s'" % (("include", "INCLUDE", "Include")[(i + n) % 3], x)
                    for i, x in enumerate(seq)]
            toks = [t if x is None else [text[i].split(" ")[0], t[1]] for i, (x, t) in enumerate(zip(seq, toks))]
            for mask in itertools.product([True, False], repeat=n - 1):
                seps = list(mask) + [False]
                for tail, doc in INC_SWEEP_TAILS:
                    lines, cur = [], ""
                    for i in range(n):
                        cur += text[i]
                        if seps[i]:
                            cur += "; "
                        else:
                            lines.append(cur)
                            cur = ""
                    lines[-1] += tail
                    exp = [("stmt", t) for t in toks] + ([("doc", doc)] if doc else [])
                    file_expected["<main>"] = exp
                    fstmts["<main>"], fseps["<main>"] = toks, seps
                    feat = {"sweep", "include"} | ({"semicolon"} if any(mask) else set())
                    if any(x is not None and i > 0 and seps[i - 1] for i, x in enumerate(seq)):
                        feat.add("include-after-semicolon")
                    yield (lines, inline(exp, file_expected), feat, files,
                           inc_class("<main>", fstmts, fseps, file_expected))


KW_FINDING = "C02-include-keyword-separator"


def kw_class(stmt_texts):
    """Class of the open finding C02-include-keyword-separator (decided on the input): a statement starts with the
    word `include` (any capitalisation) and either the file name follows after a tab / directly (an include line FORD
    does not recognise), or a blank and something that is not a character literal follows (not an include line, taken
    for one)."""
    for t in stmt_texts:
        if t[:7].lower() != "include" or len(t) == 7:
            continue
        r = t[7:]
        is_line = r.lstrip()[:1] in ("'", '"')
        if (is_line and r[0] != " ") or (not is_line and r[0] == " "):
            return KW_FINDING
    return None


INC_WORD_STMTS = [("include = 3", ["include", "=", "3"]), ("include (2) = 'a'", ["include", "(", "2", ")", "=", "'a'"]),
                  ("Include % x = 1", ["Include", "%", "x", "=", "1"]), ("include_ = 3", ["include_", "=", "3"]),
                  ("included = 'f.inc'", ["included", "=", "'f.inc'"]),
                  ("x = 'include ''one.inc'''", ["x", "=", "'include ''one.inc'''"]),
                  ("call include ('one.inc')", ["call", "include", "(", "'one.inc'", ")"])]


def inc_form_cases():
    """Bounded-exhaustive spellings of one include line: keyword capitalisation x what separates keyword and name
    (nothing, a tab, blank + tab, tab + blank, one blank, three blanks) x quote kind x place on the line x comment;
    and statements that merely start with, or contain, the word `include`."""
    files = {"one.inc": ["y = 2"]}
    for kw in ("include", "INCLUDE", "iNcLuDe"):
        for sep in ("", "\t", " \t", "\t ", " ", "   "):
            for q in "'\"":
                st = kw + sep + q + "one.inc" + q
                for pre, post, ptoks, qtoks in (("", "", [], []), ("v0 = 0; ", "", [["v0", "=", "0"]], []),
                                                ("", " ; v1 = 1", [], [["v1", "=", "1"]])):
                    for tail in ("", " ! c"):
                        exp = [("stmt", t) for t in ptoks] + [("stmt", ["y", "=", "2"])] + [("stmt", t) for t in qtoks]
                        feat = {"sweep", "include", "include-form"} | ({"semicolon"} if pre or post else set())
                        if sep[:1] != " ":
                            feat.add("include-keyword-not-followed-by-blank")
                        yield [pre + st + post + tail], exp, feat, files, kw_class([st])
    for st, toks in INC_WORD_STMTS:
        for pre, ptoks in (("", []), ("v0 = 0; ", [["v0", "=", "0"]])):
            yield ([pre + st + " ! c"], [("stmt", t) for t in ptoks] + [("stmt", toks)],
                   {"sweep", "include-form", "include-word-not-a-line"} | ({"semicolon"} if pre else set()), files, kw_class([st]))


def split_program(rng, prog):
    """Move a random run of the program's statements into an include file (INCLUDE is textual: any run
    will do).  Returns (statements of the main file, name, statements of the include file)."""
    n = len(prog.stmts)
    i = rng.randint(0, n - 1)
    j = min(n, i + rng.randint(1, 6))
    name = rng.choice(["part.inc", "a b.inc", "x;y.inc", "it's.inc", "bang!.inc"])
    inc = {"atoms": inc_stmt(rng, name), "docs": []}
    return prog.stmts[:i] + [inc] + prog.stmts[j:], name, prog.stmts[i:j]


@contextlib.contextmanager
def scratch():
    """Scratch directory for the ~40 000 small files of a run.  On this machine creating a file under /tmp costs
    ~2 ms when other checks run in parallel (80 s of a quick run); a memory-backed directory costs 0.03 ms.  TMPDIR,
    when set, is honoured (common.scratch_dir)."""
    shm = Path("/dev/shm")
    if "TMPDIR" not in os.environ and shm.is_dir() and os.access(shm, os.W_OK):
        d = Path(tempfile.mkdtemp(prefix="ford-verif-c02-", dir=shm))
        try:
            yield d
        finally:
            shutil.rmtree(d, ignore_errors=True)
    else:
        with common.scratch_dir() as d:
            yield d


def impl_read(ford, path: Path):
    """list(FortranReader(path)) with errors mapped to the model's enum."""
    from ford.reader import FortranReader

    try:
        with common.quiet():
            return ("ok", list(FortranReader(str(path), *MARKS)))
    except ValueError as e:
        msg = str(e)
        if "Preceding documentation lines" in msg:
            return ("err", ["predoc-inline"])
        if "Alternate documentation" in msg:
            return ("err", ["alt-inline"])
        if "Can not start a new line" in msg:
            return ("err", ["amp-start"])
        return ("err", ["ValueError:" + msg[:60]])
    except RuntimeError as e:
        if "Preceding alternate documentation" in str(e):
            return ("err", ["predoc-alt-inline"])
        return ("err", ["RuntimeError:" + str(e)[:60]])
    except FileNotFoundError as e:
        if "Can not find include file" in str(e):
            return ("err", ["not-found"])
        return ("err", ["FileNotFoundError:" + str(e)[:60]])
    except IndexError as e:
        if "pop from empty list" in str(e):
            return ("err", ["pop-empty"])
        return ("err", ["IndexError:" + str(e)[:60]])
    except Exception as e:  # anything else is a disagreement by construction
        return ("err", [type(e).__name__ + ":" + str(e)[:60]])


def oracle(expected, items):
    """Property oracle: None when the items are what Fortran's lexical rules give: the same
    statements token for token (literals verbatim), the same doc lines."""
    if items[0] != "ok":
        return f"reader raised {items[1]}"
    got = [i for i in items[1] if i != "!!"]  # empty doc lines emitted for blank lines
    exp = []
    for kind, t in expected:
        exp.append("".join(t) if kind == "stmt" else t.rstrip())
    # doc lines keep their text verbatim (trailing blanks are not significant)
    g2 = [g.rstrip() if g.startswith("!!") else squeeze(g) for g in got]
    if g2 != exp:
        for k, (a, b) in enumerate(itertools.zip_longest(exp, g2)):
            if a != b:
                return f"item {k}: expected {a!r} got {b!r}"
    # the non-blank characters agree; now the token boundaries
    for k, ((kind, t), g) in enumerate(zip(expected, got)):
        if kind == "stmt" and lex(g) != t:
            return f"item {k}: expected tokens {t!r} got {lex(g)!r} (statement {g!r})"
    return None


def classify(feat, lines):
    """Known defect classes (see known_findings.json); None = not a known class."""
    if "break-in-literal" in feat and ("comment-in-cont-lit" in feat or "comment-on-lit-closing-line" in feat):
        return "C02-comment-while-literal-continued"
    return None


def micro_streams(ford, drv, rng, n, rep):
    import ford.reader as R
    import ford.utils as U
    import re

    alpha = "a '\"!&;>|*x\\"
    reqs, exp = [], []
    for _ in range(n):
        s = "".join(rng.choice(alpha) for _ in range(rng.randint(0, 12)))
        reqs.append(["unterm", s])
        exp.append(["ok", "1" if R._contains_unterminated_string(s) else "0"])
        mark = rng.choice(["", "!", ">", "*", "|", "!>"])
        rx = R.FortranReader.COM_RE if mark == "" else R._compile_docmark(mark)
        m = rx.match(s)
        reqs.append(["comscan", mark, s])
        # where the comment starts: the comment is the group that closes last (a named or the only capturing group
        # after a harmless rewrite, group 4 as the pattern is written today)
        exp.append(["ok", str(m.start(m.lastindex or 0)) if m else "none"])
        sep = rng.choice(";,")
        reqs.append(["qsplit", sep, s])
        exp.append(["ok"] + U.quote_split(sep, s))
    got = drv.batch(reqs)
    bad = 0
    for r, e, g in zip(reqs, exp, got):
        if e != g:
            bad += 1
            rep.tie_broken(f"correspondence micro/{r[0]}: model {g} vs implementation {e} on {r[1:]!r}",
                           {"stream": "micro", "request": r, "impl": e, "model": g})
    return len(reqs), bad


def parse_tree(path: Path, record=None):
    """('ok', observation of FortranSourceFile(path)) or ('err', text).  With `record` (a list)
    every call of `line_to_variables` is logged as (masked statement, strings, result)."""
    import ford.sourceform as sf
    from ford.settings import ProjectSettings

    orig = sf.line_to_variables

    def wrap(source, line, perm, parent):
        strings = list(parent.strings)
        try:
            vs = orig(source, line, perm, parent)
        except Exception as e:
            record.append((line, strings, ("err", type(e).__name__)))
            raise
        record.append((line, strings, ("ok", [(v.name, v.initial) for v in vs])))
        return vs

    try:
        if hasattr(sf, "NameSelector"):
            sf.namelist = sf.NameSelector()
        if record is not None:
            sf.line_to_variables = wrap
        with common.quiet():
            f = sf.FortranSourceFile(str(path), ProjectSettings())
        return ("ok", PG.observe(f))
    except Exception as e:  # the exception is the observation
        return ("err", f"{type(e).__name__}: {e}"[:300])
    finally:
        sf.line_to_variables = orig


def tree_oracle(d: Path, prog, lines, decl_log):
    """Property oracle on the parser's entity tree.  Returns a list of (relation, why).
    `decl_log` collects (statement text, masked statement, strings, result) of the program's
    declaration statements for the correspondence with the Lean model."""
    out = []
    rec = []
    (d / "pa.f90").write_text("".join(l + "\n" for l in PG.canonical_lines(prog.stmts)))
    (d / "pb.f90").write_text("".join(l + "\n" for l in lines))
    neutral, lits = PG.neutralise(prog.stmts)
    (d / "pn.f90").write_text("".join(l + "\n" for l in PG.canonical_lines(neutral)))
    ta, tb, tn = parse_tree(d / "pa.f90", rec), parse_tree(d / "pb.f90"), parse_tree(d / "pn.f90")
    canon = PG.canonical_lines([dict(st, docs=[]) for st in prog.stmts])
    for masked, strings, res in rec:
        if res[0] == "ok" and res[1] and res[1][0][0] in prog.decls:
            decl_log.append((canon[prog.decls[res[1][0][0]]], masked, strings, res[1]))
    if tn[0] != "ok":
        # the generator's skeleton must be parseable whatever the literals are
        raise common.Infra(f"C02 program generator: neutral program rejected by the parser: {tn[1]}")
    # literal contents are never syntax, literal text is kept verbatim
    if ta[0] != "ok":
        out.append(("literal-contents", f"parser raised {ta[1]} (not with neutral literals)"))
    else:
        why = PG.diff(PG.substitute(tn[1], lits), ta[1])
        if why:
            out.append(("literal-contents", "entity tree is not that of the program with neutral literals, literals put back: " + why))
        vars_ = PG.find_vars(ta[1])
        for key, e in prog.inits.items():
            want = squeeze(" ".join(t for _, t in e))
            if vars_.get(key) != want:
                out.append(("literal-verbatim", f"initial value of {key[1]} in {key[0]}: source {want!r} recorded {vars_.get(key)!r}"))
                break
        binds = PG.find_binds(ta[1])
        for nm, e in prog.binds.items():
            want = squeeze(" ".join(t for _, t in e))
            if binds.get(nm) != want:
                out.append(("literal-verbatim", f"bind text of {nm}: source {want!r} recorded {binds.get(nm)!r}"))
                break
    # the layout never matters
    if ta[0] == "ok":
        if tb[0] != "ok":
            out.append(("layout", f"parser raised {tb[1]} on the re-laid-out program"))
        else:
            why = PG.diff(ta[1], tb[1])
            if why:
                out.append(("layout", "entity tree differs between two layouts: " + why))
    return out


def run(tier: str, seed: int, replay: str | None = None) -> int:
    rep = Report(PROP, tier, seed)
    from translate import c02 as tr

    lean = lean_prove(PROP, translate=tr.translate, thorough=(tier == "thorough"))
    for b in lean.broken():
        rep.tie_broken("proof: " + b)
    ford = common.import_ford()
    rng = random.Random(seed * 7919 + 2)
    drv = Driver()
    n_micro = 4000 if tier == "quick" else 40000
    n_layout = 3000 if tier == "quick" else 40000
    n_junk = 1500 if tier == "quick" else 15000
    n_prog = 300 if tier == "quick" else 4000
    n_inc = 1500 if tier == "quick" else 15000
    ev_micro, bad_micro = micro_streams(ford, drv, rng, n_micro, rep)

    feats_hist: dict[str, int] = {}
    stream_hist: dict[str, int] = {}
    prog_hist = {"programs": 0, "statements": 0, "literals": 0, "literals_with_comma": 0, "initial_values": 0,
                 "bind_names": 0, "trees_compared": 0, "skipped_known_layout": 0}
    distinct = set()
    samples = []
    n_bad_corr = 0
    n_oracle_fail = 0
    cases = []
    decl_log = []
    with scratch() as d:
        # ---------------- layout stream
        for k in range(n_layout):
            nst = rng.randint(1, 3 if k % 5 else 6)
            stmts = [gen_stmt(rng, 5 if k % 7 else 9) for _ in range(nst)]
            feat: set[str] = set()
            lines, expected = render(rng, stmts, feat, safe=(k % 2 == 1))
            cases.append((lines, expected, feat, None, "layout", None, None))
        # ---------------- sweep stream: bounded-exhaustive literals x what follows them on the line
        for lines, expected, feat in sweep_cases(rng, 2 if tier == "quick" else 3, with_breaks=True):
            cases.append((lines, expected, feat, None, "sweep", None, None))
        # ---------------- include streams
        for lines, expected, feat, files, cls in inc_sweep_cases(3 if tier == "quick" else 4):
            cases.append((lines, expected, feat, None, "include-sweep", files, cls))
        for lines, expected, feat, files, cls in inc_form_cases():
            cases.append((lines, expected, feat, None, "include-sweep", files, cls))
        for k in range(n_inc):
            lines, expected, feat, files, cls = gen_inc_case(rng, k)
            cases.append((lines, expected, feat, None, "include", files, cls))
        # ---------------- program stream: the same checks on a random layout of a whole module ...
        for k in range(n_prog):
            prog = PG.gen_program(rng, k)
            feat = set()
            safe = k % 4 != 0
            if k % 3 == 2:
                # include-split: a run of the statements goes to an include file
                mstmts, iname, istmts = split_program(rng, prog)
                ilines, iexp = render(rng, [st["atoms"] for st in istmts], feat, docs=[st["docs"] for st in istmts], safe=safe)
                lines, mexp = render(rng, [st["atoms"] for st in mstmts], feat, docs=[st["docs"] for st in mstmts], safe=safe)
                expected = inline(mexp, {iname: iexp})
                feat |= {"include", "include-split"}
                cases.append((lines, expected, feat, prog, "program", {iname: ilines}, None))
                continue
            lines, expected = render(rng, [st["atoms"] for st in prog.stmts], feat, docs=[st["docs"] for st in prog.stmts],
                                     safe=safe)
            cases.append((lines, expected, feat, prog, "program", None, None))
        # ---------------- declaration sweep: bounded-exhaustive array constructors of literals, one statement per line
        for prog in PG.sweep_programs(3 if tier == "quick" else 4):
            cases.append((PG.canonical_lines(prog.stmts), [("stmt", [t for _, t in st["atoms"]]) for st in prog.stmts],
                          {"sweep"}, prog, "program-sweep", None, None))
        # the bounded-exhaustive cases are the smallest: evaluate (and report) them first
        prio = {"sweep": 0, "include-sweep": 1, "program-sweep": 2, "layout": 3, "include": 4, "program": 5}
        cases.sort(key=lambda c: prio[c[4]])

        def request(lines, files):
            if not files:
                return ["read", *MARKS, *lines]
            r = ["c02.readfs", *MARKS, str(len(files))]
            for nm, ls in files.items():
                r += [nm, str(len(ls)), *ls]
            return r + list(lines)

        reqs = [request(c[0], c[5]) for c in cases]
        model = drv.batch(reqs)
        # ---------------- the iterator protocol: the real reader driven call by call (pass_back, read_docstring);
        # the bounded-exhaustive part first (small inputs), the random part after the other streams
        from . import c02step
        import sys as _sys
        step_stats = c02step.run_streams(ford, drv, rng, tier, rep, d, MARKS, _sys.modules[__name__], "sweep")
        stream_hist.update(step_stats.pop("streams"))
        (d / MISSING_H).unlink(missing_ok=True)
        on_disk = {}
        for k, ((lines, expected, feat, prog, stream, files, inc_cls), mo) in enumerate(zip(cases, model)):
            p = d / f"c{k % 64}.f90"
            p.write_text("".join(l + "\n" for l in lines))
            for nm, ls in (files or {}).items():
                if on_disk.get(nm) != ls:
                    (d / nm).write_text("".join(l + "\n" for l in ls))
                    on_disk[nm] = ls
            im = impl_read(ford, p)
            for f in feat:
                feats_hist[f] = feats_hist.get(f, 0) + 1
            stream_hist[stream] = stream_hist.get(stream, 0) + 1
            key = common.digest(lines)
            if feat & {"break", "break-in-literal", "break-in-token", "semicolon", "inline-doc", "include"}:
                distinct.add(key)
            if len(samples) < 3 and "break-in-literal" in feat and "break-in-token" in feat and prog is None:
                samples.append({"lines": lines, "items": im[1]})
            mo_t = (mo[0], mo[1:])
            case_cls = inc_cls or classify(feat, lines)
            if (im[0], list(im[1])) != (mo_t[0], list(mo_t[1])):
                cls = classify(feat, lines)
                # the model is the repaired reading; a known defect class explains the difference
                if cls is None:
                    n_bad_corr += 1
                    rep.tie_broken(f"correspondence {stream}: model and implementation differ on case {k}",
                                   {"stream": stream, "lines": lines, "impl": im, "model": mo})
            why = oracle(expected, im)
            if why is not None:
                n_oracle_fail += 1
                fcase = {"stream": stream, "lines": lines, "expected": expected,
                         "observed": im, "why": why, "features": sorted(feat)}
                if files:
                    fcase["include_files"] = files
                rep.failing_input(fcase, case_cls)
            if prog is None:
                continue
            # ... and the parser's entity tree
            prog_hist["programs"] += 1
            prog_hist["statements"] += len(prog.stmts)
            lits = [t for st in prog.stmts for kind, t in st["atoms"] if kind == "lit"]
            prog_hist["literals"] += len(lits)
            prog_hist["literals_with_comma"] += sum("," in t for t in lits)
            prog_hist["initial_values"] += len(prog.inits)
            prog_hist["bind_names"] += len(prog.binds)
            if why is not None and case_cls is not None:
                # the statements of this layout are already wrong for a listed reason
                prog_hist["skipped_known_layout"] += 1
                lines_for_tree = PG.canonical_lines(prog.stmts)
            else:
                lines_for_tree = lines
            prog_hist["trees_compared"] += 1
            for rel, twhy in tree_oracle(d, prog, lines_for_tree, decl_log):
                n_oracle_fail += 1
                fcase = {"stream": stream, "relation": rel, "why": twhy,
                         "canonical_lines": PG.canonical_lines(prog.stmts),
                         "lines": lines_for_tree, "features": sorted(feat)}
                if files and lines_for_tree is lines:
                    fcase["include_files"] = files
                rep.failing_input(fcase, classify(feat, lines) if rel == "layout" else None)
        # ---------------- declarations of the programs: masking pass and initial values, model vs implementation
        dreqs, dexp = [], []
        for text, masked, strings, res in decl_log:
            dreqs.append(["c02.cut", text])
            dexp.append(["ok", masked, *strings])
            dreqs.append(["c02.decl", "1" if common.probe_init_eq_join() else "0", text])
            e = ["ok"]
            for nm, ini in res:
                e += [nm, "N" if ini is None else "S" + ini]
            dexp.append(e)
        for r, e, g in zip(dreqs, dexp, drv.batch(dreqs)):
            if e != g:
                n_bad_corr += 1
                rep.tie_broken(f"correspondence {r[0]}: model {g!r} vs implementation {e!r} on {r[-1]!r}",
                               {"stream": "program/" + r[0], "statement": r[-1], "impl": e, "model": g})
        prog_hist["declarations_model_vs_impl"] = len(decl_log)
        # ---------------- junk stream (model vs implementation only)
        alpha = ["a", " ", "'", '"', "!", "&", ";", ">", "|", "*", "#", "!!", "!>", "!*", "!|", "x = 1", "\\"]
        jcases = []
        for k in range(n_junk):
            jl = ["".join(rng.choice(alpha) for _ in range(rng.randint(0, 7))) for _ in range(rng.randint(1, 5))]
            jcases.append(jl)
        jm = drv.batch([["read", *MARKS, *jl] for jl in jcases])
        for k, (jl, mo) in enumerate(zip(jcases, jm)):
            p = d / f"j{k % 64}.f90"
            p.write_text("".join(l + "\n" for l in jl))
            im = impl_read(ford, p)
            if im[0] == "ok" and any(i.lower().startswith("include ") for i in im[1]):
                continue
            if (im[0], list(im[1])) != (mo[0], list(mo[1:])):
                # junk may put a comment after a continued literal: same known class
                n_bad_corr += 1
                rep.tie_broken(f"correspondence junk: model and implementation differ on {jl!r}",
                               {"stream": "junk", "lines": jl, "impl": im, "model": mo})
        # ---------------- the iterator protocol, random part
        st2 = c02step.run_streams(ford, drv, random.Random(seed * 7919 + 6), tier, rep, d, MARKS, _sys.modules[__name__], "random")
        stream_hist.update(st2.pop("streams"))
        for key, val in st2.items():
            step_stats[key] += val
        n_bad_corr += step_stats["disagreements"]
        n_oracle_fail += step_stats["oracle_failures"]
    drv.close()
    rep.coverage.update(
        evaluations=ev_micro + len(cases) + len(jcases) + 3 * prog_hist["trees_compared"] + step_stats["cases"],
        distinct_nontrivial=len(distinct),
        rule="layout cases are (lexical token sequences x random legal layout); non-trivial = has a continuation break "
             "(between tokens, inside a literal or inside a token), a ';' separator or an inline doc; distinct by digest "
             "of the physical lines; program cases are generated modules x random layout, parsed three times "
             "(one statement per line, random layout, neutral literals); sweep cases are bounded-exhaustive: every literal of "
             "<= 2 (thorough: 3) units over SWEEP_UNITS x both quote kinds x every SWEEP_TAILS tail (plain and continued inside the literal), "
             "and every array constructor of <= 3 (thorough: 4) literals over c02prog.SWEEP_LITS as an initial value; include cases are "
             "(main file + include files, random layouts) and, bounded-exhaustive, every line of <= 3 (thorough: 4) statements over "
             "INC_SWEEP_ITEMS x `;`/new line x INC_SWEEP_TAILS; a third of the program cases have a run of statements moved to an include file; "
             "step cases drive the real reader object call by call (next / pass_back / sourceform.read_docstring): bounded-exhaustive, every line "
             "of 2..3 statements over 3 (thorough: 5) of c02step.STEP_ITEMS (thorough also: 4 statements over 3) x `;`/new line x STEP_TAILS x every schedule of one atom "
             "(take / read_docstring+take / take, hand back, take) per statement, and random layouts / include cases x random schedules",
        samples=samples,
        traces_validated_against_impl=len(cases) + len(jcases) + ev_micro + 2 * len(decl_log) + step_stats["cases"],
        iterator_protocol=step_stats,
        correspondence_disagreements=n_bad_corr + bad_micro,
        oracle_failures=n_oracle_fail,
        layout_feature_histogram=dict(sorted(feats_hist.items())),
        program_stream=prog_hist,
        streams=stream_hist,
    )
    rep.assumptions += [
        "include expansion is modelled over a flat file system (every name unique and reachable: the search order over "
        "dirname / inc_dirs, `~` expansion and path normalisation are not modelled); preprocessor and text decoding are not modelled",
        "in the random include stream an include statement is the keyword (any capitalisation), at least one blank, and the file "
        "name between quotes of one kind; the spellings without a blank (`include'f'`, a tab) are covered by the bounded "
        "`inc_form_cases` only (open finding C02-include-keyword-separator)",
        "regex engine (CPython re) is on the implementation side only; comScan is its deterministic reading, validated on the micro stream",
        "the statement oracle's tokenizer (c02prog.lex) is the harness's reading of Fortran's free-form lexical rules: "
        "literals, runs of [A-Za-z0-9_.], the two-character operators, single characters",
    ]
    return rep.finish(lean)
