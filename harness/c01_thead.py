"""C01, streams `typere`, `typestmt`, `typeq`: the statement that opens a derived type definition.

typere   (correspondence) random statements - type definitions in both spellings (`type name`, `type [, attrs] :: name`,
         with and without a parameter list), SELECT TYPE guards (`type is (..)`, `class is (..)`), declarations
         (`type(t) :: x`), 1-2 point mutations of all of these and junk; identifiers from a pool that is dense in names
         beginning with (or equal to) keywords - against the real `FortranContainer.TYPE_RE.match`: the three groups (or
         no match) must equal `c01.typere` (FordModel/TypeHead.lean `typeRe`) EXACTLY.
typestmt (correspondence) the same statements inside `module m / [private] / <stmt> / end type / end module`, parsed by the
         real FortranSourceFile: the derived type FORD records (name, extends, attribs, permission, parameters) - or
         the fact that it records none - must equal `c01.typestmt` (`typeRe` + `typeInit`, i.e. TYPE_RE, the branch of
         the cascade, FortranType._initialize, SPLIT_RE, EXTENDS_RE).
typeq    (property oracle, independent of the model) abstract derived types (name, EXTENDS, ABSTRACT / BIND(C), components)
         whose names mostly begin with a keyword, each written in two independently chosen spellings (keyword case,
         blanks, `type name` / `type :: name`, attribute order, END spelling) in a module, program or procedure: FORD
         must report exactly the declared types with the declared components in both.
"""
from __future__ import annotations

import random
import re

from . import common, progen

WS = ["", "", " ", " ", "  ", "\t", " \t "]
WS1 = [" ", " ", "  ", "\t", " \t"]
NAME_POOL = ["is", "IS", "Is", "is_", "is_t", "is1", "isotope", "Island", "IS_STABLE", "iso_date", "in", "inx", "type", "types",
             "typed", "TYPE_T", "end", "endtype", "end_type", "class", "class_id", "default", "default_t", "extends",
             "extends_t", "abstract", "public", "private_t", "bind", "bind_c", "function", "function_t", "procedure",
             "contains", "sequence", "integer8", "real_t", "t", "a", "vec3", "node_t", "_x", "x_", "my_type", "T1", "i", "s"]
ATTR_POOL = ["abstract", "ABSTRACT", "public", "PRIVATE", "private", "Public", "bind(c)", "BIND (C)", "bind( c )", "external",
             "EXTERNAL", "extends(base)", "EXTENDS ( base_t )", "Extends(is_t)", "extends( isotope)", "extends (a) ", "extends()",
             "extends(a b)", "extends((a))", "xextends(q)y", "sequence", "is", "type", "a b", "", " ", "bind(c, name=x)"]
# keyword-like words of the working tree's ford/sourceform.py (translate/c01.py `vocabulary`), set by harness/c01.py: now and
# then an attribute is one of them, so that a word the code starts (or stops) to treat specially is met
VOCAB: list = []


def pick_attr(rng):
    if VOCAB and rng.random() < 0.15:
        w = rng.choice(VOCAB)
        return w.upper() if rng.random() < 0.3 else w
    return rng.choice(ATTR_POOL)


PARAM_POOL = ["(k)", "( k )", "(k, n)", "( k ,n )", "()", "(kind_a,len_b)", "(is)"]
GUARD_SPEC = ["integer", "real(8)", "t", "isotope", "character(len=*)", "character(*)", " point_t ", "is", ""]
ALPHABET = list(" \t,:()abist_eyp01")


def gen_name(rng):
    r = rng.random()
    if r < 0.6:
        return rng.choice(NAME_POOL)
    if r < 0.8:
        kw = rng.choice(progen.KEYWORDS)
        kw = kw.upper() if rng.random() < 0.25 else kw
        return kw + rng.choice(["", "", "_", "s", "_t", "1", "x", "otope"])
    return "".join(rng.choice("abist_xyz019ISTE") for _ in range(rng.randrange(1, 7)))


def gen_kw(rng, w):
    r = rng.random()
    if r < 0.5:
        return w
    if r < 0.7:
        return w.upper()
    if r < 0.8:
        return w.capitalize()
    return "".join(c.upper() if rng.random() < 0.5 else c for c in w)


def gen_stmt(rng):
    """(kind, statement)"""
    r = rng.random()
    if r < 0.22:
        kind = "plain"
        s = gen_kw(rng, "type") + rng.choice(WS1) + gen_name(rng) + rng.choice(WS)
        if rng.random() < 0.3:
            s += rng.choice(PARAM_POOL) + rng.choice(WS)
    elif r < 0.5:
        kind = "colons"
        s = gen_kw(rng, "type") + rng.choice(WS)
        for _ in range(rng.choice([0, 0, 1, 1, 2, 3])):
            s += "," + rng.choice(WS) + pick_attr(rng) + rng.choice(WS)
        s += "::" + rng.choice(WS) + gen_name(rng) + rng.choice(WS)
        if rng.random() < 0.25:
            s += rng.choice(PARAM_POOL) + rng.choice(WS)
        if rng.random() < 0.08:
            s += rng.choice(["::", ":: ", " :: "]) + gen_name(rng)
    elif r < 0.62:
        kind = "guard"
        s = gen_kw(rng, rng.choice(["type", "type", "class"])) + rng.choice(WS1 + [""]) + gen_kw(rng, rng.choice(["is", "is", "default"])) \
            + rng.choice(WS) + "(" + rng.choice(GUARD_SPEC) + ")" + rng.choice(WS)
        if rng.random() < 0.15:
            s += gen_name(rng)
    elif r < 0.72:
        kind = "decl"
        s = gen_kw(rng, "type") + rng.choice(WS) + "(" + rng.choice(WS) + gen_name(rng) + rng.choice(WS) + ")" \
            + rng.choice([" :: ", "::", ", pointer :: ", " ", ", intent(in) ::"]) + gen_name(rng)
    elif r < 0.92:
        kind, s = gen_stmt(rng)
        kind = "mutated"
        for _ in range(rng.choice([1, 1, 2])):
            pos = rng.randrange(len(s) + 1)
            m = rng.random()
            if m < 0.4:
                s = s[:pos] + rng.choice(ALPHABET) + s[pos:]
            elif m < 0.75 and s:
                pos = min(pos, len(s) - 1)
                s = s[:pos] + s[pos + 1:]
            elif s:
                pos = min(pos, len(s) - 1)
                s = s[:pos] + rng.choice(ALPHABET) + s[pos + 1:]
    else:
        kind = "junk"
        s = rng.choice(["type", "type", "TYPE", "typ", ""]) + "".join(rng.choice(ALPHABET) for _ in range(rng.randrange(0, 12)))
    return kind, s


def opt(x):
    return "-" if x is None else "+" + x


# ------------------------------------------------------------------ stream typere

def run_typere(drv, ford, rng, n, rep, distinct=None):
    from ford.sourceform import FortranContainer

    st = {"cases": 0, "disagree": 0, "unmodelled": 0, "kinds": {}, "matched": 0, "name_starts_with_is": 0, "guards_rejected": 0}
    cases = [gen_stmt(rng) for _ in range(n)]
    answers = drv.batch([["c01.typere", s] for _, s in cases])
    for (kind, s), m in zip(cases, answers):
        st["cases"] += 1
        st["kinds"][kind] = st["kinds"].get(kind, 0) + 1
        if distinct is not None:
            distinct.add(common.digest(["typere", s]))
        if m[0] == "unmodelled":
            st["unmodelled"] += 1
            continue
        mt = FortranContainer.TYPE_RE.match(s)
        im = ["none"] if mt is None else ["some", opt(mt.group(1)), mt.group(2), opt(mt.group(3))]
        if mt is not None:
            st["matched"] += 1
            st["name_starts_with_is"] += mt.group(2).lower().startswith("is")
        elif kind == "guard":
            st["guards_rejected"] += 1
        if list(m) != im:
            st["disagree"] += 1
            rep.tie_broken("correspondence typere: FortranContainer.TYPE_RE and the Lean model TypeHead.typeRe differ on %r" % s,
                           {"stream": "typere", "statement": s, "impl": im, "model": list(m)})
    return st


# ------------------------------------------------------------------ stream varre

DECL_KW = ["integer", "real", "double precision", "doubleprecision", "double  precision", "character", "complex", "double complex",
           "doublecomplex", "logical", "type", "class", "procedure", "enumerator", "double", "types", "classes", "inte"]
DECL_AFTER = ["(8)", "(kind=8)", "*8", " (t)", "(t)", "( is_t )", "(is)", "(*)", "(len=*)", "", "", "", " is", " IS (t)", " is(integer)", " default",
              "  Default", " is_x", " isotope", " default_t", "is", "default", "\tis (t)", ",is", " , is"]
DECL_REST = [" :: x", "::x", " x", "  x", ", pointer :: p", ",save::is", " is", " x(3)", "*4 l", " :: a = 1", "", " ", ":", ",", "x", " (", " =1", "\t x"]


def gen_decl_stmt(rng):
    r = rng.random()
    if r < 0.55:
        return "decl", gen_kw(rng, rng.choice(DECL_KW)) + rng.choice(DECL_AFTER).replace("\\t", "\t") + rng.choice(DECL_REST).replace("\\t", "\t")
    if r < 0.75:
        kind, s = gen_decl_stmt(rng)
        for _ in range(rng.choice([1, 1, 2])):
            pos = rng.randrange(len(s) + 1)
            if rng.random() < 0.5:
                s = s[:pos] + rng.choice(ALPHABET + list("dfltu")) + s[pos:]
            elif s:
                pos = min(pos, len(s) - 1)
                s = s[:pos] + s[pos + 1:]
        return "mutated", s
    return gen_stmt(rng)


def run_varre(drv, ford, rng, n, rep, d, distinct=None):
    from ford.settings import ProjectSettings
    from ford.sourceform import FortranSourceFile

    p = d / "varre.f90"
    p.write_text("module m\nend module m\n")
    with common.quiet():
        variable_re = FortranSourceFile(str(p), ProjectSettings()).VARIABLE_RE
    st = {"cases": 0, "disagree": 0, "unmodelled": 0, "kinds": {}, "matched": 0, "guards_rejected": 0}
    cases = [gen_decl_stmt(rng) for _ in range(n)]
    answers = drv.batch([["c01.varre", s] for _, s in cases])
    for (kind, s), m in zip(cases, answers):
        st["cases"] += 1
        st["kinds"][kind] = st["kinds"].get(kind, 0) + 1
        if distinct is not None:
            distinct.add(common.digest(["varre", s]))
        if m[0] == "unmodelled":
            st["unmodelled"] += 1
            continue
        mt = variable_re.match(s)
        im = ["none"] if mt is None else ["some", mt.group(1), mt.group(2)]
        st["matched"] += mt is not None
        st["guards_rejected"] += mt is None and bool(re.match(r"(?i)(type|class)\s+(is|default)", s))
        if list(m) != im:
            st["disagree"] += 1
            rep.tie_broken("correspondence varre: VARIABLE_RE and the Lean model TypeHead.varRe differ on %r" % s,
                           {"stream": "varre", "statement": s, "impl": im, "model": list(m)})
    return st


# ------------------------------------------------------------------ stream typestmt

def impl_typestmt(ford, path, stmt, private):
    from ford.settings import ProjectSettings
    from ford.sourceform import FortranSourceFile

    path.write_text("module m\n" + ("private\n" if private else "") + stmt + "\nend type\nend module\n")
    try:
        with common.quiet():
            f = FortranSourceFile(str(path), ProjectSettings())
    except Exception as e:  # noqa
        return ["exc", type(e).__name__]
    types = [t for m in f.modules for t in m.types]
    other = [t for c in list(f.modules) + list(f.subroutines) + list(f.functions) + list(f.programs) for t in getattr(c, "types", [])]
    if len(types) != len(other) or len(f.modules) != 1:
        return ["exc", "structure"]
    if not types:
        return ["none"]
    if len(types) > 1:
        return ["many", str(len(types))]
    t = types[0]
    ext = t.extends if (t.extends is None or isinstance(t.extends, str)) else getattr(t.extends, "name", str(t.extends))
    return ["some", t.name, opt(ext), t.permission, str(len(t.attribs))] + list(t.attribs) + [str(p) for p in t.parameters]


def observable(s):
    """the reader hands the statement over unchanged: one line, no comment / continuation / literal / separator"""
    if s != s.strip() or not s or any(c in s for c in ";!&'\"#\n"):
        return False
    low = s.lower()
    # statements an earlier branch of the cascade may take (outside this model)
    return not any(w in low for w in ("function", "subroutine", "namelist", "procedure", "block", "associate", "format"))


def run_typestmt(drv, ford, rng, n, rep, d, distinct=None):
    st = {"cases": 0, "disagree": 0, "unmodelled": 0, "not_observable": 0, "kinds": {}, "types_recorded": 0, "with_extends": 0,
          "with_permission_attr": 0, "with_parameters": 0}
    cases = []
    for _ in range(n):
        kind, s = gen_stmt(rng)
        s = s.strip()
        if not observable(s):
            st["not_observable"] += 1
            continue
        cases.append((kind, s, rng.random() < 0.4))
    answers = drv.batch([["c01.typestmt", "private" if pr else "public", s] for _, s, pr in cases])
    for k, ((kind, s, pr), m) in enumerate(zip(cases, answers)):
        st["cases"] += 1
        st["kinds"][kind] = st["kinds"].get(kind, 0) + 1
        if distinct is not None:
            distinct.add(common.digest(["typestmt", s, pr]))
        if m[0] == "unmodelled":
            st["unmodelled"] += 1
            continue
        im = impl_typestmt(ford, d / ("th%d.f90" % (k % 16)), s, pr)
        if im[0] == "exc" and m[0] == "none":
            # not a type definition: the statement belongs to another branch (and `end type` then closes the module)
            continue
        if im[0] == "some":
            st["types_recorded"] += 1
            st["with_extends"] += im[2] != "-"
            st["with_permission_attr"] += bool(re.search(r"(?i),\s*(public|private)\s*(,|::)", s))
            st["with_parameters"] += len(im) > 5 + int(im[4])
        if list(m) != im:
            st["disagree"] += 1
            rep.tie_broken("correspondence typestmt: the derived type FORD records for %r differs from the Lean model "
                           "TypeHead.typeStmt" % s, {"stream": "typestmt", "statement": s, "private_module": pr, "impl": im, "model": list(m)})
    return st


# ------------------------------------------------------------------ stream typeq (property oracle)

def gen_typeq(rng):
    nm = progen.Namer(rng, kwish=0.85)
    types, visible = [], []
    for _ in range(rng.choice([1, 2, 2, 3])):
        t = progen.gen_type(rng, nm, list(visible), [], [])
        types.append(t)
        visible.append(t["name"])
    host = rng.choice(["module", "module", "program", "subroutine", "function"])
    return {"host": host, "name": nm.fresh("m" if host == "module" else "p"), "types": types}


def render_typeq(case, rng):
    S = progen.Spell(rng)
    out = progen.Out(S)
    host, name = case["host"], case["name"]
    out.add(S.kw(host) + " " + S.ident(name) + ("()" if host == "function" else ""))
    out.ind += 2
    if rng.random() < 0.5 and host != "function":
        out.add(S.kw("implicit") + " " + S.kw("none"))
    for t in case["types"]:
        progen.render_type(S, out, t)
    out.ind -= 2
    out.add(progen.end_stmt(S, host, name))
    return "\n".join(out.lines) + "\n"


def obs_typeq(f, host):
    cont = {"module": f.modules, "program": f.programs, "subroutine": f.subroutines, "function": f.functions}[host]
    everything = list(f.modules) + list(f.programs) + list(f.subroutines) + list(f.functions) + list(f.submodules) + list(f.blockdata)
    if len(cont) != 1 or len(everything) != 1:
        return None
    c = cont[0]
    return {"name": c.name.lower(), "types": sorted((progen.obs_type(t) for t in c.types), key=lambda x: x["name"]),
            "variables": [v.name.lower() for v in c.variables if not (host == "function" and v.name.lower() == c.name.lower())]}


def run_typeq(ford, rng, n, rep, d, distinct=None):
    from ford.settings import ProjectSettings
    from ford.sourceform import FortranSourceFile

    st = {"cases": 0, "spellings": 0, "oracle_fail": 0, "type_names_starting_with_keyword": 0, "type_names_starting_with_is": 0,
          "heads_without_colons": 0, "hosts": {}}
    for k in range(n):
        crng = random.Random(rng.getrandbits(48))
        case = gen_typeq(crng)
        st["cases"] += 1
        st["hosts"][case["host"]] = st["hosts"].get(case["host"], 0) + 1
        for t in case["types"]:
            st["type_names_starting_with_keyword"] += any(t["name"].startswith(w) for w in progen.KEYWORDS)
            st["type_names_starting_with_is"] += t["name"].startswith("is")
        exp = {"name": case["name"].lower(), "types": sorted((progen.canon_type(t) for t in case["types"]), key=lambda x: x["name"]),
               "variables": []}
        for sp in range(2):
            text = render_typeq(case, crng)
            st["spellings"] += 1
            st["heads_without_colons"] += len(re.findall(r"(?im)^\s*type\s+\w+\s*$", text))
            if distinct is not None:
                distinct.add(common.digest(["typeq", text]))
            p = d / ("tq%d.f90" % (k % 16))
            p.write_text(text)
            from harness import c01
            feats = c01.file_features(text)
            why, verdicts = None, []
            try:
                with common.quiet() as buf:
                    f = FortranSourceFile(str(p), ProjectSettings())
                obs = obs_typeq(f, case["host"])
                if obs is None:
                    why = "the file does not consist of exactly the declared %s" % case["host"]
                else:
                    verdicts = c01.judge(exp, obs, feats, text)
                if why is None and not verdicts and "ERROR in file" in buf.getvalue():
                    why = "diagnostic on valid input: " + buf.getvalue().strip().splitlines()[0][:120]
            except Exception as e:  # noqa
                why = "FORD failed on valid input: %s: %s" % (type(e).__name__, str(e)[:100])
            if why is not None:
                verdicts = [(why, c01.classify(why, feats, text))]
            for why, fid in verdicts:
                st["oracle_fail"] += 1
                rep.failing_input({"stream": "typeq", "case": k, "spelling": sp, "why": why, "features": sorted(feats), "text": text}, fid)
    return st
