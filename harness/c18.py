"""C18 - rendered declarations say what the source says, and stay inert text.

Streams
  micro : unit-level exact comparison model vs real code:
            escape        Jinja `|e` in FORD's own environment (and plain `{{ v }}`: autoescape)
            html          the model tokenizer vs Python's html.parser (what BeautifulSoup uses)
            nbsp / comma  NBSP_RE / COMMA_RE substitutions
            tmpl          `QUOTES_RE.sub(template, '"0"')` with and without backslash doubling
            search        `QUOTES_RE.search`
            kind          `parse_type("integer(<args>) :: x")`
            ftype / fdecl `FortranVariable.full_type` / `.full_declaration`
  decl  : generated declaration statements (literals over the HTML/Markdown/regex-significant
          alphabet in both letter cases, keywords and names in any spelling, also unbalanced
          junk) parsed by the real `FortranSourceFile`, every second chunk as a project with
          `lower: true`; a recorder around `line_to_variables` observes the masked line,
          `parent.strings` and the variables; compared with the model's `prepLine` / `declVarsOpt`.
  cleanup : generated modules / subroutines / functions with type declarations and attribute statements of
          every kind (`intent(in) :: a`, `dimension a(n, *)`, `optional a`, `value`, `target`, `allocatable :: x(:)`,
          `private`, `parameter (p = 1)`, `external`; several names per statement, names spelled differently at
          each occurrence, undeclared names, dummy procedures with an interface block) parsed by the real
          `FortranSourceFile`; the state of each unit before and after its `_cleanup` (variables, argument list,
          result, attr_dict) is read off the real objects and compared with the model `runCleanup` run with the
          step order that translate/c18.py regenerates from `_cleanup` of FortranCodeUnit / FortranProcedure /
          FortranFunction.
  e2e   : whole projects through `ford.main` (mixed-case sources; part of the attributes of module variables,
          locals, dummy arguments and function results given by separate attribute statements before or after
          the type declaration; functions with / without RESULT clause, typed in the FUNCTION statement or in
          the body; a dummy procedure described by an interface block; the project option `lower`
          drawn per project; type declarations, BIND and PARAMETER statements); every page that
          shows declarations is compared with the page of the *neutral twin* project (every hot
          source text replaced by a harmless placeholder): property oracle = text equals the
          twin's text with the placeholders replaced by the source texts (NBSP read as blank; with
          `lower` code lower-cased and literals as written), tag skeleton equal; the twin's rows
          must say what the declarations say (letter case of code ignored, of literals not), and
          every generated module must be displayed at all.
"""
from __future__ import annotations

import difflib
import html.parser
import random
import re
import shutil
from pathlib import Path

from . import common, e2e
from .common import Driver, Report, lean_prove

PROP = "C18"
NBSP = "\xa0"

# --------------------------------------------------------------------------
# generators
# --------------------------------------------------------------------------

LIT_PIECES = [
    "<", ">", "&", '"', "'", "\\", " ", "  ", "   ", "*", "_", "[", "]", "|",
    "a", "b", "x1", "<b>", "</td>", "<i>", "&amp;", "&lt;", "&#39;", "\\n", "\\d", "\\1", "\\g<0>",
    "\\\\", "!", ";", ",", "=", "(", ")", "::", '"1"', "0", "**b**", "_e_", "[[m0]]", "a|b", "</", "<!--",
    # letter case is part of a literal (format strings, C names, messages)
    "A", "Bc", "X1", "<B>", "</TD>", "&AMP;", "&Lt;", "\\N", "\\D", "ES12.4E3", "Kpa",
]
PLAIN_PIECES = ["a", "b", "x1", " ", "_", "0", "*", "|", "A", "Bc", "X1"]


def recase(rng, s: str) -> str:
    """one of the spellings a Fortran programmer uses for a keyword / name: as is, UPPER, Capitalised"""
    r = rng.random()
    if r < 0.55:
        return s
    if r < 0.8:
        return s.upper()
    return s[:1].upper() + s[1:]


def lowercode(s: str) -> str:
    """the documented meaning of the option `lower`: code lower-cased, character literals as written"""
    out, q = [], None
    for c in s:
        if q is None:
            if c in "'\"":
                q = c
            out.append(c.lower())
        else:
            out.append(c)
            if c == q:
                q = None
    return "".join(out)


def gen_literal(rng, hot=True, maxp=5):
    q = rng.choice("'\"")
    pcs = LIT_PIECES if hot else PLAIN_PIECES
    body = "".join(rng.choice(pcs) for _ in range(rng.randint(0, maxp)))
    return q + body.replace(q, q + q) + q


def squeeze(s: str, fold: bool = False) -> str:
    """remove blanks outside character literals (quote-aware), NBSP read as blank;
    fold: also ignore letter case outside literals (Fortran code is case-insensitive, literals are not)"""
    out, q = [], None
    for c in s.replace(NBSP, " "):
        if q is None:
            if c in "'\"":
                q = c
                out.append(c)
            elif c in " \t\n\r":
                continue
            else:
                out.append(c.lower() if fold else c)
        else:
            out.append(c)
            if c == q:
                q = None
    return "".join(out)


def split_top(s: str, sep: str = ",") -> list[str]:
    """split at `sep` outside parentheses / brackets and outside character literals"""
    out, cur, lvl, q, i = [], [], 0, None, 0
    while i < len(s):
        c = s[i]
        if q:
            if c == q:
                q = None
        elif c in "'\"":
            q = c
        elif c in "([":
            lvl += 1
        elif c in ")]":
            lvl -= 1
        elif lvl == 0 and s.startswith(sep, i):
            out.append("".join(cur))
            cur = []
            i += len(sep)
            continue
        cur.append(c)
        i += 1
    out.append("".join(cur))
    return out


def canon_row(text: str):
    """order-free reading of a squeezed declaration row (`type,attr,...::name(dims)=init`) or result heading
    (`returnvaluetype,attr,...`): (type, sorted attributes, entity).  Used where the attributes of an entity come
    from several statements, so that no single source statement gives their order.  The shape may be said as
    `dimension(X)`, as `allocatable(X)` / `pointer(X)` (the ALLOCATABLE / POINTER statement) or behind the name."""
    sides = split_top(text, "::")
    lhs, rhs = sides[0], ("::".join(sides[1:]) if len(sides) > 1 else None)
    parts = split_top(lhs)
    head, attrs, dims = parts[0], [], []
    for a in parts[1:]:
        m = re.fullmatch(r"(dimension|allocatable|pointer)(\(.*\))", a, re.S)
        if m:
            dims.append(m.group(2))
            if m.group(1) != "dimension":
                attrs.append(m.group(1))
        elif re.fullmatch(r"\(.*\)", a, re.S):
            dims.append(a)  # full_declaration of a result lists the shape as a part of its own
        else:
            attrs.append(a)
    if rhs is not None:
        m = re.match(r"\w+", rhs)
        name, rest = (m.group(), rhs[m.end():]) if m else ("", rhs)
        if rest.startswith("("):
            d = split_top(rest, "=")[0]
            dims.append(d)
            rest = rest[len(d):]
        rhs = name + "|" + rest
    return head, tuple(sorted(attrs)), tuple(sorted(dims)), rhs


# --------------------------------------------------------------------------
# micro streams
# --------------------------------------------------------------------------

class _Events(html.parser.HTMLParser):
    def __init__(self):
        super().__init__(convert_charrefs=True)
        self.text = []
        self.tags = []

    def handle_starttag(self, tag, attrs):
        self.tags.append("+" + tag)

    def handle_endtag(self, tag):
        self.tags.append("/" + tag)

    def handle_data(self, data):
        self.text.append(data)


def impl_html(s):
    p = _Events()
    p.feed(s)
    p.close()
    return ["ok", "".join(p.text)] + p.tags


HTML_TOKENS = [
    "a", "b", "1", " ", ";", "#", "=", "/", '"', "'", "amp;", "lt", "x y",
    "&amp;", "&lt;", "&gt;", "&#39;", "&#34;", "& ", "&;", "< ", "<1 ", "<= ", "<< ", "< b",
    "<td>", "</td>", "<b>", "</b>", '<td class="x">', "<span id='a\"b'>", '<a href="x>y">', "</a>", "<i >", "</i >",
    "<TD>", "<tr\n>", "</tr>", "<strong>", "</strong>", "<br>", "<a b=c>",
]


def gen_html(rng):
    parts = []
    for _ in range(rng.randint(0, 8)):
        r = rng.random()
        if r < 0.25:
            parts.append(markup_escape("".join(rng.choice(LIT_PIECES) for _ in range(rng.randint(0, 4)))))
        else:
            parts.append(rng.choice(HTML_TOKENS))
    return "".join(parts)


def markup_escape(s):
    import markupsafe

    return str(markupsafe.escape(s))


def micro_streams(ford, drv, rng, n, rep, auto):
    import ford.output as fo
    import ford.sourceform as sf

    t_e = fo.env.from_string("{{ v|e }}")
    t_plain = fo.env.from_string("{{ v }}")
    reqs, exp, skip_if = [], [], []

    def add(req, e, unsupported_ok=False):
        reqs.append(req)
        exp.append(e)
        skip_if.append(unsupported_ok)

    var = object.__new__(sf.FortranVariable)
    for k in range(n):
        s = "".join(rng.choice(LIT_PIECES) for _ in range(rng.randint(0, 6)))
        add(["c18.escape", s], ["ok", t_e.render(v=s)])
        if k % 8 == 0:
            # the environment itself (re-check of the translator's `autoescape`): a bare {{ v }}
            plain = t_plain.render(v=s)
            if plain != (markup_escape(s) if auto else s):
                rep.tie_broken(f"translator: autoescape={auto} but the environment renders {{{{ v }}}} of {s!r} as {plain!r}")
        h = gen_html(rng)
        add(["c18.html", h], impl_html(h))
        add(["c18.nbsp", s], ["ok", sf.NBSP_RE.sub(NBSP, s)])
        c = "".join(rng.choice([",", ", ", "a", " ", ",,", "(", "1", ",\t"]) for _ in range(rng.randint(0, 6)))
        add(["c18.comma", c], ["ok", sf.COMMA_RE.sub(", ", c)])
        t = "".join(rng.choice(["\\", "\\\\", "n", "d", "a", "t", " ", "'", "<", "1", "g<0>", "x", "\\n", '"', "0"])
                    for _ in range(rng.randint(0, 6)))
        dbl = rng.random() < 0.5
        try:
            r = ["ok", sf.QUOTES_RE.sub(t.replace("\\", "\\\\") if dbl else t, '"0"', count=1)]
        except re.error as e:
            r = ["err", "bad-escape" if "bad escape" in str(e) else "unsupported"]
        except IndexError:
            r = ["err", "unsupported"]
        add(["c18.tmpl", "1" if dbl else "0", t], r, unsupported_ok=True)
        qs = "".join(rng.choice(["'", '"', "a", " ", "''", '""', "0", "1", "x'y"]) for _ in range(rng.randint(0, 8)))
        m = sf.QUOTES_RE.search(qs)
        add(["c18.search", qs], ["ok", str(m.start()), str(m.end() - m.start())] if m else ["ok", "none"])
        # kind
        args = rng.choice(["kind=", "KIND =", "Kind= ", "", "k="]) + rng.choice(
            ["4", "dp", "selected_real_kind(6,37)", "merge(4,8,c)", "kind(1.0d0)", "int32", "c_int", "a<b", "(k)", "max(i4, i8)"])
        try:
            with common.quiet():
                pk = sf.parse_type(f"integer({args}) :: x", [], ()).kind
            add(["c18.kind", re.sub(r"\s", "", args)], ["ok", pk if pk is not None else ""])
        except Exception:
            pass
        # full_type / full_declaration
        vt = rng.choice(["integer", "real", "character", "type", "logical"])
        kind = rng.choice(["", "", "4", "dp", "merge(4", "a<b"])
        strlen = rng.choice(["", "", "*", "10", ":", "n"]) if vt == "character" else ""
        proto = rng.choice([None, ["tt", ""], ["tt", "k=3"]]) if vt == "type" else None
        attribs = rng.sample(["allocatable", "target", "dimension(2, 3)", "pointer", "dimension(n<m)", "save"], rng.randint(0, 3))
        dim = rng.choice(["", "", "(2,3)", "(:)", "*8", "(n<m)"])
        par = rng.random() < 0.3
        var.vartype, var.kind, var.strlen, var.proto = vt, kind or None, strlen or None, proto
        var.attribs, var.dimension, var.parameter = attribs, dim, par
        ft = var.full_type
        before = list(attribs)
        fd1, fd2 = var.full_declaration, var.full_declaration
        if fd1 != fd2 or attribs != before:
            rep.tie_broken(f"full_declaration is not a pure function of the variable: {fd1!r} then {fd2!r}, attribs {before!r} -> {attribs!r}",
                           {"stream": "micro", "attribs": before, "dimension": dim, "first": fd1, "second": fd2})
            attribs = before
            var.attribs = attribs
        add(["c18.ftype", vt, kind, strlen, proto[0] if proto else "", proto[1] if proto else ""], ["ok", ft])
        add(["c18.fdecl", ft, dim, "1" if par else "0", *attribs], ["ok", var.full_declaration])
    got = drv.batch(reqs)
    bad = unsupported = 0
    hist: dict[str, int] = {}
    for r, e, g, sk in zip(reqs, exp, got, skip_if):
        hist[r[0]] = hist.get(r[0], 0) + 1
        if sk and (g[:2] == ["err", "unsupported"] or e[:2] == ["err", "unsupported"]):
            unsupported += 1
            continue
        if e != g:
            bad += 1
            rep.tie_broken(f"correspondence micro/{r[0]}: model {g!r} vs implementation {e!r} on {r[1:]!r}",
                           {"stream": "micro", "request": r, "impl": e, "model": g})
    return len(reqs), bad, unsupported, hist


# --------------------------------------------------------------------------
# decl stream (parse level)
# --------------------------------------------------------------------------

INIT_TOKENS = ["1", "2.0", "n", "m", "k", "+", "*", "//", "(", ")", "[", "]", ",", " ", "  ", "<", ">", ".lt.", "a<b",
               "merge(1, 2, k<l)", "size(x)", "null()", "-", "1.0_dp",
               "N", "Kx", ".LT.", "A<B", "MERGE(1, 2, K<L)", "Size(X)", "NULL()", "1.0_DP", "1.0E0"]
TYPES = ["integer", "real", "logical", "character(len=*)", "character(len=10)", "real(kind=dp)", "type(tt)", "complex"]
ATTRS = ["parameter", "allocatable", "target", "save", "dimension(2, 3)", "dimension(:)", "pointer", "protected", "private", "public"]


def gen_init_expr(rng, junk=False):
    parts = []
    depth = 0
    for _ in range(rng.randint(1, 5)):
        r = rng.random()
        if r < 0.55:
            parts.append(gen_literal(rng, hot=True, maxp=4))
        else:
            t = rng.choice(INIT_TOKENS)
            if t == "(":
                depth += 1
            elif t == ")":
                if depth == 0:
                    continue
                depth -= 1
            parts.append(t)
    parts += [")"] * depth
    s = " ".join(parts) if rng.random() < 0.5 else "".join(parts)
    if junk:
        s += rng.choice(["'", '"', " 'a", ' "b c', "''", " 'a'\"b\"", ' "', "'x' \"0\"", ' "7"'])
    return s or "1"


def gen_decl_line(rng, idx, junk=False):
    ty = recase(rng, rng.choice(TYPES))
    attrs = [recase(rng, a) for a in rng.sample(ATTRS, rng.choice([0, 0, 1, 2]))]
    ents = []
    for j in range(rng.randint(1, 3)):
        name = f"v{idx}x{j}" + rng.choice(["", "", "", "A", "Bc", "_Q"])
        dim = rng.choice(["", "", "(2,3)", "(3)", "*8", "(2)*4", "[*]", "(n, m)"])
        r = rng.random()
        if r < 0.6:
            ini = rng.choice([" = ", "=", " =  "]) + gen_init_expr(rng, junk)
        elif r < 0.7:
            ini = rng.choice([" => ", "=>"]) + rng.choice(["null()", "tgt", "NULL()", "Tgt", gen_literal(rng)])
        elif r < 0.73 and junk:
            ini = rng.choice([" =", " =>", "= "])
        else:
            ini = ""
        ents.append(name + dim + ini)
    sep = rng.choice([", ", ",", " , "])
    head = ty + "".join(", " + a for a in attrs) + rng.choice([" :: ", "::", " ::"])
    line = head + sep.join(ents)
    if junk:
        # with unbalanced quotes the reader may see a `!` of a literal as the start of a comment; `!>`, `!|`, `!*`
        # in the middle of a line are then (rightly) refused by the reader with an error for the whole file
        line = re.sub(r"!(?=[>|*])", "! ", line)
    return line


def decl_stream(ford, drv, rng, n, rep):
    import ford.sourceform as sf
    from ford.reader import FortranReader
    from ford.settings import ProjectSettings

    orig = sf.line_to_variables
    rec = {}

    def exc_name(e):
        msg = str(e)
        if isinstance(e, re.error):
            return "bad-escape" if "bad escape" in msg else "unsupported"
        if isinstance(e, ValueError):
            return "bad-number"
        if isinstance(e, IndexError):
            return "empty-init" if "string index" in msg else ("index" if "list index" in msg else "unsupported")
        if isinstance(e, AttributeError):
            return "no-match"
        return type(e).__name__

    def wrap(source, line, perm, parent):
        m = re.search(r"v(\d+)x", line, re.I)
        strings = list(parent.strings)
        try:
            vs = orig(source, line, perm, parent)
            out = ("ok", [(v.name, v.dimension, v.points, v.initial) for v in vs])
        except Exception as e:  # keep parsing the other statements; the error is the observation
            vs, out = [], ("err", exc_name(e))
        if m:
            rec[int(m.group(1))] = (line, strings, out)
        return vs

    lines = [gen_decl_line(rng, i, junk=(i % 4 == 3)) for i in range(n)]
    hist = {"lines": n, "junk": 0, "with_literal": 0, "errors": 0, "unaligned": 0, "literals": 0,
            "nbsp_runs": 0, "backslash": 0, "ltletter": 0, "lower_option": 0, "lower_option_capital_in_literal": 0,
            "capital_in_code": 0}
    chunk = 200

    def lower_of(i):  # every second chunk is parsed as a project with `lower: true`
        return (i // chunk) % 2 == 1

    bad = 0
    with common.scratch_dir() as d:
        stmts = {}
        sf.line_to_variables = wrap
        try:
            for c0 in range(0, n, chunk):
                p = d / f"u{c0}.f90"
                p.write_text("module mm\n" + "".join(l + "\n" for l in lines[c0:c0 + chunk]) + "end module mm\n")
                for st in FortranReader(str(p), "!", ">", "*", "|"):
                    m = re.search(r"v(\d+)x", st, re.I)
                    if m and int(m.group(1)) not in stmts:
                        stmts[int(m.group(1))] = st
                with common.quiet():
                    try:
                        sf.FortranSourceFile(str(p), ProjectSettings(lower=lower_of(c0)))
                    except Exception as e:  # noqa
                        rep.tie_broken(f"decl stream: real parser raised outside line_to_variables: {type(e).__name__}: {e}")
        finally:
            sf.line_to_variables = orig
    idxs = [i for i in range(n) if i in stmts and i in rec]
    hist["unaligned"] = n - len(idxs)
    reqs = []
    for i in idxs:
        fl = "1" if lower_of(i) else "0"
        reqs.append(["c18.cut", fl, stmts[i]])
        reqs.append(["c18.decl", fl, "1" if common.probe_init_eq_join() else "0", stmts[i]])
    got = drv.batch(reqs)
    for k, i in enumerate(idxs):
        line, strings, out = rec[i]
        g_cut, g_decl = got[2 * k], got[2 * k + 1]
        e_cut = ["ok", line] + strings
        if out[0] == "ok":
            e_decl = ["ok"]
            for (nm, dim, pts, ini) in out[1]:
                e_decl += [nm, dim, "1" if pts else "0", "N" if ini is None else "S" + ini]
        else:
            e_decl = ["err", out[1]]
            hist["errors"] += 1
        hist["junk"] += i % 4 == 3
        hist["lower_option"] += lower_of(i)
        hist["capital_in_code"] += bool(re.search(r"[A-Z]", line))
        hist["lower_option_capital_in_literal"] += lower_of(i) and any(re.search(r"[A-Z]", s) for s in strings)
        if strings:
            hist["with_literal"] += 1
            hist["literals"] += len(strings)
            hist["nbsp_runs"] += any("  " in s for s in strings)
            hist["backslash"] += any("\\" in s for s in strings)
            hist["ltletter"] += any(re.search(r"<[a-z/!]", s) for s in strings)
        if g_decl[:2] == ["err", "unsupported"] or e_decl[:2] == ["err", "unsupported"]:
            continue
        if g_cut != e_cut:
            bad += 1
            rep.tie_broken(f"correspondence decl/cut (lower={lower_of(i)}): model {g_cut!r} vs implementation {e_cut!r} on {stmts[i]!r}",
                           {"stream": "decl", "statement": stmts[i], "lower": lower_of(i), "impl": e_cut, "model": g_cut})
        if g_decl != e_decl:
            bad += 1
            rep.tie_broken(f"correspondence decl/vars (lower={lower_of(i)}): model {g_decl!r} vs implementation {e_decl!r} on {stmts[i]!r}",
                           {"stream": "decl", "statement": stmts[i], "lower": lower_of(i), "impl": e_decl, "model": g_decl})
    return len(idxs), bad, hist, lines


# --------------------------------------------------------------------------
# cleanup stream (attribute statements -> displayed variables, parse level)
# --------------------------------------------------------------------------

STMT_ATTRS = ["intent(in)", "intent(out)", "intent(inout)", "intent( in )", "optional", "value", "target", "volatile",
              "asynchronous", "save", "pointer", "allocatable", "dimension", "public", "private", "protected", "external",
              "parameter", "bind(c)", "contiguous"]
CU_TYPES = ["integer", "real", "logical", "character(len=*)", "real(kind=dp)", "type(tt)", "complex", "double precision"]


def gen_cleanup_unit(rng, idx):
    """one module: variables, a subroutine and a function, each with type declarations in any spelling and
    attribute statements of every kind (several names per statement, repeated statements for one name, names
    that are declared twice, not at all, or are procedures of the unit)"""
    u = f"cm{idx}"

    def spell(nm):
        return recase(rng, nm)

    def statements(names, ctx):
        out = []
        for _ in range(rng.choice([0, 1, 2, 3, 4])):
            a = rng.choice(STMT_ATTRS)
            if ctx != "arg" and a.startswith(("intent", "optional", "value")) and rng.random() < 0.8:
                a = rng.choice(["target", "save", "volatile", "dimension", "allocatable"])
            if a == "contiguous":  # not an attribute statement FORD knows: stays an unrecognised line
                a = "volatile"
            ns = rng.sample(names, min(len(names), rng.choice([1, 1, 2, 3])))
            if a in ("dimension", "allocatable", "pointer"):
                ents = [spell(n) + rng.choice(["(2, 3)", "(:)", "(n, *)", "(0:n)", "( : , : )", "(size(x))"] if a == "dimension"
                                              or rng.random() < 0.6 else [""]) for n in ns]
            else:
                ents = [spell(n) for n in ns]
            if a == "parameter":
                out.append(recase(rng, "parameter") + rng.choice([" (", "("]) + ", ".join(
                    f"{e} = {rng.choice(['1', '2.5', 'n + 1', '(/1, 2/)', 'max(1, 2)'])}" for e in ents) + ")")
                continue
            kw = recase(rng, a)
            out.append(kw + rng.choice([" :: ", " ", "::", " ::", "  "]) + rng.choice([", ", ",", " , "]).join(ents))
        return out

    def declare(names, ctx):
        """type declarations for most of the names (a few stay undeclared, one may be declared twice)"""
        out = []
        pool = list(names)
        while pool:
            k = rng.choice([1, 1, 2])
            grp, pool = pool[:k], pool[k:]
            if rng.random() < 0.15:
                continue  # undeclared: implicitly typed argument / a statement about a name FORD never sees
            attrs = rng.sample(["target", "save", "dimension(4)", "allocatable", "pointer", "optional", "intent(in)", "intent(out)",
                                "private", "protected", "external", "volatile"], rng.choice([0, 0, 1, 2]))
            if ctx != "arg":
                attrs = [a for a in attrs if not a.startswith(("intent", "optional"))]
            ents = [spell(n) + rng.choice(["", "", "", "(3)", "(2, 2)", "*8"]) for n in grp]
            out.append(recase(rng, rng.choice(CU_TYPES)) + "".join(", " + recase(rng, a) for a in attrs) + " :: " + ", ".join(ents))
        return out

    def mix(a, b):
        """attribute statements before, between and after the declarations"""
        lines = list(a)
        for x in b:
            lines.insert(rng.randint(0, len(lines)), x)
        return lines

    L = [f"module {u}"]
    gv = [f"g{idx}v{j}" for j in range(rng.randint(1, 4))]
    sname, fname = f"s{idx}q", f"f{idx}q"
    body = mix(declare(gv, "module"), statements(gv + ([sname, fname] if rng.random() < 0.4 else []), "module"))
    L += ["  " + x for x in body]
    L.append("contains")
    # subroutine
    args = [f"{rng.choice('aikxn')}{idx}a{j}" for j in range(rng.randint(0, 4))]
    loc = [f"l{idx}c{j}" for j in range(rng.randint(0, 2))]
    L.append(f"  {recase(rng, 'subroutine')} {sname}(" + ", ".join(spell(a) for a in args) + ")")
    sb = declare(args, "arg") + declare(loc, "local")
    if args and rng.random() < 0.2:
        d = rng.choice(args)  # a dummy procedure described by an interface block
        sb = [x for x in sb if d.lower() not in x.lower()]
        sb += ["interface", f"  subroutine {spell(d)}(z)", "    real z", f"  end subroutine {d}", "end interface"]
    st = statements(args + loc if args + loc else ["zz"], "arg")
    if any(l == "interface" for l in sb):
        L += ["    " + x for x in st + sb] if rng.random() < 0.5 else ["    " + x for x in sb + st]
    else:
        L += ["    " + x for x in mix(sb, st)]
    L.append(f"  end subroutine {sname}")
    # function
    fargs = [f"{rng.choice('bjmy')}{idx}b{j}" for j in range(rng.randint(0, 3))]
    form = rng.choice(["result", "result", "name", "typed", "typed-result"])
    res = f"r{idx}r" if form in ("result", "typed-result") else fname
    head = (recase(rng, rng.choice(["real", "integer", "logical", "real(kind=dp)"])) + " " if form.startswith("typed") else "") \
        + f"{recase(rng, 'function')} {fname}(" + ", ".join(spell(a) for a in fargs) + ")" \
        + (f" {recase(rng, 'result')}({spell(res)})" if form in ("result", "typed-result") else "")
    L.append("  " + head)
    fb = declare(fargs, "arg")
    if not form.startswith("typed") and rng.random() < 0.9:
        fb += declare([res], "local")
    L += ["    " + x for x in mix(fb, statements(fargs + [res], "arg"))]
    L.append(f"  end function {fname}")
    L.append(f"end module {u}")
    return L, {"module": u, "sub": sname, "func": fname}


_ITEM_PROBE: dict = {}


def probe_item_attr_tolerant() -> bool:
    """Variant of the code, decided by probing it: does `process_attribs` accept an attribute other than a
    visibility / BIND for an entry of an interface block (`optional :: cb`), or does it raise AttributeError
    (finding C18-attribute-statement-on-interface-procedure; repaired by fixes/C18-attribute-statement-on-interface-procedure.diff)?"""
    if "v" not in _ITEM_PROBE:
        import ford.sourceform as sf
        from ford.settings import ProjectSettings

        src = ("subroutine zprobe(cb)\n  interface\n    subroutine cb(z)\n      real z\n    end subroutine cb\n"
               "  end interface\n  optional :: cb\nend subroutine zprobe\n")
        with common.scratch_dir() as d:
            (d / "zprobe.f90").write_text(src)
            try:
                with common.quiet():
                    sf.FortranSourceFile(str(d / "zprobe.f90"), ProjectSettings())
                _ITEM_PROBE["v"] = True
            except AttributeError:
                _ITEM_PROBE["v"] = False
    return _ITEM_PROBE["v"]


def cleanup_stream(ford, drv, rng, n, rep, steps):
    """real `_cleanup` of modules / subroutines / functions (state before and after observed on the real objects)
    against the model `runCleanup` with the step order regenerated from the source"""
    import ford.sourceform as sf
    from ford.settings import ProjectSettings

    rec = {}
    tolerant = probe_item_attr_tolerant()

    def var_rec(v):
        return [v.name, v.full_type, v.permission or "", v.intent or "", "1" if v.optional else "0", "1" if v.parameter else "0",
                v.dimension or "", "N" if v.initial is None else "S" + str(v.initial), str(len(v.attribs)), *[str(a) for a in v.attribs]]

    def slot_rec(x):
        if isinstance(x, str):
            return ["n", x]
        if isinstance(x, sf.FortranVariable):
            return ["v"] + var_rec(x)
        return ["p", getattr(x, "name", "?")]

    def snapshot(obj, kind):
        req = [kind]
        args = list(getattr(obj, "args", [])) if kind != "unit" else []
        req += [str(len(args)), *[a if isinstance(a, str) else "?" for a in args]]
        ret = getattr(obj, "retvar", None) if kind == "func" else None
        req.append("N" + ret if isinstance(ret, str) else "-")
        ifs = [i.procedure.name for i in obj.interfaces if not (i.abstract or i.generic)] if kind != "unit" else []
        req += [str(len(ifs)), *ifs]
        items = [("1" if hasattr(it, "attribs") or tolerant else "0") + it.name.lower()
                 for it in obj.iterator("functions", "subroutines", "types", "interfaces", "absinterfaces")]
        req += [str(len(items)), *items]
        d = [(k, list(v)) for k, v in obj.attr_dict.items()]
        req.append(str(len(d)))
        for k, v in d:
            req += [k, str(len(v)), *v]
        ps = list(obj.param_dict.items())
        req.append(str(len(ps)))
        for k, v in ps:
            req += [k, v]
        req.append(str(len(obj.variables)))
        for v in obj.variables:
            req += var_rec(v)
        keys = {k for k, v in d if v}
        return req, isinstance(ret, str), (sum(len(v) for _, v in d), sum(isinstance(a, str) and a.lower() in keys for a in args))

    def observe(obj, kind, ret_named):
        args = list(getattr(obj, "args", [])) if kind != "unit" else []
        out = ["ok", str(len(args))]
        for a in args:
            out += slot_rec(a)
        out += slot_rec(obj.retvar) if ret_named else ["-"]
        out.append(str(len(obj.variables)))
        for v in obj.variables:
            out += ["v"] + var_rec(v)
        return out

    def make(orig, kind):
        def wrapped(self):
            try:
                req, ret_named, nattr = snapshot(self, kind)
            except Exception as e:  # the abstraction cannot read FORD's objects any more
                rec[(kind, self.name.lower())] = ("unreadable", f"{type(e).__name__}: {e}", (0, 0))
                return orig(self)
            try:
                orig(self)
                rec[(kind, self.name.lower())] = (req, observe(self, kind, ret_named), nattr)
            except Exception as e:  # the error is the observation; the other units of the file are still parsed
                rec[(kind, self.name.lower())] = (req, ["err", "attribute-error" if isinstance(e, AttributeError) else type(e).__name__], nattr)
        return wrapped

    targets = [(sf.FortranSubroutine, "proc"), (sf.FortranFunction, "func"), (sf.FortranModule, "unit")]
    saved = [(cls, cls.__dict__.get("_cleanup")) for cls, _ in targets]
    units = [gen_cleanup_unit(rng, i) for i in range(n)]
    hist = {"units": 0, "procedures": 0, "functions": 0, "with_statement_attributes": 0, "statement_attributes": 0,
            "arguments": 0, "arguments_with_statement_attributes": 0, "results_named": 0, "raised": 0}
    chunk = 40
    with common.scratch_dir() as d:
        for cls, kind in targets:
            setattr(cls, "_cleanup", make(getattr(cls, "_cleanup"), kind))
        try:
            for c0 in range(0, n, chunk):
                p = d / f"c{c0}.f90"
                p.write_text("".join("\n".join(L) + "\n" for L, _ in units[c0:c0 + chunk]))
                with common.quiet():
                    try:
                        sf.FortranSourceFile(str(p), ProjectSettings())
                    except Exception as e:  # noqa
                        rep.tie_broken(f"cleanup stream: real parser raised: {type(e).__name__}: {e}",
                                       {"stream": "cleanup", "file": p.read_text()[:4000]})
        finally:
            for cls, old in saved:
                if old is None:
                    delattr(cls, "_cleanup")
                else:
                    setattr(cls, "_cleanup", old)
    keys, reqs = [], []
    for i, (L, nm) in enumerate(units):
        for kind, name in (("unit", nm["module"]), ("proc", nm["sub"]), ("func", nm["func"])):
            r = rec.get((kind, name.lower()))
            if r is None:
                rep.tie_broken(f"cleanup stream: _cleanup of {kind} {name} was not observed (the unit was not parsed as generated)",
                               {"stream": "cleanup", "source": L})
                continue
            if r[0] == "unreadable":
                rep.tie_broken(f"cleanup stream: cannot read the state of {kind} {name}: {r[1]}", {"stream": "cleanup", "source": L})
                continue
            keys.append((i, kind, name))
            reqs.append(["c18.cleanup"] + r[0])
    got = drv.batch(reqs)
    bad = 0
    for (i, kind, name), rq, g in zip(keys, reqs, got):
        _, e, (nattr, nargattr) = rec[(kind, name.lower())]
        hist["arguments_with_statement_attributes"] += nargattr
        hist["units"] += kind == "unit"
        hist["procedures"] += kind == "proc"
        hist["functions"] += kind == "func"
        hist["with_statement_attributes"] += nattr > 0
        hist["statement_attributes"] += nattr
        hist["raised"] += e[0] == "err"
        if kind != "unit" and e[0] == "ok":
            hist["arguments"] += int(e[1])
        if kind == "func" and rq[3 + int(rq[2])].startswith("N"):
            hist["results_named"] += 1
        if g != e:
            bad += 1
            rep.tie_broken(f"correspondence cleanup/{kind} (steps {steps.get(kind)}): model {g!r} vs implementation {e!r} for {name}",
                           {"stream": "cleanup", "kind": kind, "name": name, "source": units[i][0], "request": rq, "impl": e, "model": g})
    return len(reqs), bad, hist


# --------------------------------------------------------------------------
# e2e stream
# --------------------------------------------------------------------------

class Hot:
    """one piece of source text whose rendering is checked"""

    def __init__(self, pid, site, text, neutral, mod=0):
        self.pid, self.site, self.text, self.neutral, self.mod = pid, site, text, neutral, mod

    def drops_file(self, twin=False):
        """classes whose effect is that FORD gives up on the whole source file"""
        c = self.known_class(twin)
        text = self.neutral if twin else self.text
        if c == "C18-len-cut" and "," in text:
            return c
        if c in ("C18-bind-name-undoubled-backslash", "C18-enumerator-expression-drops-file"):
            return c
        return None

    def known_class(self, twin=False):
        """decidable defect class of this (site, text), or None: see known_findings/C18.json
        (twin: of the placeholder text that stands for it in the neutral twin)"""
        text = self.neutral if twin else self.text
        sq = squeeze(text)
        if self.site == "enum" and not re.fullmatch(r"[+-]?\d+(_\w+)?", sq):
            return "C18-enumerator-expression-drops-file"
        if self.site == "paramstmt" and re.search(r"['\"]", text):
            return "C18-parameter-statement-literal-placeholder"
        if self.site == "init" and not common.probe_init_eq_join():
            # outside literals: `=` at parenthesis level 0 (==, <=, >=, /=); only while the code cuts there
            lvl, q = 0, None
            for c in text:
                if q:
                    if c == q:
                        q = None
                    continue
                if c in "'\"":
                    q = c
                elif c in "([":
                    lvl += 1
                elif c in ")]":
                    lvl -= 1
                elif c == "=" and lvl == 0:
                    return "C18-initial-cut-at-equals"
            return None
        if self.site == "kind" and "," in sq:
            return "C18-kind-cut-at-comma"
        if self.site == "len" and not re.fullmatch(r"\w+|\*|:", sq):
            return "C18-len-cut"
        if self.site in ("bind", "bindattr") and "\\" in text:
            return "C18-bind-name-undoubled-backslash"
        if self.site in ("dim", "dimattr", "kind", "len", "enum", "bind"):
            if re.search(r"<[A-Za-z/!?]", sq) or (self.site == "bind" and ("&" in sq or "<" in sq)):
                return "C18-unescaped-source-text"
        return None


class ProjGen:
    def __init__(self, rng, tag, lower=False):
        self.rng = rng
        self.tag = tag
        self.lower = lower  # the project option `lower` this project is built with
        self.hots: list[Hot] = []
        self.n = 0
        self.cur_mod = 0
        # (page, what an item of that page must say; with hot markers, mode, tags):
        #   mode "exact": the row text as FORD lays it out (type, visibility / intent, optional, parameter, attributes)
        #   mode "canon": the entity receives attributes from separate attribute statements; the order of the
        #                 attributes is then not given by one source statement: compared as type + set of attributes,
        #                 `dimension(X)` and `name(X)` read as the same (see canon_row)
        self.expect: list[tuple[str, str, str, frozenset]] = []
        self.stmt_hist: dict[str, int] = {}  # attribute statements generated, by context:attribute
        self.stmt_decls: list[tuple] = []    # (context, attributes given by statements) per such declaration
        self.drop_tags: dict[int, set] = {}  # module number -> classes of inputs on which FORD gives up on the file

    def hot(self, site, text, literal=False):
        self.n += 1
        pid = f"zq{self.tag}h{self.n}zq"
        neutral = (text[0] + pid + text[0]) if literal else pid
        h = Hot(pid, site, text, neutral, self.cur_mod)
        self.hots.append(h)
        return "\x01" + pid + "\x02"

    def kw(self, s):
        """a keyword / non-hot name in one of the usual spellings (same in the twin)"""
        return recase(self.rng, s)

    def respell(self, name):
        """another occurrence of a name (argument list, attribute statement): Fortran names are case-insensitive,
        each occurrence may be spelled differently from the declaration"""
        r = self.rng.random()
        return name if r < 0.6 else (name.upper() if r < 0.8 else name.lower())

    def shown(self, h):
        """what the page must show for a hot source text: the text itself; with the option `lower`
        its code lower-cased and its character literals as written"""
        return lowercode(h.text) if self.lower else h.text

    # expression generators -------------------------------------------------
    def init_expr(self):
        rng = self.rng
        parts = []
        for _ in range(rng.randint(1, 3)):
            r = rng.random()
            if r < 0.7:
                parts.append(self.hot("init", gen_literal(rng, hot=True, maxp=5), literal=True))
            else:
                e = rng.choice(["n+1", "merge(1, 2, k<l)", "a<b", "k > l", "2*n", "size(x)<m", "a.lt.b",
                                "(k == 1)", "[1, 2, 3]", "max(n,m)", "i<j .and. j>i",
                                "N+1", "MERGE(1, 2, K<L)", "A<B", "Size(X)<M", "A.LT.B", "Max(N,m)", "1.0E0_DP"] +
                               (["a == b", "k <= l", "a /= b", "n >= m", "A == B"] if rng.random() < 0.15 else []))
                parts.append(self.hot("init", e))
        return rng.choice([" // ", "//"]).join(parts)

    def kind_expr(self):
        rng = self.rng
        r = rng.random()
        if r < 0.75:
            return self.kw(rng.choice(["4", "8", "dp", "int32", "c_int", "kind(1.0d0)", "k4"]))
        return self.hot("kind", rng.choice(["selected_real_kind(6,37)", "merge(4,8,c)", "kind(a<b)", "ck*(k<l)", "max(4, 8)",
                                            "Selected_Real_Kind(6,37)", "KIND(A<B)", "CK*(K<L)"]))

    def len_expr(self):
        rng = self.rng
        r = rng.random()
        if r < 0.8:
            return self.kw(rng.choice(["*", "10", "n", ":", "3", "len_x"]))
        return self.hot("len", rng.choice(["n+1", "2*n", "len(a<b)", "n+1", "2*n", "max(n,1)", "N+1", "LEN(A<B)"]))

    def dim_expr(self, site):
        rng = self.rng
        r = rng.random()
        if r < 0.75:
            return self.kw(rng.choice(["2,3", "3", ":", "n, m", "0:n", "2"]))
        if site == "dimstmt":
            # the names and array specs of a DIMENSION statement are code and FORD keeps them lower-cased
            # whatever the option `lower` says; letter case of code is not part of what a declaration says
            return self.hot(site, rng.choice(["merge(2,3,k<l)", "n>m", "2*n, 3", "size(a)<b", "k > 1", "0:n<m"]))
        return self.hot(site, rng.choice(["merge(2,3,k<l)", "n>m", "2*n, 3", "size(a)<b", "k > 1",
                                          "MERGE(2,3,K<L)", "N>M", "Size(A)<B"]))

    def type_spec(self, allow_char=True):
        rng = self.rng
        r = rng.random()
        if r < 0.35 and allow_char:
            if rng.random() < 0.3:
                return f"{self.kw('character')}({self.kw('kind')}={self.kw(rng.choice(['ck', 'c_char']))}, {self.kw('len')}={self.len_expr()})"
            return f"{self.kw('character')}({self.kw('len')}={self.len_expr()})"
        if r < 0.6:
            return self.kw(rng.choice(["integer", "real", "logical", "complex"]))
        if r < 0.9:
            return f"{self.kw(rng.choice(['integer', 'real']))}({self.kw('kind')}={self.kind_expr()})"
        return self.kw("type") + "(" + self.kw("tt0") + ")"

    def bind_literal(self):
        rng = self.rng
        r = rng.random()
        if r < 0.7:
            lit = gen_literal(rng, hot=False, maxp=3).replace(" ", "")
            if len(lit) == 2:
                lit = lit[0] + "Nm_c" + lit[0]
        elif r < 0.92:
            lit = '"' + rng.choice(["s<b>x", "a&amp;b", "p<i", "x&y", "a>b", "S<B>x", "A&Amp;b"]) + '"'
        else:
            lit = "'" + rng.choice(["a\\\\b", "a\\nb", "a\\db", "x\\"]) + "'"
        return lit

    def attr_statement(self, attr, names):
        """one attribute statement giving `attr` to the names: `attr :: a, b` or `attr a, b`
        (`dimension(X)` is written `dimension a(X), b(X)`, a deferred-shape `allocatable` / `pointer` likewise)"""
        rng = self.rng
        m = re.fullmatch(r"(dimension|allocatable|pointer)(\(.*\))", attr, re.S)
        if m:
            kw, ents = self.kw(m.group(1)), [self.respell(n) + m.group(2) for n in names]
        elif attr.startswith("intent("):
            kw = self.kw("intent") + rng.choice(["(", " (", "( "]) + self.kw(attr[7:-1]) + rng.choice([")", " )"])
            ents = [self.respell(n) for n in names]
        else:
            kw, ents = self.kw(attr), [self.respell(n) for n in names]
        return kw + rng.choice([" :: ", " ", "::", "  ", " ::", ":: "]) + rng.choice([", ", ","]).join(ents)

    def var_decl(self, names, ctx, pages=()):
        """ctx: 'module' | 'type' | 'local' | 'arg'; pages: where the rows must appear.
        Returns the source lines: the type declaration and - for some declarations outside derived types - the
        attribute statements that give part of the attributes (`intent(in) :: a`, `dimension a(n)`, `optional a`,
        `value a`, `target :: a`, `private a` ...), before or after the type declaration"""
        rng = self.rng
        ty = self.type_spec()
        use_stmt = ctx != "type" and rng.random() < 0.4
        mv = (lambda: use_stmt and rng.random() < 0.6)  # this attribute is given by a separate statement
        attrs, moved = [], []
        if ctx == "arg":
            it = rng.choice(["intent(in)", "intent(out)", "intent(inout)", "intent(in)"])
            (moved if mv() else attrs).append(it)
            if rng.random() < 0.3:
                (moved if mv() else attrs).append("optional")
            if rng.random() < 0.3:
                st = mv()
                (moved if st else attrs).append(f"dimension({self.dim_expr('dimstmt' if st else 'dimattr')})")
            elif use_stmt and it == "intent(in)" and "optional" not in attrs + moved and rng.random() < 0.4:
                moved.append("value")
            if use_stmt and rng.random() < 0.3:
                moved.append(rng.choice(["target", "volatile", "asynchronous"]))
        else:
            if ctx == "module" and rng.random() < 0.3:
                (moved if mv() else attrs).append(rng.choice(["public", "private", "protected"]))
            if ctx != "type" and rng.random() < 0.4:
                attrs.append("parameter")
            elif rng.random() < 0.3:
                (moved if mv() else attrs).append(rng.choice(["allocatable", "target", "save"] if ctx != "type" else ["allocatable"]))
            if rng.random() < 0.2 and "allocatable" not in attrs + moved:
                st = mv()
                (moved if st else attrs).append(f"dimension({self.dim_expr('dimstmt' if st else 'dimattr')})")
            if use_stmt and "parameter" not in attrs and rng.random() < 0.3:
                x = rng.choice(["volatile", "asynchronous", "save", "target"])
                if x not in attrs + moved:
                    moved.append(x)
        if use_stmt and "parameter" not in attrs and not any(a.startswith("dimension") for a in attrs + moved) \
                and "allocatable" not in attrs + moved and "value" not in moved and rng.random() < 0.15:
            # deferred shape given in an ALLOCATABLE / POINTER statement: `allocatable :: x(:)`
            moved.append(rng.choice(["allocatable", "pointer"]) + rng.choice(["(:)", "(:, :)"]))
        rng.shuffle(moved)
        ents = []
        everything = attrs + moved
        perm = next((a for a in everything if a in ("public", "private", "protected")), "public")
        fields = ("public", "private", "protected", "optional", "parameter")
        other = [a for a in attrs if a not in fields and not a.startswith("intent(")]
        # attributes of statements are displayed after those of the declaration (`optional` too: only the
        # declaration's own `optional` has a column); where exactly is not compared (mode "canon")
        other += [a for a in moved if a not in ("public", "private", "protected") and not a.startswith("intent(")]
        # the source spells the keywords in any case (the rows are compared case-insensitively outside literals)
        src_attrs = [self.kw("dimension") + a[9:] if a.startswith("dimension(") else self.kw(a) for a in attrs]
        has_dim = any(re.match(r"(dimension|allocatable|pointer)\(", a) for a in everything)
        for nm in names:
            dim = ini = ""
            if rng.random() < 0.3 and not has_dim:
                dim = f"({self.dim_expr('dim')})"
            if ctx != "arg" and ("parameter" in attrs or rng.random() < 0.5):
                ini = "=" + self.init_expr()
            ents.append(nm + dim + (rng.choice([" = ", "="]) + ini[1:] if ini else ""))
            # what the row must say (FORD's column order: type, visibility / intent, optional, parameter, attributes)
            if ctx == "arg":
                parts = [ty, next(a for a in everything if a.startswith("intent("))] + (["optional"] if "optional" in attrs else [])
            else:
                parts = [ty, perm] + (["parameter"] if "parameter" in attrs else [])
            row = ",".join(parts + other) + "::" + nm + dim + (ini if ctx != "arg" else "")
            for pg in pages:
                self.expect.append((pg, row, "canon" if moved else "exact", frozenset()))
        lines = [ty + "".join(", " + a for a in src_attrs) + " :: " + ", ".join(ents)]
        before, after = [], []
        for a in moved:
            key = f"{ctx}:{re.sub(r'[(].*', '', a, flags=re.S)}"
            self.stmt_hist[key] = self.stmt_hist.get(key, 0) + 1
            groups = [list(names)] if rng.random() < 0.7 else [[n] for n in names]
            for g in groups:
                (before if rng.random() < 0.25 else after).append(self.attr_statement(a, g))
        if moved:
            self.stmt_decls.append((ctx, tuple(sorted(re.sub(r"[(].*", "", a, flags=re.S) for a in moved))))
        return before + lines + after

    def module(self, k):
        rng = self.rng
        self.cur_mod = k
        L = [f"module m{k}", "  implicit none"]
        vi = 0

        def names(c):
            nonlocal vi
            out = []
            for _ in range(c):
                vi += 1
                out.append(self.kw(f"v{k}n{vi}"))
            return out

        mp, tp, sp, fp = f"module/m{k}.html", f"type/tt{k}.html", f"proc/s{k}.html", f"proc/f{k}.html"
        for _ in range(rng.randint(5, 8)):
            L += ["  " + x for x in self.var_decl(names(rng.choice([1, 1, 2])), "module", [mp])]
        # attribute statements: the other path on which the literals cut out of a statement are put back
        # (ATTRIB branch of the container loop): BIND and PARAMETER statements
        if rng.random() < 0.4:
            g = names(1)[0]
            b = f"{self.kw('bind')}({self.kw('c')}, {self.kw('name')}={self.hot('bindattr', self.bind_literal(), literal=True)})"
            L += [f"  {self.kw('integer')} :: {g}", f"  {b} :: {g}"]
            self.expect.append((mp, f"integer,public,{b.replace(' ', '')}::{g}", "exact", frozenset()))
        if rng.random() < 0.35:
            pz = names(1)[0]
            if rng.random() < 0.6:
                val = self.hot("paramstmt", gen_literal(rng, hot=True, maxp=3), literal=True)
            else:
                val = self.hot("paramstmt", rng.choice(["n+1", "merge(1, 2, k<l)", "A<B", "2*N", "size(x)<m"]))
            L += [f"  {self.kw('character(len=8)')} :: {pz}", f"  {self.kw('parameter')} ({pz} = {val})"]
            self.expect.append((mp, f"character(len=8),public,parameter::{pz}={val}", "exact", frozenset()))
        L.append(f"  type :: tt{k}")
        for _ in range(rng.randint(1, 3)):
            L += ["    " + x for x in self.var_decl(names(1), "type", [mp, tp])]
        L.append(f"  end type tt{k}")
        if rng.random() < 0.6:
            ev = rng.choice(["3", "7"]) if rng.random() < 0.85 else self.hot("enum", rng.choice(["merge(1,2,k<l)", "4*(a<b)", "ishft(1, 2)", "7_c_int"]))
            L += ["  " + self.kw("enum, bind(c)"), f"    {self.kw('enumerator')} :: e{k}a = 1, e{k}b = {ev}", "  end enum"]
            self.expect.append((mp, f"enumerator::e{k}b={ev}", "exact", frozenset()))
        L.append("contains")
        # subroutine with bind name
        a = names(2)
        bind = ""
        if rng.random() < 0.6:
            bind = f" {self.kw('bind')}({self.kw('c')}, {self.kw('name')}={self.hot('bind', self.bind_literal(), literal=True)})"
        # a dummy procedure described by an interface block (displayed as a nested procedure, not as a variable row)
        cb = [f"cb{k}"] if rng.random() < 0.12 else []
        hdr = ", ".join(self.respell(x) for x in a + cb)
        L.append(f"  {self.kw('subroutine')} s{k}({hdr}){bind}")
        for pg in (mp, sp):
            self.expect.append((pg, f"publicsubroutines{k}({hdr})".replace(" ", "") + bind.replace(" ", ""), "exact", frozenset()))
        if rng.random() < 0.25:
            # both dummy arguments in one declaration (attribute statements may then name one or both)
            L += ["    " + x for x in self.var_decl(a, "arg", [mp, sp])]
        else:
            L += ["    " + x for x in self.var_decl(a[:1], "arg", [mp, sp])]
            L += ["    " + x for x in self.var_decl(a[1:], "arg", [mp, sp])]
        if cb:
            L += ["    " + x for x in [self.kw("interface"), f"  {self.kw('subroutine')} {self.respell(cb[0])}(zcb)",
                                       f"    {self.kw('real')}, {self.kw('intent(in)')} :: zcb",
                                       f"  end subroutine {cb[0]}", "end interface"]]
            if rng.random() < 0.5:
                st = rng.choice(["optional", "optional", "private"])
                L.append("    " + self.attr_statement(st, cb))
                self.stmt_hist["interface-dummy:" + st] = self.stmt_hist.get("interface-dummy:" + st, 0) + 1
                if st != "private":
                    # decidable on the input: an attribute statement other than a visibility / BIND names a procedure
                    # that is described by an interface block of the same unit
                    self.drop_tags.setdefault(k, set()).add("C18-attribute-statement-on-interface-procedure")
        for _ in range(rng.randint(1, 2)):
            L += ["    " + x for x in self.var_decl(names(1), "local", [sp])]
        nl = names(2)
        L += ["    " + x for x in self.var_decl(nl[:1], "local", [sp])]
        L += ["    " + x for x in self.var_decl(nl[1:], "local", [sp])]
        L.append(f"    {self.kw('namelist')} /nl{k}/ {nl[0]}, {nl[1]}")
        L.append(f"  end subroutine s{k}")
        # function: the result is named by a RESULT clause or is the function name; its type is given by a type
        # declaration in the body or in the FUNCTION statement (then attributes can only come from separate statements)
        a = names(1)
        form = rng.choice(["result", "result", "result", "name", "typed", "typed-result"])
        r_ = names(1)[0] if form in ("result", "typed-result") else f"f{k}"
        rty = self.type_spec(allow_char=False)
        typed = form.startswith("typed")
        clause = f" {self.kw('result')}({r_})" if form in ("result", "typed-result") else ""
        L.append(f"  {rty + ' ' if typed else ''}{self.kw('function')} f{k}({self.respell(a[0])}){clause}")
        r_decl = self.respell(r_)  # the spelling of the result's name in its type declaration
        # decidable on the input: no RESULT clause, the result declared in the body under the function's name in
        # another letter case (without the option `lower`, which makes all names lower-case)
        htag = ["result-name-recased"] if form == "name" and r_decl != r_ and not self.lower else []
        for pg in (mp, fp):
            self.expect.append((pg, f"publicfunctionf{k}({a[0]})" + (f"result({r_})" if clause else ""), "exact", frozenset(htag)))
        L += ["    " + x for x in self.var_decl(a, "arg", [mp, fp])]
        rall = rng.choice([[], [], ["dimension(2)"], ["allocatable", "dimension(:)"], ["target"]])
        # the result variable may get its attributes from separate statements too (`dimension r(2)`, `target r`)
        rmoved = list(rall) if typed else ([x for x in rall if rng.random() < 0.6] if rng.random() < 0.35 else [])
        rattr = [self.kw(x) for x in rall if x not in rmoved]
        rdim = "(3)" if not rall and not typed and rng.random() < 0.4 else ""
        rlines = [] if typed else [f"{rty}" + "".join(", " + x for x in rattr) + f" :: {r_decl}{rdim}"]
        for x in rmoved:
            key = ("typed-result:" if typed else "result:") + x.split("(")[0]
            self.stmt_hist[key] = self.stmt_hist.get(key, 0) + 1
            rlines.insert(0 if rng.random() < 0.25 else len(rlines), self.attr_statement(x, [r_]))
        if rmoved:
            self.stmt_decls.append(("typed-result" if typed else "result", tuple(sorted(x.split("(")[0] for x in rmoved))))
        L += ["    " + x for x in rlines]
        rtag = [] if not rmoved else ["typed-result-statement-attribute" if typed else "result-statement-attribute"]
        for pg in (mp, fp):
            self.expect.append((pg, "ReturnValue" + ",".join([rty] + rattr + rmoved + ([rdim] if rdim else [])),
                                "canon" if rmoved else "exact", frozenset(rtag)))
        L += ["    " + x for x in self.var_decl(names(1), "local", [fp])]
        L.append(f"    {r_} = {r_}")
        L.append(f"  end function f{k}")
        L.append(f"end module m{k}")
        return L

    def render(self, lines, neutral):
        out = []
        for l in lines:
            def sub(m):
                h = self.byid[m.group(1)]
                return h.neutral if neutral else h.text
            out.append(re.sub("\x01(.*?)\x02", sub, l))
        return "\n".join(out) + "\n"

    def project(self, nmod):
        self.nmod = nmod
        files_real, files_neutral = {}, {}
        mods = []
        base = ["module m0", "  type :: tt0", "    integer :: q0", "  end type tt0", "end module m0"]
        for k in range(1, nmod + 1):
            mods.append(self.module(k))
        self.byid = {h.pid: h for h in self.hots}
        files_real["m0.f90"] = files_neutral["m0.f90"] = "\n".join(base) + "\n"
        for k, lines in enumerate(mods, 1):
            lines = [l.replace("implicit none", "use m0\n  implicit none") for l in lines]
            files_real[f"m{k}.f90"] = self.render(lines, False)
            files_neutral[f"m{k}.f90"] = self.render(lines, True)
        return files_real, files_neutral


OPTIONS = {"display": ["public", "private", "protected"], "proc_internals": "true", "incl_src": "false",
           "graph": "false", "search": "false", "warn": "false"}


def page_items(path: Path):
    """(items, all tags) of one page: one item per table row / heading inside the page body"""
    from bs4 import BeautifulSoup

    soup = BeautifulSoup(path.read_text(encoding="utf-8", errors="replace"), "html.parser")
    body = soup.find(id="text") or soup.body or soup
    items = []
    for el in body.find_all(["tr", "h1", "h2", "h3", "h4"]):
        if el.name == "tr" and el.find("th") is not None:
            continue
        if el.name != "tr" and el.find_parent("tr") is not None:
            continue
        items.append((el.name, el.get_text(), [t.name for t in el.find_all(True)]))
    tags = [t.name for t in soup.find_all(True)]
    return items, tags


PID_RE = re.compile(r"zq\d+h\d+zq")


def expected_text(neutral_text: str, byid, lower=False) -> str:
    """the twin's text with every placeholder replaced by the source text it stands for; in a project
    built with the option `lower` ("convert all non-string, non-comment source code to lower case") code is
    expected lower-cased, the contents of character literals as written"""
    def sub(m):
        h = byid.get(m.group(0))
        if h is None:
            return m.group(0)
        if h.neutral != h.pid:
            return h.text[1:-1]  # literal placeholders keep their quotes in the twin
        return lowercode(h.text) if lower else h.text
    return PID_RE.sub(sub, neutral_text)


def e2e_stream(ford, rng, nproj, rep, seed, cov, cleanup_steps=None):
    cleanup_steps = cleanup_steps or {}
    evaluations = 0
    distinct = set()
    site_hist: dict[str, int] = {}
    class_hist: dict[str, int] = {}
    page_hist: dict[str, int] = {}
    fail_hist: dict[str, int] = {}
    opt_hist: dict[str, int] = {}
    stmt_hist: dict[str, int] = {}
    case_hist = {"hot_texts_with_capitals": 0, "literals_with_capitals_under_lower": 0, "code_with_capitals_under_lower": 0}
    samples = []
    with common.scratch_dir() as d:
        for pi in range(nproj):
            # project options that change how source text is carried to the page are part of the input
            low = rng.random() < 0.5
            opts = dict(OPTIONS, lower="true" if low else "false")
            opt_hist["lower=" + opts["lower"]] = opt_hist.get("lower=" + opts["lower"], 0) + 1
            gen = ProjGen(rng, pi, lower=low)
            real, neutral = gen.project(rng.choice([1, 2]))
            byid = gen.byid
            outs = {}
            for kind, files in (("real", real), ("neutral", neutral)):
                root = d / f"p{pi}{kind}"
                shutil.rmtree(root, ignore_errors=True)
                pf = e2e.write_project(root, files, opts)
                r = e2e.run_inprocess(pf)
                outs[kind] = (root / "doc", r)
            (rdoc, rr), (ndoc, nr) = outs["real"], outs["neutral"]
            if nr["rc"] != 0:
                rep.tie_broken(f"e2e: FORD failed on the neutral twin of project {pi}: {nr['exc']} {nr['log'][-300:]}",
                               {"stream": "e2e", "options": opts, "files": neutral})
                continue
            for k_, v_ in gen.stmt_hist.items():
                stmt_hist[k_] = stmt_hist.get(k_, 0) + v_
            for sd in gen.stmt_decls:
                distinct.add(common.digest(["attribute-statements", list(sd[:1]) + list(sd[1])]))
            for h in gen.hots:
                site_hist[h.site] = site_hist.get(h.site, 0) + 1
                if re.search(r"[A-Z]", h.text):
                    case_hist["hot_texts_with_capitals"] += 1
                    if low:
                        case_hist["literals_with_capitals_under_lower" if h.neutral != h.pid else "code_with_capitals_under_lower"] += 1
                        distinct.add(common.digest([h.site, h.text, "lower"]))
                c = h.known_class()
                if c:
                    class_hist[c] = class_hist.get(c, 0) + 1
                if re.search(r"[<>&\"'\\]|  ", h.text[1:-1] if h.neutral != h.pid else h.text):
                    distinct.add(common.digest([h.site, h.text]))
            pages = sorted(p.relative_to(ndoc) for sub in ("module", "proc", "type", "namelist", "interface", "lists")
                           for p in (ndoc / sub).glob("*.html"))
            # absolute part of the oracle, file level: every generated module is displayed at all
            for k in range(1, gen.nmod + 1):
                evaluations += 1
                if not (ndoc / "module" / f"m{k}.html").exists():
                    hs = [h for h in gen.hots if h.mod == k and h.drops_file(twin=True)]
                    cls = sorted({h.drops_file(twin=True) for h in hs} | gen.drop_tags.get(k, set()))
                    fid = cls[0] if cls else None
                    fail_hist[fid or "unclassified"] = fail_hist.get(fid or "unclassified", 0) + 1
                    rep.failing_input({"stream": "e2e", "page": f"module/m{k}.html", "item": "module of the neutral twin",
                                       "why": "FORD dropped the whole source file, none of its declarations is displayed: "
                                              + " ".join(l.strip() for l in nr["log"].splitlines() if "rror" in l or "Bad" in l or "Non-" in l)[:400],
                                       "source_texts": [{"site": h.site, "text": h.neutral} for h in hs],
                                       "options": opts, "files": neutral}, fid)
            dropped = [k for k in range(1, 3) if (ndoc / "module" / f"m{k}.html").exists()
                       and not (rdoc / "module" / f"m{k}.html").exists()]
            if dropped or rr["rc"] != 0:
                # FORD gave up on a whole source file (or the run): one failing input per file; the other
                # pages of this project are no longer comparable with the twin
                for k in dropped or [0]:
                    hs = [h for h in gen.hots if h.mod == k or not dropped]
                    cls = sorted({h.drops_file() for h in hs if h.drops_file()} | gen.drop_tags.get(k, set()))
                    evaluations += 1
                    fid = cls[0] if cls else None
                    fail_hist[fid or "unclassified"] = fail_hist.get(fid or "unclassified", 0) + 1
                    rep.failing_input({"stream": "e2e", "page": f"module/m{k}.html",
                                       "why": "FORD dropped the whole source file: " + (rr["exc"] or "")
                                              + " ".join(l.strip() for l in rr["log"].splitlines() if "rror" in l or "Bad" in l)[:400],
                                       "source_texts": [{"site": h.site, "text": h.text} for h in hs if h.drops_file()],
                                       "options": opts, "files": real}, fid)
                continue
            for rel in pages:
                n_items, n_tags = page_items(ndoc / rel)
                kindname = rel.parts[0]
                page_hist[kindname] = page_hist.get(kindname, 0) + 1
                pids_on_page = [pid for it in n_items for pid in PID_RE.findall(it[1])]
                if not (rdoc / rel).exists():
                    hs = [byid[p] for p in set(pids_on_page) if p in byid] or gen.hots
                    cls = sorted({h.known_class() for h in hs if h.known_class()})
                    evaluations += 1
                    rep.failing_input({"stream": "e2e", "page": str(rel), "why": "page missing (FORD failed: %s)" % (rr["exc"] or rr["log"][-200:]),
                                       "options": opts, "files": real}, cls[0] if cls else None)
                    continue
                # absolute part of the oracle: the twin's rows say what the declarations say
                # (letter case of code is not part of what a Fortran declaration says; that of literals is)
                have = {squeeze(tx, fold=True) for _, tx, _ in n_items}
                have_canon = None
                for pg, row, mode, tags in gen.expect:
                    if pg == str(rel):
                        evaluations += 1
                        want = squeeze(gen.render([row], True).strip("\n"), fold=True)
                        if mode == "canon":
                            if have_canon is None:
                                have_canon = {canon_row(x) for x in have}
                            found = canon_row(want) in have_canon
                        else:
                            found = want in have
                        if not found:
                            near = difflib.get_close_matches(want, list(have), n=1)
                            hs = [byid[p_] for p_ in PID_RE.findall(gen.render([row], True)) if p_ in byid]
                            cls = sorted({h.known_class(twin=True) for h in hs} - {None})
                            # decidable on the input: a function result that is given an attribute by a separate
                            # attribute statement, its type being declared in the body / in the FUNCTION statement
                            if "result-statement-attribute" in tags and "matchResult" in cleanup_steps.get("func", []) and \
                                    cleanup_steps["func"].index("matchResult") < cleanup_steps["func"].index("attribs"):
                                cls = sorted(set(cls) | {"C18-result-attribute-statements-lost"})
                            if "typed-result-statement-attribute" in tags:
                                cls = sorted(set(cls) | {"C18-typed-result-attribute-statements-lost"})
                            if "result-name-recased" in tags:
                                cls = sorted(set(cls) | {"C18-result-clause-invented"})
                            fid = cls[0] if cls else None
                            fail_hist[fid or "twin-row"] = fail_hist.get(fid or "twin-row", 0) + 1
                            rep.failing_input({"stream": "e2e", "page": str(rel), "item": "row of the neutral twin",
                                               "expected_text": want, "observed_text": near[0] if near else None,
                                               "why": "no row/heading of the page says what the declaration says "
                                                      "(type, visibility/intent, optional, parameter, attributes :: name dimension = initial"
                                                      + ("; attributes partly given by separate attribute statements: compared as a set)"
                                                         if mode == "canon" else ")"),
                                               "source_texts": [{"site": h.site, "text": h.neutral} for h in hs],
                                               "options": opts, "files": neutral}, fid)
                r_items, r_tags = page_items(rdoc / rel)
                # align items
                exp_items = [(nm, squeeze(expected_text(tx, byid, low)), tg, PID_RE.findall(tx)) for nm, tx, tg in n_items]
                got_items = [(nm, squeeze(tx), tg) for nm, tx, tg in r_items]
                failing = []  # (expected item, got item or None)
                if len(exp_items) == len(got_items):
                    for e, g in zip(exp_items, got_items):
                        evaluations += 1
                        if (e[0], e[1], e[2]) != g:
                            failing.append((e, g))
                else:
                    sm = difflib.SequenceMatcher(a=[(e[0], e[1], tuple(e[2])) for e in exp_items],
                                                 b=[(g[0], g[1], tuple(g[2])) for g in got_items], autojunk=False)
                    matched = set()
                    for blk in sm.get_matching_blocks():
                        matched.update(range(blk.a, blk.a + blk.size))
                    evaluations += len(exp_items)
                    for i, e in enumerate(exp_items):
                        if i not in matched:
                            failing.append((e, None))
                for e, g in failing:
                    hs = [byid[p] for p in e[3] if p in byid]
                    cls = sorted({h.known_class() for h in hs if h.known_class()})
                    fid = cls[0] if cls else None
                    fail_hist[fid or "unclassified"] = fail_hist.get(fid or "unclassified", 0) + 1
                    rep.failing_input({
                        "stream": "e2e", "page": str(rel), "item": e[0],
                        "source_texts": [{"site": h.site, "text": h.text} for h in hs],
                        "expected_text": e[1], "expected_tags": e[2],
                        "observed_text": g[1] if g else None, "observed_tags": g[2] if g else None,
                        "why": "text content or element skeleton of a declaration row/heading differs from the source text",
                        "options": opts, "files": real}, fid)
                if not failing and r_tags != n_tags:
                    evaluations += 1
                    fail_hist["page-skeleton"] = fail_hist.get("page-skeleton", 0) + 1
                    rep.failing_input({"stream": "e2e", "page": str(rel),
                                       "why": "tag skeleton of the page differs from the neutral twin although all rows agree",
                                       "options": opts, "files": real}, None)
                if len(samples) < 3 and pids_on_page and kindname == "module":
                    samples.append({"page": str(rel), "row_expected": exp_items[min(3, len(exp_items) - 1)][1][:200],
                                    "row_observed": got_items[min(3, len(got_items) - 1)][1][:200] if got_items else None})
    cov.update(e2e_options=dict(sorted(opt_hist.items())), e2e_letter_case=case_hist,
               e2e_site_histogram=dict(sorted(site_hist.items())),
               e2e_attribute_statements=dict(sorted(stmt_hist.items())),
               e2e_known_class_inputs=dict(sorted(class_hist.items())),
               e2e_pages=dict(sorted(page_hist.items())),
               e2e_failing_items=dict(sorted(fail_hist.items())))
    return evaluations, distinct, samples


# --------------------------------------------------------------------------

def run(tier: str, seed: int, replay: str | None = None) -> int:
    from translate import c18 as tr

    rep = Report(PROP, tier, seed)
    table = {}

    def translate():
        sites, auto = tr.translate()
        table["sites"], table["auto"] = len(sites), auto
        table["cleanup"] = dict(tr.CLEANUP)

    lean = lean_prove(PROP, translate=translate, thorough=(tier == "thorough"))
    for b in lean.broken():
        rep.tie_broken("proof: " + b)
    ford = common.import_ford()
    rng = random.Random(seed * 7919 + 18)
    drv = Driver()
    n_micro = 1500 if tier == "quick" else 15000
    n_decl = 1200 if tier == "quick" else 12000
    n_proj = 45 if tier == "quick" else 600
    n_cu = 400 if tier == "quick" else 4000
    auto = table.get("auto", False)
    ev_micro, bad_micro, unsup, micro_hist = micro_streams(ford, drv, rng, n_micro, rep, auto)
    ev_decl, bad_decl, decl_hist, _ = decl_stream(ford, drv, rng, n_decl, rep)
    ev_cu, bad_cu, cu_hist = cleanup_stream(ford, drv, random.Random(seed * 15485863 + 18), n_cu, rep, table.get("cleanup", {}))
    cov: dict = {}
    ev_e2e, distinct, samples = e2e_stream(ford, random.Random(seed * 104729 + 18), n_proj, rep, seed, cov, table.get("cleanup", {}))
    drv.close()
    rep.coverage.update(
        evaluations=ev_micro + ev_decl + ev_cu + ev_e2e,
        distinct_nontrivial=len(distinct),
        rule="e2e: one evaluation per declaration row / heading per page; non-trivial = a hot source text containing one of "
             "< > & \" ' \\ or repeated blanks, distinct by (site, text), or a capital letter in a project built with "
             "`lower: true`, distinct by (site, text), or a declaration (module variable, local, dummy argument, function "
             "result) part of whose attributes is given by separate attribute statements, distinct by (context, attributes)",
        samples=samples,
        traces_validated_against_impl=ev_micro + ev_decl + ev_cu,
        correspondence_disagreements=bad_micro + bad_decl + bad_cu,
        cleanup_histogram=cu_hist,
        variant_interface_entries_accept_attributes=probe_item_attr_tolerant(),
        cleanup_step_order=table.get("cleanup"),
        micro_requests=micro_hist,
        micro_skipped_group_reference=unsup,
        decl_histogram=decl_hist,
        template_sites=table.get("sites"),
        autoescape=auto,
        **cov,
    )
    rep.assumptions += [
        "what a reader sees is approximated by an HTML parse (html.parser / BeautifulSoup); browsers are out of scope",
        "re.sub group references (\\1, \\g<0>) and octal escapes in undoubled templates are not modelled (skipped, counted)",
        "fixed-form sources, continuation lines inside literals and preprocessing are outside this property's streams",
        "rows of entities that receive attributes from separate attribute statements are compared as type + set of attributes "
        "(no single source statement gives their order); `dimension(X)`, `allocatable(X)` / `pointer(X)` and `name(X)` are read as the "
        "same shape; array specs of DIMENSION / ALLOCATABLE / POINTER statements are generated lower-case and without character "
        "literals (FORD stores them lower-cased whatever the option `lower` says)",
        "letter case: sources are ASCII; code is compared case-insensitively in the absolute part of the oracle (Fortran is "
        "case-insensitive), character literals exactly; with `lower: true` the expected code is the source's lower-cased",
    ]
    return rep.finish(lean)
