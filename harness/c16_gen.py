"""Generator of pairs of abstract Fortran projects for C16.

  A = gen_a(rng)          exported project: modules with public/private types, procedures,
                          generic + abstract interfaces, variables; re-export through USE
  B = gen_b(rng, A, ...)  project built against A: uses / extends / declares / [[refers to]] A's
                          public entities, with name clashes (B's own entity must win)
  render_a / render_b     Fortran sources with surface-spelling choices
  expected_export(A)      what modules.json must list (defined from Fortran's accessibility rules)
  B["expect"]             links that must appear on B's pages and where they must lead

Everything random comes from the rng passed in.  Every entity carries a unique tracer word in its
documentation (`trA<n>q` / `trB<n>q`), so "the page documents that entity" is decidable on the HTML.
"""
from __future__ import annotations

import random


class Ctr:
    def __init__(self, prefix):
        self.n = 0
        self.prefix = prefix

    def tracer(self):
        self.n += 1
        return f"tr{self.prefix}{self.n}q"


def spell(rng, name):
    """Fortran is case-insensitive: spell a reference differently from the declaration."""
    r = rng.random()
    if r < 0.6:
        return name
    if r < 0.8:
        return name.upper()
    return name.capitalize()


# --------------------------------------------------------------------------- project A

def respell(rng, name):
    """the same identifier, possibly in another case (declarations of *different* entities)"""
    return rng.choice([name, name, name.lower(), name.capitalize()])


def coincidences(rng, m, earlier, nm, acc, default, ctr):
    """Same identifier for entities of different kinds - all of it ordinary, legal Fortran:
      * a generic interface named like a derived type of the module (user-defined constructor);
      * a module function / variable named like a component or a binding of a type (type scope);
      * `procedure :: s` - a binding named like the module subroutine it binds to;
      * a private function named like a public function / component of an earlier, unrelated module.
    Each entity keeps its own tracer, so which one a page or a description talks about stays decidable."""
    m["coincide"] = []
    for t in m["types"]:
        if rng.random() < 0.35:
            f = {"name": nm("fun"), "acc": "private" if rng.random() < 0.5 else acc(default), "tracer": ctr.tracer(),
                 "returns": t["name"]}
            m["funcs"].append(f)
            # one identifier: the accessibility of the generic name is that of the type name
            t["ctor"] = True
            m["generics"].append({"name": respell(rng, t["name"]), "acc": t["acc"], "tracer": ctr.tracer(),
                                  "procs": [f["name"]], "ctor_of": t["name"]})
            m["coincide"].append("constructor")
    members = [(t, c, "comp") for t in m["types"] for c in t["comps"]] + \
              [(t, b, "bound") for t in m["types"] for b in t["bound"]]
    taken = set()
    for t, e, k in members:
        if e["name"].lower() in taken:
            continue
        r = rng.random()
        if r < 0.2:
            m["funcs"].append({"name": respell(rng, e["name"]), "acc": acc(default), "tracer": ctr.tracer()})
            m["coincide"].append(f"function~{k}")
            taken.add(e["name"].lower())
        elif r < 0.35:
            m["vars"].append({"name": respell(rng, e["name"]), "acc": acc(default), "tracer": ctr.tracer()})
            m["coincide"].append(f"variable~{k}")
            taken.add(e["name"].lower())
    for t in m["types"]:
        for b in t["bound"]:
            if b["name"].lower() not in taken and rng.random() < 0.3:
                # `procedure :: target`: the binding has the name of the module procedure
                b["name"] = b["target"]
                m["coincide"].append("binding~subroutine")
    if earlier and not m["uses"] and rng.random() < 0.25:
        em = rng.choice(earlier)
        names = [f["name"] for f in em["funcs"] if not f.get("returns")] + [c["name"] for t in em["types"] for c in t["comps"]]
        own = {e["name"].lower() for lst in ("types", "funcs", "subs", "generics", "absints", "vars") for e in m[lst]}
        names = [n for n in names if n.lower() not in own]
        if names:
            m["funcs"].append({"name": respell(rng, rng.choice(names)), "acc": "private", "tracer": ctr.tracer()})
            m["coincide"].append("private function~other module")


def gen_a(rng: random.Random, size: int = 2, coincide: bool = True) -> dict:
    ctr = Ctr("A")
    nmod = rng.randint(1, 1 + size)
    mods = []
    idx = 0

    def nm(kind):
        nonlocal idx
        idx += 1
        base = f"a{kind}{idx}"
        return base if rng.random() < 0.75 else base.capitalize()

    def acc(default):
        r = rng.random()
        if r < 0.45:
            return None
        return "public" if r < 0.75 else "private"

    for mi in range(nmod):
        default = rng.choice(["public", "public", "private"])
        m = {"name": nm("mod"), "default": default, "tracer": ctr.tracer(), "uses": [], "reexport": [],
             "types": [], "funcs": [], "subs": [], "generics": [], "absints": [], "vars": [],
             "acc_style": rng.choice(["attr", "stmt"])}
        if mods and rng.random() < 0.5:
            m["uses"] = [rng.choice(mods)["name"]]
        for _ in range(rng.randint(0, 2)):
            t = {"name": nm("typ"), "acc": acc(default), "tracer": ctr.tracer(), "comps": [], "bound": [],
                 "extends": None}
            for _ in range(rng.randint(0, 2)):
                t["comps"].append({"name": nm("cmp"), "tracer": ctr.tracer(),
                                   "acc": rng.choice([None, None, "private"])})
            m["types"].append(t)
        for t in m["types"][1:]:
            if rng.random() < 0.4:
                t["extends"] = m["types"][0]["name"]
        for _ in range(rng.randint(0, 2)):
            m["funcs"].append({"name": nm("fun"), "acc": acc(default), "tracer": ctr.tracer()})
        for _ in range(rng.randint(0, 2)):
            m["subs"].append({"name": nm("sub"), "acc": acc(default), "tracer": ctr.tracer()})
        # type-bound procedures bind to subroutines of the module taking the type as first argument
        for t in m["types"]:
            if rng.random() < 0.5:
                target = {"name": nm("sub"), "acc": "private" if rng.random() < 0.5 else acc(default),
                          "tracer": ctr.tracer(), "self": t["name"]}
                m["subs"].append(target)
                t["bound"].append({"name": nm("bnd"), "target": target["name"], "tracer": ctr.tracer()})
        if len(m["funcs"]) >= 1 and rng.random() < 0.6:
            m["generics"].append({"name": nm("gen"), "acc": acc(default), "tracer": ctr.tracer(),
                                  "procs": [f["name"] for f in m["funcs"][:2]]})
        if rng.random() < 0.5:
            m["absints"].append({"name": nm("abs"), "acc": acc(default), "tracer": ctr.tracer()})
        for _ in range(rng.randint(0, 2)):
            m["vars"].append({"name": nm("var"), "acc": acc(default), "tracer": ctr.tracer()})
        if coincide:
            coincidences(rng, m, mods, nm, acc, default, ctr)
        mods.append(m)
    A = {"modules": mods, "has_program": rng.random() < 0.3, "prog_tracer": ctr.tracer()}
    for m in mods:
        m["renames"] = []
    for m in mods:
        # renamed re-export: `use U, only: new => old` (the exported name differs from the entity's)
        if m["uses"] and rng.random() < 0.45:
            up = public_names(A, m["uses"][0])
            olds = sorted(up["types"]) if (up["types"] and rng.random() < 0.8) else sorted(up["types"]) + sorted(up["procs"])
            if olds:
                old = rng.choice(olds)
                m["renames"] = [(nm("ren").lower(), old)]
        # re-export of imported names from a private-by-default module: list some of them as public
        if m["uses"] and m["default"] == "private":
            imp = sorted(n for k in KINDS for n in imported_names(A, m)[k])
            m["reexport"] = [n for n in imp if rng.random() < (0.8 if m["renames"] else 0.4)]
    return A


KINDS = ("procs", "absints", "types", "vars")


def module_of(A, name):
    return next(m for m in A["modules"] if m["name"].lower() == name.lower())


def is_public(m, e):
    return e["acc"] == "public" or (e["acc"] is None and m["default"] == "public")


def own_public(m):
    return {
        "procs": {e["name"].lower() for e in m["funcs"] + m["subs"] + m["generics"] if is_public(m, e)},
        "absints": {e["name"].lower() for e in m["absints"] if is_public(m, e)},
        "types": {e["name"].lower() for e in m["types"] if is_public(m, e)},
        "vars": {e["name"].lower() for e in m["vars"] if is_public(m, e)},
    }


def imported_names(A, m) -> dict:
    """names use-associated into module m, by kind (local names: renames applied)"""
    out = {k: set() for k in KINDS}
    for u in m["uses"]:
        imp = public_names(A, u)
        if m.get("renames"):
            for new, old in m["renames"]:
                for k in KINDS:
                    if old in imp[k]:
                        out[k].add(new)
        else:
            for k in KINDS:
                out[k] |= imp[k]
    return out


def public_names(A, modname) -> dict:
    """Names accessible from outside through `use modname` (Fortran rules: own public entities plus
    use-associated ones that are public here)."""
    m = module_of(A, modname)
    out = own_public(m)
    imp = imported_names(A, m)
    for k in KINDS:
        for n in imp[k]:
            if m["default"] == "public" or n in {x.lower() for x in m["reexport"]}:
                out[k].add(n)
    return out


def origin(A, modname) -> dict:
    """exported name of `modname` -> lower-cased name of the entity it denotes"""
    m = module_of(A, modname)
    out = {}
    for k, names in own_public(m).items():
        for n in names:
            out[n] = n
    pub = public_names(A, modname)
    for u in m["uses"]:
        uo = origin(A, u)
        if m.get("renames"):
            for new, old in m["renames"]:
                if old in uo:
                    out.setdefault(new, uo[old])
        else:
            for n, o in uo.items():
                out.setdefault(n, o)
    allpub = {n for k in KINDS for n in pub[k]}
    return {n: o for n, o in out.items() if n in allpub}


def expected_export(A) -> dict:
    return {m["name"].lower(): dict({k: sorted(v) for k, v in public_names(A, m["name"]).items()},
                                    origin=origin(A, m["name"]))
            for m in A["modules"]}


def a_entities(A):
    """All documented entities of A: (kind, module, entity dict, public?)"""
    out = []
    for m in A["modules"]:
        out.append(("module", m, m, True))
        for k, lst in (("type", "types"), ("func", "funcs"), ("sub", "subs"), ("generic", "generics"),
                       ("absint", "absints"), ("var", "vars")):
            for e in m[lst]:
                out.append((k, m, e, is_public(m, e)))
        for t in m["types"]:
            for c in t["comps"]:
                out.append(("comp", m, c, is_public(m, t) and c["acc"] != "private"))
            for b in t["bound"]:
                out.append(("bound", m, b, is_public(m, t)))
    return out


def render_a(A, rng) -> dict:
    files = {}
    chunks = []
    for m in A["modules"]:
        L = [f"module {m['name']}", f"  !! {m['tracer']} module doc"]
        for u in m["uses"]:
            if m.get("renames"):
                L.append(f"  use {spell(rng, u)}, only: " + ", ".join(f"{n} => {spell(rng, o)}" for n, o in m["renames"]))
            else:
                L.append(f"  use {spell(rng, u)}")
        L.append("  implicit none")
        if m["default"] == "private":
            L.append("  private")
        elif rng.random() < 0.3:
            L.append("  public")
        stmts = []

        def access(e, allow_attr):
            """returns attribute text; queues a statement when the statement form is used"""
            if e["acc"] is None:
                return ""
            if allow_attr and m["acc_style"] == "attr":
                return f", {e['acc']}"
            stmts.append(f"  {e['acc']} :: {spell(rng, e['name'])}")
            return ""

        if m["reexport"]:
            L.append("  public :: " + ", ".join(m["reexport"]))
        body = []
        for v in m["vars"]:
            a = access(v, True)
            body += [f"  integer{a} :: {v['name']} = 1", f"    !! {v['tracer']} variable doc"]
        for t in m["types"]:
            a = access(t, not t.get("ctor"))
            ext = f", extends({spell(rng, t['extends'])})" if t["extends"] else ""
            body += [f"  type{a}{ext} :: {t['name']}", f"    !! {t['tracer']} type doc"]
            for c in t["comps"]:
                ca = ", private" if c["acc"] == "private" else ""
                body += [f"    real{ca} :: {c['name']}", f"      !! {c['tracer']} component doc"]
            if t["bound"]:
                body.append("  contains")
                for b in t["bound"]:
                    bind = b["name"] if b["name"] == b["target"] else f"{b['name']} => {b['target']}"
                    body += [f"    procedure :: {bind}", f"      !! {b['tracer']} binding doc"]
            body.append(f"  end type {t['name']}")
        for g in m["generics"]:
            if not g.get("ctor_of"):      # a constructor shares the identifier (and its accessibility) with the type
                access(g, False)
            body += [f"  interface {g['name']}", f"    !! {g['tracer']} generic doc",
                     "    module procedure " + ", ".join(g["procs"]), "  end interface"]
        for ai in m["absints"]:
            access(ai, False)
            body += ["  abstract interface", f"    subroutine {ai['name']}(x)", f"      !! {ai['tracer']} absint doc",
                     "      integer, intent(in) :: x", f"    end subroutine {ai['name']}", "  end interface"]
        procs = []
        for k, f in enumerate(m["funcs"]):
            access(f, False)
            argt = "integer" if k % 2 == 0 else "real"
            if f.get("returns"):
                procs += [f"  function {f['name']}(x) result(r)", f"    !! {f['tracer']} function doc",
                          f"    {argt}, intent(in) :: x", f"    type({f['returns']}) :: r", f"  end function {f['name']}"]
                continue
            procs += [f"  function {f['name']}(x) result(r)", f"    !! {f['tracer']} function doc",
                      f"    {argt}, intent(in) :: x", f"    {argt} :: r", "    r = x", f"  end function {f['name']}"]
        for s in m["subs"]:
            access(s, False)
            if s.get("self"):
                procs += [f"  subroutine {s['name']}(self)", f"    !! {s['tracer']} subroutine doc",
                          f"    class({s['self']}), intent(inout) :: self", f"  end subroutine {s['name']}"]
            else:
                procs += [f"  subroutine {s['name']}(y)", f"    !! {s['tracer']} subroutine doc",
                          "    integer, intent(inout) :: y", "    y = y + 1", f"  end subroutine {s['name']}"]
        L += stmts + body
        if procs:
            L += ["contains"] + procs
        L.append(f"end module {m['name']}")
        chunks.append((m["name"], L))
    # file layout: one file per module or all in one
    if rng.random() < 0.5:
        for name, L in chunks:
            files[f"{name.lower()}.f90"] = "\n".join(L) + "\n"
    else:
        files["a_all.f90"] = "\n".join("\n".join(L) for _, L in chunks) + "\n"
    if A["has_program"]:
        m0 = A["modules"][0]
        files["a_main.f90"] = (f"program a_main\n  !! {A['prog_tracer']} program doc\n  use {m0['name']}\n"
                               "  implicit none\nend program a_main\n")
    return files


# --------------------------------------------------------------------------- project B

def gen_b(rng: random.Random, A: dict, links_ok: bool = True, clashes: bool = True, indirect: bool = True,
          doc_only: bool = True, iface_use: bool = True) -> dict:
    """links_ok: include [[...]] references to A's entities."""
    ctr = Ctr("B")
    expect = []   # {"page": (dir, name), "text": name, "target": ("A"|"B", tracer), "why": ...}
    bmods = []
    idx = 0

    def nm(kind):
        nonlocal idx
        idx += 1
        return f"b{kind}{idx}"

    amods = A["modules"]
    # ---- optional clash module: B's own module named like one of A's
    clash_mod = None
    if clashes and rng.random() < 0.35:
        am = rng.choice(amods)
        clash_mod = {"name": am["name"].lower() if rng.random() < 0.5 else am["name"].upper(), "tracer": ctr.tracer(),
                     "uses": [], "types": [], "vars": [], "subs": [], "refs": [], "clash_of": am["name"]}
        clash_mod["vars"].append({"name": nm("var"), "type": None, "tracer": ctr.tracer()})
        bmods.append(clash_mod)
    # ---- optional kind clashes in a module that does not use A at all
    if clashes and rng.random() < 0.5:
        cm = {"name": nm("mod"), "tracer": ctr.tracer(), "uses": [], "types": [], "vars": [], "subs": [], "refs": []}
        far_refs = []
        pubs = [(k, m, e) for k, m, e, p in a_entities(A) if p and k in ("type", "sub", "func")]
        if pubs:
            k, m, e = rng.choice(pubs)
            if k == "type":
                t = {"name": e["name"].lower(), "tracer": ctr.tracer(), "extends": None, "comps": [], "clash": True}
                cm["types"].append(t)
                v = {"name": nm("var"), "type": t["name"], "tracer": ctr.tracer()}
                cm["vars"].append(v)
                expect.append({"page": ("module", cm["name"]), "text": t["name"], "target": ("B", t["tracer"]),
                               "why": "local type named like an external type"})
                if links_ok:
                    cm["refs"].append(f"[[{t['name']}]]")
                    far_refs.append((t, "local type named like an external type (from another module)"))
            else:
                s = {"name": e["name"].lower(), "tracer": ctr.tracer(), "args": [], "refs": [], "clash": True}
                cm["subs"].append(s)
                if links_ok:
                    cm["refs"].append(f"[[{s['name']}]]")
                    expect.append({"page": ("module", cm["name"]), "text": s["name"], "target": ("B", s["tracer"]),
                                   "why": "local procedure named like an external procedure"})
                    far_refs.append((s, "local procedure named like an external procedure (from another module)"))
        # cross-kind: a local subroutine named like one of A's public types / modules
        cross = [(k, m, e) for k, m, e, p in a_entities(A) if p and k in ("type", "module")
                 and not (clash_mod and k == "module" and e["name"].lower() == clash_mod["name"].lower())
                 and e["name"].lower() not in {x["name"] for x in cm["types"] + cm["subs"]}]
        if cross and links_ok and rng.random() < 0.5:
            k, m, e = rng.choice(cross)
            s = {"name": e["name"].lower(), "tracer": ctr.tracer(), "args": [], "refs": [], "clash": True}
            cm["subs"].append(s)
            # referred to from another module of B (inside `cm` the context lookup finds it first)
            xm = {"name": nm("mod"), "tracer": ctr.tracer(), "uses": [], "types": [], "subs": [],
                  "vars": [{"name": nm("var"), "type": None, "tracer": ctr.tracer()}], "refs": [f"[[{s['name']}]]"]}
            expect.append({"page": ("module", xm["name"]), "text": s["name"], "target": ("B", s["tracer"]),
                           "why": "cross-kind", "cross_kind": True})
            bmods.append(xm)
        if far_refs:
            fm = {"name": nm("mod"), "tracer": ctr.tracer(), "uses": [], "types": [], "subs": [],
                  "vars": [{"name": nm("var"), "type": None, "tracer": ctr.tracer()}],
                  "refs": [f"[[{e['name']}]]" for e, _ in far_refs]}
            for e, why in far_refs:
                expect.append({"page": ("module", fm["name"]), "text": e["name"], "target": ("B", e["tracer"]), "why": why})
            bmods.append(fm)
        if cm["types"] or cm["subs"]:
            bmods.append(cm)
    # ---- prelude modules: B's own modules that use A and pass its entities on (the usual "kinds" / "prelude"
    #      pattern); other modules of B then get A's entities *indirectly*, through one or two modules of B
    def a_source(am):
        """what `use <module of A>` makes accessible: exported name -> entity of A, per class of names"""
        pn = public_names(A, am["name"])
        org = origin(A, am["name"])
        return {"name": am["name"], "tracer": am["tracer"], "side": "A", "via": 0,
                "exposes": {k: {n: find_entity(A, org[n], k) for n in pn[k]} for k in KINDS},
                "alias": {n: org[n] for k in KINDS for n in pn[k] if org[n] != n}}

    free_amods = [m for m in amods if not (clash_mod and m["name"].lower() == clash_mod["name"].lower())]
    preludes = []
    if indirect and free_amods and rng.random() < 0.6:
        for level in range(2 if rng.random() < 0.35 else 1):
            pm = {"name": nm("pre"), "tracer": ctr.tracer(), "uses": [], "types": [], "subs": [], "refs": [],
                  "vars": [{"name": nm("var"), "type": None, "tracer": ctr.tracer()}], "prelude": True,
                  "default": rng.choice(["public", "public", "private"]), "public_stmt": rng.random() < 0.3,
                  "public_list": []}
            page = ("module", pm["name"])
            got = {k: {} for k in KINDS}
            palias = {}
            srcs = [preludes[-1]] if level else [a_source(m) for m in rng.sample(free_amods, min(len(free_amods), rng.randint(1, 2)))]
            for src in srcs:
                names = sorted(n for k in KINDS for n in src["exposes"][k])
                only = None
                if names and rng.random() < 0.3:
                    only = sorted(rng.sample(names, rng.randint(1, min(4, len(names)))))
                pm["uses"].append({"mod": src["name"], "only": only})
                expect.append({"page": page, "text": src["name"], "target": (src["side"], src["tracer"]),
                               "why": "use" if src["side"] == "A" else "use of a prelude module of B"})
                for k in KINDS:
                    for n, e in src["exposes"][k].items():
                        if only is None or n in only:
                            got[k][n] = e
                            if n in src["alias"]:
                                palias[n] = src["alias"][n]
            if pm["default"] == "private":
                # only what a PUBLIC statement names is passed on
                names = sorted(n for k in KINDS for n in got[k])
                pm["public_list"] = [n for n in names if rng.random() < 0.7] or names[:1]
                got = {k: {n: e for n, e in got[k].items() if n in pm["public_list"]} for k in KINDS}
            bmods.append(pm)
            preludes.append({"name": pm["name"], "tracer": pm["tracer"], "side": "B", "via": level + 1, "exposes": got,
                             "alias": {n: o for n, o in palias.items() if any(n in got[k] for k in KINDS)}})
    # ---- ordinary modules using A (directly, or through a prelude module of B)
    for _ in range(rng.randint(1, 2)):
        bm = {"name": nm("mod"), "tracer": ctr.tracer(), "uses": [], "types": [], "vars": [], "subs": [], "refs": []}
        page = ("module", bm["name"])
        usable = [("A", m) for m in amods]
        rng.shuffle(usable)
        usable = usable[: rng.randint(1, 2)]
        if preludes and rng.random() < 0.75:
            # (the deepest prelude first: A's entities arrive through as many modules of B as there are)
            usable = [("B", preludes[-1] if rng.random() < 0.7 else rng.choice(preludes))] + usable[: rng.randint(0, 1)]
        visible = {k: {} for k in KINDS}       # lower name -> entity of A reachable here
        alias = {}                             # exported (renamed) name -> entity name
        how = {}                               # name -> number of modules of B it came through
        for side_, am in usable:
            is_clash = side_ == "A" and clash_mod is not None and am["name"].lower() == clash_mod["name"].lower()
            if is_clash:
                bm["uses"].append({"mod": am["name"], "only": None})
                expect.append({"page": page, "text": clash_mod["name"], "target": ("B", clash_mod["tracer"]),
                               "why": "use of a module name defined in both"})
                continue
            src = a_source(am) if side_ == "A" else am
            only = None
            allnames = sorted(n for k in KINDS for n in src["exposes"][k])
            if allnames and rng.random() < 0.3:
                only = sorted(rng.sample(allnames, rng.randint(1, min(3, len(allnames)))))
            bm["uses"].append({"mod": src["name"], "only": only})
            expect.append({"page": page, "text": src["name"], "target": (src["side"], src["tracer"]),
                           "why": "use" if side_ == "A" else "use of a prelude module of B"})
            for k in KINDS:
                for n, e in src["exposes"][k].items():
                    if only is None or n in only:
                        visible[k][n] = e
                        how[n] = min(how.get(n, src["via"]), src["via"])
                        if n in src["alias"]:
                            alias[n] = src["alias"][n]
        bm["indirect"] = sorted(n for n, v in how.items() if v)

        def via(n):
            return f" (through {how[n]} module{'s' if how[n] > 1 else ''} of B)" if how.get(n) else ""
        # names B defines itself (clash scenarios) are not referred to as A's from other modules:
        # which of the two a reader would expect there is not what this property is about
        taken = {x["name"].lower() for mm in bmods for x in mm["types"] + mm["subs"]}
        for k in KINDS:
            for n in list(visible[k]):
                if n in taken:
                    del visible[k][n]
        vtypes = sorted(visible["types"])
        vprocs = sorted(visible["procs"])
        vvars = sorted(visible["vars"])
        vabs = sorted(visible["absints"])
        # variables of A's types
        for tn in vtypes[:2]:
            if rng.random() < 0.7:
                v = {"name": nm("var"), "type": spell(rng, tn), "tracer": ctr.tracer()}
                bm["vars"].append(v)
                expect.append({"page": page, "text": tn, "alt": alias.get(tn), "target": ("A", visible["types"][tn]["tracer"]),
                               "why": "variable of external type" + via(tn)})
        if vabs and rng.random() < 0.6:
            an = vabs[0]
            bm["vars"].append({"name": nm("var"), "procptr": spell(rng, an), "tracer": ctr.tracer()})
            expect.append({"page": page, "text": an, "target": ("A", visible["absints"][an]["tracer"]),
                           "why": "procedure pointer with external abstract interface" + via(an)})
        # extension of an external type
        if vtypes and rng.random() < 0.7:
            tn = rng.choice(vtypes)
            t = {"name": nm("typ"), "tracer": ctr.tracer(), "extends": spell(rng, tn), "comps": []}
            if len(vtypes) > 1 and rng.random() < 0.5:
                cn = rng.choice(vtypes)
                t["comps"].append({"name": nm("cmp"), "type": cn, "tracer": ctr.tracer()})
                expect.append({"page": ("type", t["name"]), "text": cn, "alt": alias.get(cn), "target": ("A", visible["types"][cn]["tracer"]),
                               "why": "component of external type" + via(cn)})
            bm["types"].append(t)
            expect.append({"page": ("type", t["name"]), "text": tn, "alt": alias.get(tn), "target": ("A", visible["types"][tn]["tracer"]),
                           "why": "extends external type" + via(tn)})
        # a subroutine with arguments of external types, calling external procedures
        s = {"name": nm("sub"), "tracer": ctr.tracer(), "args": [], "calls": [], "refs": []}
        for tn in vtypes[:1]:
            s["args"].append({"name": nm("arg"), "type": spell(rng, tn)})
            expect.append({"page": ("proc", s["name"]), "text": tn, "alt": alias.get(tn), "target": ("A", visible["types"][tn]["tracer"]),
                           "why": "argument of external type" + via(tn)})
        # calls of A's procedures (the statement's "calls"): a subroutine, a function reference, a generic
        # name, a type-bound procedure through the argument of A's type - visible in B's call graphs only
        arg0 = s["args"][0] if s["args"] else None
        arg0_type = visible["types"][vtypes[0]] if arg0 else None
        for pn_ in vprocs:
            if len(s["calls"]) >= 3:
                break
            e = visible["procs"][pn_]
            c = call_of(A, e, spell(rng, pn_), arg0, arg0_type)
            # (one call per identifier and scope: FORD registers the calls of a procedure by their last name, so of
            # `x = f(x)` and `call obj%f()` only the first is kept - a matter of the call graph, not of this property)
            if c is None or (arg0_type is not None and pn_ in {b["name"].lower() for b in arg0_type["bound"][:2]}):
                continue
            s["calls"].append(c)
            expect.append({"page": ("proc", s["name"]), "text": pn_, "alt": alias.get(pn_), "target": ("A", e["tracer"]),
                           "why": "call of external " + c["kind"] + via(pn_), "graph": True})
        if arg0_type is not None:
            for b in arg0_type["bound"][:2]:
                s["calls"].append({"kind": "binding", "stmt": f"call {arg0['name']}%{spell(rng, b['name'])}()"})
                expect.append({"page": ("proc", s["name"]), "text": b["name"], "target": ("A", b["tracer"]),
                               "why": "call of external type-bound procedure", "graph": True})
        if rng.random() < 0.5 and amods:
            # procedure-level use
            am = rng.choice([m for m in amods if not (clash_mod and m["name"].lower() == clash_mod["name"].lower())] or amods)
            if not (clash_mod and am["name"].lower() == clash_mod["name"].lower()):
                s["use"] = am["name"]
                expect.append({"page": ("proc", s["name"]), "text": am["name"], "target": ("A", am["tracer"]),
                               "why": "use in procedure"})
        bm["subs"].append(s)
        # an interface body (an external procedure of B described in the module) with its own USE of a module of A
        if iface_use and free_amods and rng.random() < 0.35:
            am = rng.choice(free_amods)
            src = a_source(am)
            tns = [n for n in sorted(src["exposes"]["types"]) if n not in taken]
            ifc = {"name": nm("ifc"), "tracer": ctr.tracer(), "use": am["name"], "argtype": rng.choice(tns) if tns else None}
            bm.setdefault("ifaces", []).append(ifc)
            # (FORD's page of an interface shows no list of used modules - nothing to observe for the USE itself;
            #  what it makes accessible is observable: the type of the dummy argument)
            if ifc["argtype"]:
                tn = ifc["argtype"]
                expect.append({"page": ("interface", ifc["name"]), "text": tn, "alt": src["alias"].get(tn),
                               "target": ("A", src["exposes"]["types"][tn]["tracer"]),
                               "why": "argument of external type (interface body)"})
        # [[...]] references in the module's documentation
        if links_ok:
            pre_names = {p_["name"].lower() for p_ in preludes}
            cands = []
            for u in bm["uses"]:
                if clash_mod and u["mod"].lower() == clash_mod["name"].lower():
                    continue
                if u["mod"].lower() in pre_names:
                    continue
                am = module_of(A, u["mod"])
                cands.append((f"[[{spell(rng, am['name'])}]]", am["name"], am["tracer"], "link to module"))
            # identifiers that name more than one entity of A (constructor, component / binding vs module
            # entity ...): references to them come first, each must reach the entity of the kind referred to
            count = shared_count(A)
            cands += entity_refs(rng, A, {tn: visible["types"][tn] for tn in vtypes if tn not in alias},
                                 {p: visible["procs"][p] for p in vprocs if p not in alias},
                                 {vn: visible["vars"][vn] for vn in vvars}, clash_mod)
            local_names = {x["name"].lower() for mm in bmods for x in mm["types"] + mm["subs"] + [mm]}
            rng.shuffle(cands)
            cands.sort(key=lambda c: count.get(c[1].lower(), 0) < 2)      # stable: shared identifiers first
            for text, name, tracer, why in cands[:5]:
                if name.lower() in local_names:
                    continue   # B defines the same name itself: covered by the clash expectations
                bm["refs"].append(text)
                expect.append({"page": page, "text": name, "target": ("A", tracer), "ford_link": True,
                               "why": why + (" (identifier shared by several entities of A)" if count.get(name.lower(), 0) > 1 else "")})
        bmods.append(bm)
    # ---- a main program of B that uses a module of A and calls its procedures
    program = None
    free = [m for m in amods if not (clash_mod and m["name"].lower() == clash_mod["name"].lower())]
    if free and rng.random() < 0.5:
        am = rng.choice(free)
        program = {"name": nm("prog"), "tracer": ctr.tracer(), "use": spell(rng, am["name"]), "calls": []}
        ppage = ("program", program["name"])
        expect.append({"page": ppage, "text": am["name"], "target": ("A", am["tracer"]), "why": "use in program"})
        taken = {x["name"].lower() for mm in bmods for x in mm["types"] + mm["subs"]}
        org = origin(A, am["name"])
        for n in sorted(public_names(A, am["name"])["procs"]):
            if n in taken or len(program["calls"]) >= 2:
                continue
            e = find_entity(A, org[n], "procs")
            c = call_of(A, e, spell(rng, n), None, None)
            if c is None:
                continue
            program["calls"].append(c)
            expect.append({"page": ppage, "text": n, "alt": org[n] if org[n] != n else None, "target": ("A", e["tracer"]),
                           "why": "call of external " + c["kind"] + " (program)", "graph": True})
    # ---- B's documentation points the reader to parts of A that B's code does not build on: `[[...]]` references,
    #      from a module that uses nothing, to modules of A that no USE statement of B names (and to what is in
    #      them), and to others.  The statement: "every public entity of A that B ... names in a [[...]] reference".
    if doc_only and links_ok and free:
        used = {u["mod"].lower() for mm in bmods for u in mm["uses"]} | \
               {s_["use"].lower() for mm in bmods for s_ in mm["subs"] if s_.get("use")} | \
               {i_["use"].lower() for mm in bmods for i_ in mm.get("ifaces", [])} | \
               ({program["use"].lower()} if program else set())
        unused = [m for m in free if m["name"].lower() not in used]
        dm = {"name": nm("doc"), "tracer": ctr.tracer(), "uses": [], "types": [], "subs": [], "refs": [],
              "vars": [{"name": nm("var"), "type": None, "tracer": ctr.tracer()}], "doc_only": True}
        local_names = {x["name"].lower() for mm in bmods for x in mm["types"] + mm["subs"] + [mm]}
        count = shared_count(A)
        # (names B defines itself - the clash scenarios - are not referred to as A's: see above)
        picked = [m for m in (unused if unused else []) + [m for m in free if m not in unused][: 0 if unused else 1]
                  if m["name"].lower() not in local_names]
        for am in picked[:2]:
            tag = "unused module of A" if am in unused else "from a module of B that uses nothing"
            cands = [(f"[[{spell(rng, am['name'])}]]", am["name"], am["tracer"], "link to module")]
            cands += entity_refs(rng, A, {t["name"].lower(): t for t in am["types"]
                                          if is_public(am, t) and t["name"].lower() not in local_names},
                                 {e["name"].lower(): e for e in am["funcs"] + am["subs"] + am["generics"] if is_public(am, e)},
                                 {v["name"].lower(): v for v in am["vars"] if is_public(am, v)}, clash_mod)
            head, rest = cands[:1], cands[1:]
            rng.shuffle(rest)
            for text, name, tracer, why in head + rest[:4]:
                if name.lower() in local_names or any(ex_["text"].lower() == name.lower() and ex_["page"] == ("module", dm["name"])
                                                      for ex_ in expect):
                    continue
                dm["refs"].append(text)
                expect.append({"page": ("module", dm["name"]), "text": name, "target": ("A", tracer), "ford_link": True,
                               "why": f"{why} ({tag})" + (" (identifier shared by several entities of A)"
                                                          if count.get(name.lower(), 0) > 1 else "")})
        if dm["refs"]:
            bmods.append(dm)
    return {"modules": bmods, "expect": expect, "has_clash_module": clash_mod is not None, "program": program}


def shared_count(A) -> dict:
    """lower-cased identifier -> number of documented entities of A that carry it"""
    count = {}
    for k_, m_, e_, p_ in a_entities(A):
        count[e_["name"].lower()] = count.get(e_["name"].lower(), 0) + 1
    return count


def entity_refs(rng, A, types: dict, procs: dict, variables: dict, clash_mod) -> list:
    """`[[...]]` references to public entities of A, in the documented forms: `[[type]]`, `[[type:component]]`,
    `[[type:binding]]`, `[[procedure]]`, `[[module:variable]]` -> (text, name linked, tracer, why)"""
    cands = []
    for tn in sorted(types):
        e = types[tn]
        cands.append((f"[[{spell(rng, tn)}]]", tn, e["tracer"], "link to type"))
        for c in e["comps"]:
            if c["acc"] != "private":
                cands.append((f"[[{tn}:{c['name']}]]", c["name"], c["tracer"], "link to component"))
        for b in e["bound"]:
            cands.append((f"[[{tn}:{b['name']}]]", b["name"], b["tracer"], "link to binding"))
    for p in sorted(procs):
        e = procs[p]
        if e.get("ctor_of"):
            continue      # unqualified, the identifier means the type (asked for above)
        cands.append((f"[[{spell(rng, p)}]]", p, e["tracer"], "link to procedure"))
    for vn in sorted(variables):
        e = variables[vn]
        own = owner_module(A, vn)
        if own is not None and not (clash_mod and own["name"].lower() == clash_mod["name"].lower()):
            cands.append((f"[[{own['name']}:{vn}]]", vn, e["tracer"], "link to module variable"))
    return cands


def call_of(A, e, spelled, arg0, arg0_type):
    """a statement of valid Fortran that calls / references the procedure `e` of A under the name `spelled`
    (None: no simple call fits - a constructor, a procedure taking a type the caller has no object of)"""
    for m in A["modules"]:
        for i, f in enumerate(m["funcs"]):
            if f is e:
                if f.get("returns"):
                    return None
                v = "k" if i % 2 == 0 else "x"
                return {"kind": "function", "stmt": f"{v} = {spelled}({v})"}
        for s_ in m["subs"]:
            if s_ is e:
                if s_.get("self"):
                    if arg0 is None or arg0_type is None or arg0_type["name"].lower() != s_["self"].lower():
                        return None
                    return {"kind": "subroutine", "stmt": f"call {spelled}({arg0['name']})"}
                return {"kind": "subroutine", "stmt": f"call {spelled}(k)"}
        for g in m["generics"]:
            if g is e:
                if g.get("ctor_of"):
                    return None
                return {"kind": "generic", "stmt": f"k = {spelled}(k)"}
    return None


CLASS_KINDS = {"procs": ("func", "sub", "generic"), "absints": ("absint",), "types": ("type",), "vars": ("var",)}


def find_entity(A, lname, cls):
    """the public entity of A with that name in the class of names `cls` (procs / absints / types / vars):
    the same identifier may also name an entity of another class (constructor, component, binding)"""
    for k, m, e, p in a_entities(A):
        if k in CLASS_KINDS[cls] and e["name"].lower() == lname and p:
            return e
    raise KeyError(lname)


def owner_module(A, lname):
    """the module that declares the public module variable `lname`"""
    for m in A["modules"]:
        for e in m["vars"]:
            if e["name"].lower() == lname and is_public(m, e):
                return m
    return None


def render_b(B, rng) -> dict:
    chunks = []
    for m in B["modules"]:
        L = [f"module {m['name']}", f"  !! {m['tracer']} module doc"]
        if m["refs"]:
            L.append("  !! refers to " + " and ".join(m["refs"]) + " here")
        for u in m["uses"]:
            if u["only"]:
                L.append(f"  use {spell(rng, u['mod'])}, only: " + ", ".join(u["only"]))
            else:
                L.append(f"  use {spell(rng, u['mod'])}")
        L.append("  implicit none")
        if m.get("default") == "private":
            L.append("  private")
            if m.get("public_list"):
                L.append("  public :: " + ", ".join(m["public_list"]))
        elif m.get("public_stmt"):
            L.append("  public")
        for t in m["types"]:
            ext = f", extends({t['extends']})" if t.get("extends") else ""
            L += [f"  type{ext} :: {t['name']}", f"    !! {t['tracer']} type doc"]
            for c in t["comps"]:
                L += [f"    type({c['type']}) :: {c['name']}", f"      !! {c['tracer']} component doc"]
            if not t["comps"]:
                L += ["    integer :: filler"]
            L.append(f"  end type {t['name']}")
        for v in m["vars"]:
            if v.get("procptr"):
                L += [f"  procedure({v['procptr']}), pointer :: {v['name']} => null()", f"    !! {v['tracer']} variable doc"]
            elif v.get("type"):
                L += [f"  type({v['type']}) :: {v['name']}", f"    !! {v['tracer']} variable doc"]
            else:
                L += [f"  integer :: {v['name']}", f"    !! {v['tracer']} variable doc"]
        for ifc in m.get("ifaces", []):
            L += ["  interface", f"    subroutine {ifc['name']}(x)", f"      !! {ifc['tracer']} interface doc",
                  f"      use {ifc['use']}",
                  f"      type({ifc['argtype']}), intent(inout) :: x" if ifc["argtype"] else "      integer, intent(inout) :: x",
                  f"    end subroutine {ifc['name']}", "  end interface"]
        if m["subs"]:
            L.append("contains")
        for s in m["subs"]:
            args = ", ".join(a["name"] for a in s["args"])
            L += [f"  subroutine {s['name']}({args})", f"    !! {s['tracer']} subroutine doc"]
            if s.get("refs"):
                L.append("    !! refers to " + " and ".join(s["refs"]))
            if s.get("use"):
                L.append(f"    use {s['use']}")
            for a in s["args"]:
                L.append(f"    type({a['type']}), intent(inout) :: {a['name']}")
            L.append("    integer :: k")
            L.append("    real :: x")
            L.append("    k = 1")
            L.append("    x = 1.0")
            for c in s.get("calls", []):
                L.append(f"    {c['stmt']}")
            L.append(f"  end subroutine {s['name']}")
        L.append(f"end module {m['name']}")
        chunks.append((m["name"], L))
    files = {}
    for name, L in chunks:
        files[f"{name.lower()}_b.f90"] = "\n".join(L) + "\n"
    pr = B.get("program")
    if pr:
        L = [f"program {pr['name']}", f"  !! {pr['tracer']} program doc", f"  use {pr['use']}", "  implicit none",
             "  integer :: k", "  real :: x", "  k = 1", "  x = 1.0"] + [f"  {c['stmt']}" for c in pr["calls"]] + \
            [f"end program {pr['name']}"]
        files[f"{pr['name'].lower()}_b.f90"] = "\n".join(L) + "\n"
    return files
