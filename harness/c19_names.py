"""C19 - directory names are user input: micro streams on the two places where FORD decides "is this path inside that
directory" - the refusal of `parse_arguments` (source directory inside the output directory) and the exclusion of the
output directory (and of the user's `exclude_dir` entries) from the source search of `find_all_files` - for names that
contain every kind of character a directory name may contain (`[`, `]`, `*`, `?`, `!`, `-`, blanks, quotes, ...).

  micro/fnmatch   the function `find_all_files` calls (`ford.fortran_project.fnmatch`) vs the model's `fnmatch`
                  (FordModel/FsGlob.lean) on random patterns / names over a pattern-heavy alphabet
  micro/refusal   real `ProjectSettings` + `parse_arguments` (no disk: the paths do not exist, `resolve()` is lexical)
                  for random project directories / `output_dir` / `src_dir` entries
                    correspondence: refused <-> model `refuses` (Fs.lean, on the raw settings) and `refusesStr`
                                    (FsGlob.lean, on the normalised strings)
                    oracle (statement): a source directory that is, component by component, the output directory or
                                    below it => ValueError
  micro/sources   real `parse_arguments` + `find_all_files` on small projects on disk: output directory below / next to
                  the source directory holding `src/*.f90` copies of an earlier run, look-alike siblings, user
                  `exclude_dir` entries that are patterns
                    correspondence: the files returned == model `keepSources` applied to the files an independent
                                    `os.walk` finds below the source directories
                    oracle (statement: what lies in the output directory is not an input; anchors: "output directory
                                    excluded from source discovery"): no returned file lies physically below the
                                    output directory; a source directory inside the output directory => refused
"""
from __future__ import annotations

import os
import random
from pathlib import Path

from . import common
from . import c19_probe as probe

FINDING_EXCLUDE = "C19-output-exclude-glob"

# name fragments: plain, look-alikes of each other, and every pattern / quoting character
FRAGS = ["doc", "docs", "do", "d", "src", "sr", "srcs", "api", "a", "b", "v2", "2", "v", "w", "x", "lib"]
DECOS = ["", "", "", " [v2]", "[1]", "[a-c]", "[!a]", "[]]", "[", "]", "*", "?", "**", "[*]", "[?]", "!", "-", " ", "'", "{x}", "^a", "\\", "[a-", "[]", "[!]", "[z-a]", "[--0]", "é"]
ALPHA = "ab[]!-*?/^\\z.2"


def rname(rng: random.Random) -> str:
    n = rng.choice(FRAGS) + (rng.choice(DECOS) if rng.random() < 0.5 else "")
    if rng.random() < 0.15:
        n = rng.choice(DECOS) + n
    return n or "q"


def rpattern(rng: random.Random) -> str:
    if rng.random() < 0.5:
        return "".join(rng.choice(ALPHA) for _ in range(rng.randint(0, 8)))
    return "/".join(rname(rng) for _ in range(rng.randint(1, 3))) + rng.choice(["", "/*", "*", "/"])


def rmatching(rng: random.Random, pat: str) -> str:
    """a name made from the pattern (so that matches are frequent): `*` -> anything, `?` -> one character, one random edit"""
    out = []
    for c in pat:
        if c == "*":
            out.append("".join(rng.choice(ALPHA) for _ in range(rng.randint(0, 3))))
        elif c == "?":
            out.append(rng.choice(ALPHA))
        else:
            out.append(c)
    s = "".join(out)
    r = rng.random()
    if r < 0.25 and s:
        i = rng.randrange(len(s))
        s = s[:i] + rng.choice(ALPHA) + s[i + 1:]
    elif r < 0.4 and s:
        i = rng.randrange(len(s))
        s = s[:i] + s[i + 1:]
    elif r < 0.6:
        # collapse a bracket expression to one of its characters
        i, j = s.find("["), s.find("]", s.find("[") + 2)
        if 0 <= i < j:
            s = s[:i] + rng.choice(s[i + 1:j]) + s[j + 1:]
    return s


def has_reversed_range(pat: str) -> bool:
    """Decidable limit of the Lean fnmatch model (FsGlob.classHas): a bracket body with a range `a-b`, a > b.  CPython's
    `fnmatch.translate` *removes* such an empty range before it looks at the first character of the body, so the
    removal can expose a `!` (negation) or empty the class; the model treats the range as matching nothing, which is
    the same set except in that corner (first met by the thorough tier: name '^', pattern '*[^-?!/]').  Such patterns
    are outside the model's domain: they are counted and not compared (notes/C19.md, Round 6 limits)."""
    i, n = 0, len(pat)
    while i < n:
        if pat[i] != "[":
            i += 1
            continue
        j = i + 1
        if j < n and pat[j] == "!":
            j += 1
        if j < n and pat[j] == "]":
            j += 1
        while j < n and pat[j] != "]":
            j += 1
        if j >= n:
            i += 1
            continue
        body = pat[i + 1:j]
        k = 1
        while k < len(body) - 1:
            if body[k] == "-" and body[k - 1] > body[k + 1]:
                return True
            k += 1
        i = j + 1
    return False


def micro_fnmatch(ford, drv, rng: random.Random, n: int, rep):
    import ford.fortran_project as fp

    real = fp.fnmatch
    reqs, exp = [], []
    hist = {"match": 0, "no-match": 0, "with-class": 0, "with-star": 0, "outside-model-domain(reversed range)": 0}
    for _ in range(n):
        pat = rpattern(rng)
        name = rmatching(rng, pat) if rng.random() < 0.7 else rpattern(rng)
        if has_reversed_range(pat):
            hist["outside-model-domain(reversed range)"] += 1
            continue
        r = bool(real(name, pat))
        hist["match" if r else "no-match"] += 1
        hist["with-class"] += "[" in pat
        hist["with-star"] += "*" in pat
        reqs.append(["c19.fnmatch", name, pat])
        exp.append(["ok", "1" if r else "0"])
    got = drv.batch(reqs)
    bad = 0
    for r, e, g in zip(reqs, exp, got):
        if e != g:
            bad += 1
            if bad <= 5:
                rep.tie_broken(f"correspondence micro/fnmatch: model {g} vs implementation {e} on name={r[1]!r} pattern={r[2]!r}",
                               {"stream": "micro/fnmatch", "request": r, "impl": e, "model": g})
    return len(reqs), bad, hist


def comps(p: str) -> list[str]:
    return [c for c in p.split("/") if c]


def inside(p: str, d: str) -> bool:
    """component by component: p is d or below d (both absolute, normalised)"""
    a, b = comps(p), comps(d)
    return a[:len(b)] == b


def _settings(ford, proj: Path, out_raw: str, src_raw: list[str]):
    from ford.settings import ProjectSettings

    cwd = os.getcwd()
    try:
        with common.quiet():
            ps = ProjectSettings(src_dir=list(src_raw), output_dir=out_raw, preprocess=False, parallel=0)
            try:
                ps, _ = ford.parse_arguments({}, "", ps, proj)
                return ps, None
            except ValueError as e:
                return ps, str(e)
    finally:
        os.chdir(cwd)


def micro_refusal(ford, drv, rng: random.Random, n: int, rep):
    """no disk access: the project directory does not exist (below a scratch root that does, so that no symbolic link of
    the machine is involved)"""
    reqs, cases = [], []
    hist = {"refused": 0, "accepted": 0, "out-with-bracket": 0, "refused-with-bracket": 0, "should-refuse": 0}
    fails = 0
    with common.scratch_dir("ford-c19-names-") as base:
        root = os.path.realpath(base)
        for _ in range(n):
            proj = Path(root) / rname(rng) / rname(rng)
            nm = [rname(rng) for _ in range(3)]

            def rel(depth_up=1):
                r = rng.random()
                a, b = rng.choice(nm), rng.choice(nm)
                if r < 0.3:
                    return f"./{a}"
                if r < 0.5:
                    return f"./{a}/{b}"
                if r < 0.6:
                    return f"{a}/../{b}"
                if r < 0.7:
                    return "../" * rng.randint(1, depth_up) + a
                if r < 0.8:
                    return str(proj / a / b)
                if r < 0.9:
                    return rng.choice([".", "..", f"./{a}/.", f"{a}//{b}/"])
                return f"./{a}/{b}/{rng.choice(nm)}"

            out_raw = rel(2)
            srcs = [rel(2) for _ in range(rng.choice([1, 1, 2]))]
            ps, err = _settings(ford, proj, out_raw, srcs)
            refused = err is not None and "output directory" in err
            if err is not None and not refused:
                rep.tie_broken(f"micro/refusal: parse_arguments raised something else: {err}", {"stream": "micro/refusal", "proj": str(proj), "out": out_raw, "src": srcs})
                continue
            O = os.path.normpath(os.path.join(str(proj), out_raw))
            S = [os.path.normpath(os.path.join(str(proj), s)) for s in srcs]
            should = any(inside(s, O) for s in S)
            hist["refused" if refused else "accepted"] += 1
            hist["should-refuse"] += should
            hist["out-with-bracket"] += "[" in O
            hist["refused-with-bracket"] += refused and "[" in O
            case = {"stream": "micro/refusal", "project_directory": str(proj), "output_dir": out_raw, "src_dir": srcs,
                    "output_dir_normalised": O, "src_dir_normalised": S, "refused": refused, "message": err}
            if should and not refused:
                fails += 1
                rep.failing_input(dict(case, failures=[{"why": "a source directory is the output directory or lies below it "
                                                               "(component by component) and parse_arguments did not refuse"}]), None)
            cases.append((case, refused))
            reqs.append(["c19.refuses", str(proj), out_raw] + srcs)
            reqs.append(["c19.refusestr", O] + S)
    got = drv.batch(reqs)
    bad = 0
    for i, (case, refused) in enumerate(cases):
        for g, which in ((got[2 * i], "refuses (raw settings)"), (got[2 * i + 1], "refusesStr (normalised strings)")):
            if g != ["ok", "1" if refused else "0"]:
                bad += 1
                if bad <= 5:
                    rep.tie_broken(f"correspondence micro/refusal: model {which} {g} vs implementation refused={refused} for "
                                   f"output_dir={case['output_dir_normalised']!r} src_dir={case['src_dir_normalised']!r}", dict(case, model=g))
    return len(cases), bad, fails, hist


SRC_EXT = (".f90", ".F90", ".f", ".txt")


def micro_sources(ford, drv, rng: random.Random, n: int, rep, by_path: bool):
    reqs, cases = [], []
    hist = {"refused": 0, "searched": 0, "out-below-src": 0, "out-with-bracket": 0, "user-exclude_dir": 0, "files-below-out-on-disk": 0,
            "files-dropped": 0}
    fails = 0
    with common.scratch_dir("ford-c19-src-") as base:
        root = Path(os.path.realpath(base))
        for k in range(n):
            proj = root / f"c{k}" / rname(rng) / "proj"
            srcn, outn, sib = rname(rng), rname(rng), rname(rng)
            src = proj / srcn
            place = rng.choice(["below", "below", "below-deep", "sibling", "equal-name-elsewhere"])
            out = {"below": src / outn, "below-deep": src / sib / outn, "sibling": proj / (outn + "-out"),
                   "equal-name-elsewhere": proj / "other" / outn}[place]
            # what an earlier run left in the output directory; look-alikes of the output directory; ordinary sources
            made = []

            def put(p: Path):
                try:
                    p.parent.mkdir(parents=True, exist_ok=True)
                    if not p.exists():
                        p.write_text("module m\nend module m\n")
                        made.append(str(p))
                except (FileExistsError, NotADirectoryError):
                    pass

            put(src / f"a{rng.choice(SRC_EXT)}")
            put(src / sib / "b.f90")
            put(out / "src" / "old.f90")
            put(out / "src" / "deep" / "older.F90")
            put(out / "index.f90")
            put(out.parent / (out.name + "s") / "near.f90")
            put(out.parent / (out.name[:-1] or "q") / "near2.f90")
            if "[" in out.name and "]" in out.name:
                # a directory the pattern reading of the name matches
                i, j = out.name.find("["), out.name.find("]", out.name.find("[") + 2)
                if 0 <= i < j:
                    put(out.parent / (out.name[:i] + out.name[i + 1] + out.name[j + 1:]) / "src" / "alike.f90")
            user = []
            if rng.random() < 0.5:
                user = [rng.choice([f"./{srcn}/{sib}", f"./{srcn}/{sib[:1]}*", f"{srcn}/[a-z]*", f"./{srcn}/{outn}s", f"./{srcn}/{outn}?",
                                    f"./{srcn}/{sib}/", "./nosuch"])]
            src_raw = [f"./{srcn}"] if rng.random() < 0.8 else [f"./{srcn}/{sib}", f"./{srcn}"]
            if rng.random() < 0.08:
                src_raw = [os.path.relpath(out / "src", proj)]  # sources inside the output directory: refusal
            out_raw = "./" + os.path.relpath(out, proj)
            case = {"stream": "micro/sources", "project_directory": str(proj), "output_dir": out_raw, "src_dir": src_raw,
                    "exclude_dir": user, "files_on_disk": [os.path.relpath(p, proj) for p in made]}
            try:
                files, ps = probe.find_sources(proj, out_raw, src_raw, user)
                refused = False
            except ValueError as e:
                if "output directory" not in str(e):
                    raise
                files, ps, refused = [], None, True
            O = os.path.realpath(out)
            S = [os.path.realpath(proj / s) for s in src_raw]
            should = any(inside(s, O) for s in S)
            hist["refused" if refused else "searched"] += 1
            hist["out-with-bracket"] += "[" in O
            hist["user-exclude_dir"] += bool(user)
            if should != refused:
                if should:
                    fails += 1
                    rep.failing_input(dict(case, failures=[{"why": "a source directory lies inside the output directory and the run was not refused"}]), None)
                else:
                    rep.tie_broken(f"micro/sources: refused although no source directory lies inside the output directory: {case}", case)
                continue
            if refused:
                continue
            hist["out-below-src"] += any(inside(O, s) for s in S)
            # independent candidate list: every file below a source directory whose suffix is one FORD looks for
            exts = {"." + e for e in list(ps.extensions) + list(ps.fixed_extensions)}
            cand = set()
            for s in S:
                for dp, _dn, fn in os.walk(s):
                    cand.update(os.path.join(dp, f) for f in fn if os.path.splitext(f)[1] in exts)
            cand = sorted(cand)
            hist["files-below-out-on-disk"] += sum(inside(f, O) for f in cand)
            hist["files-dropped"] += len(cand) - len(files)
            bad_files = [f for f in files if inside(os.path.realpath(f), O)]
            if bad_files:
                fails += 1
                rep.failing_input(dict(case, output_dir_normalised=O, failures=[{
                    "why": "the source search returned files that lie inside the output directory (left there by an earlier run): "
                           "they are documented as sources and the run then deletes them", "files": bad_files[:4]}]),
                    FINDING_EXCLUDE if "[" in O else None)
            excl = [str(x) for x in ps.exclude_dir]
            if not excl or excl[-1] != str(ps.output_dir) or str(ps.output_dir) != O:
                rep.tie_broken(f"micro/sources: exclude_dir {excl} does not end with the normalised output directory {O}", case)
                continue
            cases.append((case, files))
            reqs.append(["c19.keepsrc", "1" if by_path else "0", O, str(len(excl) - 1)] + excl[:-1] + cand)
    got = drv.batch(reqs)
    bad = 0
    for (case, files), g in zip(cases, got):
        if g[:1] != ["ok"] or sorted(g[1:]) != files:
            bad += 1
            if bad <= 5:
                rep.tie_broken(f"correspondence micro/sources: find_all_files returned {[os.path.relpath(f, case['project_directory']) for f in files]}, "
                               f"model keeps {[os.path.relpath(f, case['project_directory']) for f in g[1:]]}", dict(case, model=g[:12]))
    return n, bad, fails, hist
