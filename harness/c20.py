"""C20 - an unparseable file is skipped without disturbing the rest.

Streams
  rows     : every spelling of every statement kind against the real recognisers of the
             cascade (regex objects of FortranContainer) == the model's `matchRow`.
  files    : statement sequences (valid units, and corruptions of them at every statement
             boundary: truncation, deletion, duplication, stray statements, splices, random
             sequences from the grammar of malformed constructs, undecodable bytes, reader
             errors) -> one file -> real `Project(settings)` vs the model's `parseFile`
             (registered / skipped + exception class, print_error reports in order,
             entity paths).
  projects : good files + one or two bad files placed first / middle / last (file order
             forced by naming them so that they sort there and by wrapping find_all_files; the model is fed
             the order in which the per-file constructor was really entered) -> real project lists
             vs the model's `loadProject`; property oracle on the real code:
               O1 the good files' entity trees and their order in the project lists are the
                  same with and without the bad files,
               O2 the run terminates (10 s watchdog) and nothing escapes Project(),
               O3 a rejected file is named in the diagnostic,
               O4 a malformed file (decided by an independent validator of the unit
                  structure) is not registered,
               O5 ... and is reported.
               O1 also covers the identifiers (page names, `name~N`) of the valid files'
                  entities, asked for in project order after Project() returned, when every
                  additional file was rejected.
             The additional file is also a *stale copy* of one of the valid files (same unit
             names, corrupted, usually read before the original), and a *laid-out* source
             (doc comments of all four kinds before / after / beside statements, continuation
             lines, `;`, blank and comment lines) cut after every kind of physical line.
             Reader errors (all four kinds of line the reader refuses) sit in the additional file itself or in
             a file it INCLUDEs (one or two levels, same directory or below, extension FORD does not scan): it is
             the including file that is rejected and has to be named (O3), whatever file the exception names.
  reader   : every laid-out file: real `FortranReader` (2 s watchdog) == reader model `readAll`
             (C02) on the same lines, and the statements among the items are the expected
             prefix of the statement sequence.
  names    : the identifiers requested from the process-wide NameSelector while Project()
             runs (logged by a wrapper) == the model's `projectNames`.
  patterns : harness/c20rx.py - every regular expression applied while a file is read and parsed
             (table `Gen.patterns`): `match` of the real pattern == the model's matcher on sampled
             subjects; every loop of every pattern pumped under a timer; a pattern that does not
             come back is put into a source file of a project (oracle O2).
  diagnostics : harness/c20diag.py - what reaches the terminal: rejected files under names / in directories
             decorated with everything a console interprets (brackets, backslashes, colons, ...), reader errors
             and INCLUDEs that quote Fortran-like token lines; run as a user runs FORD (the real
             `ford.console.warn`, progress bar on); O1-O3 on the text `warn` printed; rich's `escape` / `render`,
             `warn` and the progress bar == the model lean/FordModel/Markup.lean (tables `warnSpec`,
             `progressSpec`, `rejectionRules`; the handler's message == the model's `rejectionText` for every rejected
             file of the projects stream).
  preprocessed : same module - additional files with a preprocessed extension (default settings: pcpp) and a
             broken directive from a grammar of malformed preprocessor input; O1-O3.
  e2e      : a few complete runs (ford.main): the generated site with a rejected bad file is
             byte-identical to the site without it.
In the projects stream the additional file is carried as free form `.f90`, through the preprocessor (`.F90`)
or in fixed form (`.f`) - same statements, same model outcome; `ford.console.warn` is the real one (wrapped).
"""
from __future__ import annotations

import contextlib
import io
import os
import random
import re
import signal
import time
from pathlib import Path

from translate.c20diag import err_text as c20diag_err_text

from . import common
from .common import Driver, Report, lean_prove

PROP = "C20"

# ----------------------------------------------------------------------------------------
# statement kinds and their spellings ({n} = entity name)
# ----------------------------------------------------------------------------------------
SPELL = {
    "contains": ["contains", "CONTAINS", "Contains"],
    "perm": ["private", "public", "PRIVATE", "protected"],
    "attrib": ["save :: {n}", "save {n}", "target :: {n}", "external {n}", "save :: {n}, another_long_variable_name"],
    "attribParen": ["dimension {n}(3)"],
    "dataStmt": ["data {n} /1/"],
    "endUnit": ["end", "END", "end module", "end module {n}", "end program", "endfunction", "end type",
                "end type {n}", "end interface", "end procedure", "end block data", "end enum",
                "endsubroutine", "end submodule {n}", "end subroutine", "end function"],
    "endUnitSub": ["end subroutine {n}"],
    "endUnitFun": ["end function {n}"],
    "endBlock": ["end block", "endblock", "END BLOCK"],
    "endAssociate": ["end associate", "endassociate"],
    "modproc": ["module procedure {n}", "module procedure :: {n}"],
    "blockdata": ["block data {n}", "blockdata {n}"],
    "block": ["block", "lbl: block", "BLOCK"],
    "associate": ["associate (a => b)", "lbl: associate (a => b%c)"],
    "module": ["module {n}", "MODULE {n}"],
    "submodule": ["submodule (anc) {n}", "submodule (anc:par) {n}"],
    "program": ["program {n}", "PROGRAM {n}"],
    "subroutine": ["subroutine {n}()", "subroutine {n}(a, b)", "pure subroutine {n}(a)"],
    "subroutineBare": ["subroutine {n}"],
    "function": ["function {n}()", "pure function {n}(a) result(r)"],
    "typedFunction": ["integer function {n}(a)"],
    "type": ["type {n}", "type :: {n}", "type, public :: {n}"],
    "interface": ["interface {n}", "INTERFACE {n}"],
    "interfaceAnon": ["interface"],
    "absInterface": ["abstract interface"],
    "absGeneric": ["abstract interface {n}"],
    "enum": ["enum, bind(c)", "enum, bind(C)"],
    "variable": ["integer :: {n}", "real {n}", "integer, parameter :: {n} = 1", "logical {n}", "enumerator :: {n}",
                 "real :: {n}, maximum_iteration_count, convergence_tolerance_value"],
    "variableParen": ["character(len=3) :: {n}"],
    "use": ["use {n}", "use {n}, only: a", "use :: {n}",
            "use {n}, only: first_long_entity_name, second_long_entity_name => renamed_entity_name"],
    "callParen": ["call {n}(1)", "{n} = f(1)", "call {n}()", "call {n}(maximum_iteration_count, convergence_tolerance_value)",
                  "call a%{n}(1)", "call lbl%{n}()"],
    "callBare": ["call {n}"],
    # list-like statements, also with the long descriptive names and the several groups per statement of real code
    "namelist": ["namelist /{n}/ a, b", "NAMELIST /{n}/ a",
                 "namelist /{n}/ maximum_iteration_count, convergence_tolerance_value, output_file_name",
                 "namelist /{n}/ maximum_iteration_count, convergence_tolerance_value /{n}_out/ output_file_name"],
    "common": ["common /{n}/ a, b", "COMMON /{n}/ first_long_variable_name, second_long_variable_name",
               "common /{n}/ a, b /{n}_2/ c", "common a, b"],
    "format": ["10 format (i3)", "100 format (a, i5, f10.3)", "20 FORMAT (1x, a)"],
    "arithGoto": ["go to (10, 20) {n}", "goto (10, 20, 30) {n}"],
    "other": ["{n} = 1", "stop", "return", "{n} % first_component % second_component % third_component = 1", "@@@ ###", "if then else", "foo bar baz", "lorem ipsum dolor sit amet", "<html> </html>", "{ }"],
}
JUNK = {"@@@ ###", "if then else", "foo bar baz", "lorem ipsum dolor sit amet", "<html> </html>", "{ }"}
END_KW = {  # keyword an END spelling carries (None = bare END)
    "end": None, "END": None, "end module": "module", "end module {n}": "module", "end program": "program",
    "endfunction": "function", "end type": "type", "end type {n}": "type", "end interface": "interface",
    "end procedure": "procedure", "end block data": "blockdata", "end enum": "enum", "endsubroutine": "subroutine",
    "end submodule {n}": "submodule", "end subroutine": "subroutine", "end function": "function",
    "end subroutine {n}": "subroutine", "end function {n}": "function",
}

REP_OF_MSG = [
    ("Unexpected CONTAINS statement", "unexpectedContains"),
    ("Multiple CONTAINS statements present", "multipleContains"),
    ("END statement outside of any nesting", "endOutside"),
    ("Unexpected MODULE PROCEDURE", "unexpectedModproc"),
    ("Unexpected BLOCK DATA", "unexpectedBlockData"),
    ("Unexpected MODULE", "unexpectedModule"),
    ("Unexpected SUBMODULE", "unexpectedSubmodule"),
    ("Unexpected PROGRAM", "unexpectedProgram"),
    ("Multiple PROGRAM units in same source file", "multiplePrograms"),
    ("Unexpected SUBROUTINE", "unexpectedSubroutine"),
    ("Unexpected FUNCTION", "unexpectedFunction"),
    ("Unexpected derived TYPE", "unexpectedType"),
    ("Unexpected INTERFACE", "unexpectedInterface"),
    ("Unexpected ENUM", "unexpectedEnum"),
    ("Unexpected variable", "unexpectedVariable"),
    ("Unexpected USE statement", "unexpectedUse"),
    ("Unexpected procedure call", "unexpectedCall"),
    ("Unexpected NAMELIST", "unexpectedNamelist"),
    ("Unexpected COMMON statement", "unexpectedCommon"),
]
ATTR_MSG = re.compile(r"Unexpected [A-Z(), ]+ statement")


class Hang(BaseException):
    pass


MAX_PROJECT_HANGS = 6      # bounds the time of a failing run


def mk(kind, name="", rng=None, spelling=None):
    sp = spelling if spelling is not None else (rng.choice(SPELL[kind]) if rng else SPELL[kind][0])
    if "{n}" not in sp:
        name = ""   # the statement carries no entity name
    return {"kind": kind, "name": name, "sp": sp, "text": sp.replace("{n}", name)}


# ----------------------------------------------------------------------------------------
# generator of valid unit structure
# ----------------------------------------------------------------------------------------
class Gen:
    def __init__(self, rng, prefix):
        self.rng = rng
        self.prefix = prefix
        self.k = 0

    def name(self, stem):
        self.k += 1
        return f"{self.prefix}{stem}{self.k}"

    def end(self, opener_kw, name):
        r = self.rng
        cands = [s for s, kw in END_KW.items() if kw in (None, opener_kw) and s in SPELL["endUnit"]]
        if opener_kw == "subroutine" and r.random() < 0.4:
            return mk("endUnitSub", name)
        if opener_kw == "function" and r.random() < 0.4:
            return mk("endUnitFun", name)
        return mk("endUnit", name, spelling=r.choice(cands))

    def decl(self):
        r = self.rng
        k = r.choice(["variable", "variable", "variableParen", "use", "perm", "attrib", "attribParen", "dataStmt",
                      "variable", "use", "namelist", "common"])
        sp = None
        if k == "variable":
            sp = r.choice([s for s in SPELL["variable"] if not s.startswith("enumerator")])
        return mk(k, self.name("v"), r, sp)

    def typedef(self):
        r = self.rng
        n = self.name("t")
        out = [mk("type", n, r)]
        for _ in range(r.randint(0, 2)):
            out.append(mk("variable", self.name("c"), spelling=r.choice(SPELL["variable"][:4])))
        if r.random() < 0.3:
            out.append(mk("contains", "", r))
        out.append(self.end("type", n))
        return out

    def enumdef(self):
        r = self.rng
        out = [mk("enum", "", r)]
        for _ in range(r.randint(0, 2)):
            out.append(mk("variable", self.name("e"), spelling="enumerator :: {n}"))
        out.append(mk("endUnit", "", spelling="end enum"))
        return out

    def iface(self, in_module):
        r = self.rng
        k = r.choice(["interface", "interfaceAnon", "absInterface"])
        n = self.name("g") if k == "interface" else ""
        out = [mk(k, n, r)]
        for _ in range(r.randint(0, 2)):
            if k == "interface" and in_module and r.random() < 0.3:
                out.append(mk("modproc", self.name("mp"), r))
            else:
                out += self.proc(depth=2, body=False)
        out.append(mk("endUnit", n, spelling=r.choice(["end interface", "end"])))
        return out

    def execs(self, depth=0):
        r = self.rng
        out = []
        for _ in range(r.randint(0, 3)):
            x = r.random()
            if x < 0.25:
                out.append(mk("callParen", self.name("p"), r))
            elif x < 0.4:
                out.append(mk("callBare", self.name("p"), r))
            elif x < 0.52:
                out.append(mk("other", self.name("x"), spelling=r.choice(
                    ["{n} = 1", "stop", "return", "{n} % first_component % second_component % third_component = 1"])))
            elif x < 0.6:
                out.append(mk(r.choice(["format", "arithGoto"]), self.name("x"), r))
            elif x < 0.8 and depth < 2:
                out.append(mk("block", "", r))
                if r.random() < 0.5:
                    out.append(self.decl())
                out += self.execs(depth + 1)
                out.append(mk("endBlock", "", spelling=r.choice(["end block", "endblock"])))
            elif depth < 2:
                out.append(mk("associate", "", r))
                out += self.execs(depth + 1)
                out.append(mk("endAssociate", "", r))
        return out

    def specs(self, in_module):
        r = self.rng
        out = []
        for _ in range(r.randint(0, 3)):
            x = r.random()
            if x < 0.55:
                out.append(self.decl())
            elif x < 0.75:
                out += self.typedef()
            elif x < 0.9:
                out += self.iface(in_module)
            else:
                out += self.enumdef()
        return out

    def proc(self, depth=1, body=True):
        r = self.rng
        if r.random() < 0.5:
            k = r.choice(["subroutine", "subroutine", "subroutineBare"])
            n = self.name("s")
            kw = "subroutine"
        else:
            k = r.choice(["function", "function", "typedFunction"])
            n = self.name("f")
            kw = "function"
        out = [mk(k, n, r)]
        if body:
            out += self.specs(False) if r.random() < 0.5 else []
            out += self.execs()
            if depth < 2 and r.random() < 0.25:
                out.append(mk("contains", "", r))
                for _ in range(r.randint(0, 2)):
                    out += self.proc(depth + 1)
        else:
            if r.random() < 0.5:
                out.append(self.decl())
        out.append(self.end(kw, n))
        return out

    def module(self):
        r = self.rng
        sub = r.random() < 0.25
        n = self.name("m")
        out = [mk("submodule" if sub else "module", n, r)]
        out += self.specs(True)
        if r.random() < 0.7:
            out.append(mk("contains", "", r))
            for _ in range(r.randint(0, 3)):
                if r.random() < 0.2:
                    mpn = self.name("mp")
                    out.append(mk("modproc", mpn, r))
                    out += self.execs()
                    out.append(mk("endUnit", mpn, spelling=r.choice(["end procedure", "end"])))
                else:
                    out += self.proc()
        out.append(self.end("submodule" if sub else "module", n))
        return out

    def program(self):
        r = self.rng
        n = self.name("p")
        out = [mk("program", n, r)]
        out += self.specs(False)
        out += self.execs()
        if r.random() < 0.4:
            out.append(mk("contains", "", r))
            for _ in range(r.randint(0, 2)):
                out += self.proc()
        out.append(self.end("program", n))
        return out

    def blockdata(self):
        r = self.rng
        n = self.name("bd")
        out = [mk("blockdata", n, r)]
        for _ in range(r.randint(0, 2)):
            out.append(mk(r.choice(["variable", "dataStmt", "attrib", "common"]), self.name("v"), r))
        out.append(mk("endUnit", n, spelling=r.choice(["end block data", "end"])))
        return out

    def file(self, allow_program=True):
        r = self.rng
        out = []
        nprog = 0
        for _ in range(r.randint(1, 3)):
            x = r.random()
            if x < 0.5:
                out += self.module()
            elif x < 0.65 and allow_program and nprog == 0:
                out += self.program()
                nprog += 1
            elif x < 0.9:
                out += self.proc()
            else:
                out += self.blockdata()
        return out


# ----------------------------------------------------------------------------------------
# independent validator of the unit structure (from the Fortran rules, not from FORD)
# ----------------------------------------------------------------------------------------
class Invalid(Exception):
    pass


def validate(stmts) -> str | None:
    """None when the statement sequence is a well-formed sequence of program units."""
    pos = 0
    nprog = 0

    def peek():
        return stmts[pos] if pos < len(stmts) else None

    def take():
        nonlocal pos
        s = peek()
        if s is None:
            raise Invalid("file ends inside a unit")
        pos += 1
        return s

    DECL = {"perm", "attrib", "attribParen", "dataStmt", "variable", "variableParen", "use", "namelist", "common"}

    def is_junk(s):
        return s["kind"] == "other" and s["sp"] in JUNK

    def end_of(kw, s):
        if s["kind"] == "endUnitSub":
            got = "subroutine"
        elif s["kind"] == "endUnitFun":
            got = "function"
        else:
            got = END_KW.get(s["sp"])
        if got is not None and got != kw:
            raise Invalid(f"END {got} closes a {kw}")

    def specs(in_module, executable):
        while True:
            s = peek()
            if s is None:
                raise Invalid("file ends inside a unit")
            k = s["kind"]
            if k in DECL:
                take()
            elif k == "type":
                take()
                seen_contains = False
                while True:
                    t = take()
                    if t["kind"] in ("variable", "variableParen", "perm") and not (seen_contains and t["kind"] != "perm"):
                        continue
                    if t["kind"] == "contains" and not seen_contains:
                        seen_contains = True
                        continue
                    if t["kind"] == "endUnit":
                        end_of("type", t)
                        break
                    raise Invalid(f"{t['kind']} inside a derived type")
            elif k in ("interface", "interfaceAnon", "absInterface"):
                take()
                while True:
                    t = peek()
                    if t is None:
                        raise Invalid("file ends inside an interface")
                    if t["kind"] == "modproc" and k != "absInterface":
                        take()
                    elif t["kind"] in ("subroutine", "subroutineBare", "function", "typedFunction"):
                        proc(2, interface_body=True)
                    elif t["kind"] == "endUnit":
                        take()
                        end_of("interface", t)
                        break
                    else:
                        raise Invalid(f"{t['kind']} inside an interface")
            elif k == "enum":
                take()
                while True:
                    t = take()
                    if t["kind"] == "variable" and t["sp"].startswith("enumerator"):
                        continue
                    if t["kind"] == "endUnit":
                        end_of("enum", t)
                        break
                    raise Invalid(f"{t['kind']} inside an enum")
            elif executable and k in ("callParen", "callBare", "format", "arithGoto") or (
                    executable and k == "other" and not is_junk(s)):
                take()
            elif executable and k == "block":
                take()
                specs(False, True)
                t = take()
                if t["kind"] != "endBlock":
                    raise Invalid(f"{t['kind']} closes a BLOCK")
            elif executable and k == "associate":
                take()
                specs(False, True)
                t = take()
                if t["kind"] != "endAssociate":
                    raise Invalid(f"{t['kind']} closes an ASSOCIATE")
            else:
                return

    def proc(depth, interface_body=False):
        s = take()
        kw = "subroutine" if s["kind"] in ("subroutine", "subroutineBare") else "function"
        specs(False, not interface_body)
        t = take()
        if t["kind"] == "contains":
            if interface_body or depth >= 2:
                raise Invalid("CONTAINS in an internal or interface procedure")
            while peek() is not None and peek()["kind"] in ("subroutine", "subroutineBare", "function", "typedFunction"):
                proc(depth + 1)
            t = take()
        if t["kind"] not in ("endUnit", "endUnitSub", "endUnitFun"):
            raise Invalid(f"{t['kind']} where END {kw} is expected")
        end_of(kw, t)

    try:
        while pos < len(stmts):
            s = peek()
            k = s["kind"]
            if k in ("module", "submodule"):
                take()
                specs(True, False)
                t = take()
                if t["kind"] == "contains":
                    while peek() is not None:
                        pk = peek()["kind"]
                        if pk in ("subroutine", "subroutineBare", "function", "typedFunction"):
                            proc(1)
                        elif pk == "modproc":
                            take()
                            specs(False, True)
                            e = take()
                            if e["kind"] != "endUnit":
                                raise Invalid(f"{e['kind']} where END PROCEDURE is expected")
                            end_of("procedure", e)
                        else:
                            break
                    t = take()
                if t["kind"] != "endUnit":
                    raise Invalid(f"{t['kind']} where END {k} is expected")
                end_of(k, t)
            elif k == "program":
                nprog += 1
                if nprog > 1:
                    raise Invalid("two main programs in one file")
                take()
                specs(False, True)
                t = take()
                if t["kind"] == "contains":
                    while peek() is not None and peek()["kind"] in ("subroutine", "subroutineBare", "function", "typedFunction"):
                        proc(2 - 1)
                    t = take()
                if t["kind"] != "endUnit":
                    raise Invalid(f"{t['kind']} where END PROGRAM is expected")
                end_of("program", t)
            elif k in ("subroutine", "subroutineBare", "function", "typedFunction"):
                proc(1)
            elif k == "blockdata":
                take()
                while peek() is not None and peek()["kind"] in ("variable", "variableParen", "dataStmt", "attrib", "attribParen",
                                                                "use", "common"):
                    take()
                t = take()
                if t["kind"] != "endUnit":
                    raise Invalid(f"{t['kind']} inside BLOCK DATA")
                end_of("blockdata", t)
            else:
                raise Invalid(f"{k} outside of any program unit")
    except Invalid as e:
        return str(e)
    return None


# ----------------------------------------------------------------------------------------
# corruptions
# ----------------------------------------------------------------------------------------
STRAY = ["contains", "endUnit", "endBlock", "endAssociate", "program", "module", "submodule", "subroutine",
         "function", "type", "interface", "absGeneric", "enum", "blockdata", "block", "associate", "modproc",
         "variable", "use", "callBare", "callParen", "other", "dataStmt", "attrib", "perm", "typedFunction",
         "endUnitSub", "endUnitFun", "interfaceAnon", "absInterface", "subroutineBare", "variableParen", "attribParen",
         "namelist", "common", "format", "arithGoto"]


def corruptions(rng, base, other, prefix, budget):
    """Yield (how, stmts) for corruptions of the valid statement list `base`."""
    n = len(base)
    out = []
    for cut in range(0, n):                       # truncation at every statement boundary
        out.append((f"truncate@{cut}", base[:cut]))
    for i in range(n):                            # one statement lost
        out.append((f"delete@{i}:{base[i]['kind']}", base[:i] + base[i + 1:]))
    for i in range(n):                            # one statement doubled
        if base[i]["kind"] in ("endUnit", "endUnitSub", "endUnitFun", "contains", "endBlock", "endAssociate", "program", "module"):
            out.append((f"double@{i}:{base[i]['kind']}", base[:i + 1] + [base[i]] + base[i + 1:]))
    k = 0
    for i in range(n + 1):                        # a stray statement at every boundary
        for _ in range(2):
            sk = rng.choice(STRAY)
            k += 1
            s = mk(sk, f"{prefix}z{k}", rng)
            out.append((f"insert@{i}:{sk}", base[:i] + [s] + base[i:]))
    for _ in range(max(4, n // 2)):               # splice with another file
        a = rng.randint(0, n)
        b = rng.randint(0, len(other))
        out.append((f"splice@{a}+{b}", base[:a] + other[b:]))
    rng.shuffle(out)
    return out[:budget]


def random_sequence(rng, prefix):
    """Grammar of malformed constructs: arbitrary short sequences of statement kinds."""
    n = rng.randint(1, 7)
    kinds = list(SPELL)
    weights = [3 if k in ("endUnit", "contains", "module", "program", "subroutine", "other", "block", "endBlock") else 1 for k in kinds]
    return [mk(rng.choices(kinds, weights)[0], f"{prefix}r{i}", rng) for i in range(n)]


def text_of(stmts, rng=None):
    lines = []
    for s in stmts:
        ind = "" if rng is None else rng.choice(["", "  ", "    "])
        lines.append(ind + s["text"])
    return "".join(l + "\n" for l in lines)


# ----------------------------------------------------------------------------------------
# laid-out sources: the same statements with everything around them that the reader removes,
# moves or joins (default marks: `!!` doc, `!>` pre-doc, `!*` alt doc, `!|` alt pre-doc)
# ----------------------------------------------------------------------------------------
WORDS = ["alpha", "beta: gamma", "see [[x]]", "x < y", "1. item", "@note n", "delta"]
MARKS = ("!", ">", "*", "|")


def layout(rng, stmts):
    """-> (lines, ends, tags): the physical lines, for every statement the index of the physical
    line that completes it, and for every physical line what it is (its reader state when the
    file ends right after it)."""
    lines, tags, ends = [], [], []

    def put(text, tag, ind=None):
        lines.append((rng.choice(["", "  ", "    "]) if ind is None else ind) + text)
        tags.append(tag)

    i, n = 0, len(stmts)
    while i < n:
        text = stmts[i]["text"]
        x = rng.random()
        if x < 0.22:
            for _ in range(rng.randint(1, 2)):
                put("!> " + rng.choice(WORDS), "predoc")
        elif x < 0.32:
            put("!| " + rng.choice(WORDS), "predoc-alt")
            for _ in range(rng.randint(0, 2)):
                put("! " + rng.choice(WORDS), "predoc-alt")
        elif x < 0.38:
            put(rng.choice(["", "   ", "! plain comment", "#define X 1"]), "blank", ind="")
        y = rng.random()
        spaces = [j for j, ch in enumerate(text) if ch == " " and 0 < j < len(text) - 1
                  and text[j - 1] != " " and text[j + 1] != " "]
        if y < 0.2 and spaces:
            j = rng.choice(spaces)
            put(text[:j] + rng.choice([" &", " &", " &   ! why not", " &"]), "continued")
            if rng.random() < 0.2:
                put(rng.choice(["", "! in between"]), "continued", ind="")
            put(rng.choice(["", "&"]) + text[j + 1:], "stmt")
            ends.append(len(lines) - 1)
        elif y < 0.27 and i + 1 < n:
            put(text + rng.choice(["; ", ";", " ; "]) + stmts[i + 1]["text"], "stmt")
            ends += [len(lines) - 1, len(lines) - 1]
            i += 1
        elif y < 0.34:
            put(text + "  !! " + rng.choice(WORDS), "stmt")
            ends.append(len(lines) - 1)
        else:
            put(text, "stmt")
            ends.append(len(lines) - 1)
        z = rng.random()
        if z < 0.2:
            for _ in range(rng.randint(1, 2)):
                put("!! " + rng.choice(WORDS), "doc")
            if rng.random() < 0.3:
                put("", "doc-blank", ind="")
        elif z < 0.27:
            put("!* " + rng.choice(WORDS), "doc-alt")
            for _ in range(rng.randint(0, 2)):
                put("! " + rng.choice(WORDS), "doc-alt")
        elif z < 0.32:
            put("", "blank", ind="")
        i += 1
    return lines, ends, tags


def layout_cuts(rng, stmts, budget, label):
    """Truncations of a laid-out source after physical lines of every kind: bad-file sources
    whose `stmts` are the statements that are complete in the kept lines."""
    lines, ends, tags = layout(rng, stmts)
    by_tag: dict[str, list[int]] = {}
    for k in range(1, len(lines) + 1):
        by_tag.setdefault(tags[k - 1], []).append(k)
    cuts = []
    groups = [rng.sample(v, len(v)) for _, v in sorted(by_tag.items())]
    while len(cuts) < budget - 1 and any(groups):     # round robin over the kinds of last line
        for g in groups:
            if g and len(cuts) < budget - 1:
                cuts.append(g.pop())
    out = []
    for k in sorted(set(cuts)) + [len(lines)]:
        nst = sum(1 for e in ends if e < k)
        tag = tags[k - 1] if k < len(lines) else "whole"
        out.append({"form": "stmts", "stmts": stmts[:nst], "how": f"{label}:{tag}@{k}",
                    "lines": lines[:k], "text": "".join(l + "\n" for l in lines[:k]),
                    "partial": tag == "continued", "cut_state": tag})
    return out


CUT_STATE = {
    "predoc": "inside a `!>` block (the statement it documents never comes)",
    "predoc-alt": "inside a `!|` block (the statement it documents never comes)",
    "continued": "inside a continued statement (dangling `&`)",
    "doc": "after a `!!` doc line", "doc-blank": "with a blank line after a `!!` doc line",
    "doc-alt": "inside a `!*` block", "blank": "with a blank / comment / preprocessor line",
    "stmt": "after a complete statement", "whole": "where the laid-out source ends",
}


class ReaderHang(BaseException):
    pass


def real_read(path, watchdog=2):
    """list(FortranReader(path)) with the default marks -> ("ok", items) | ("err", kind) | ("hang", None)"""
    from ford.reader import FortranReader

    def on_alarm(signum, frame):
        raise ReaderHang()

    old = signal.signal(signal.SIGALRM, on_alarm)
    signal.alarm(watchdog)
    try:
        try:
            with contextlib.redirect_stdout(io.StringIO()):
                return ("ok", list(FortranReader(str(path), *MARKS)))
        except ReaderHang:
            return ("hang", None)
        except Exception as e:  # noqa
            msg = str(e)
            for pat, kind in (("Preceding documentation lines", "predoc-inline"), ("Preceding alternate documentation", "predoc-alt-inline"),
                              ("Alternate documentation", "alt-inline"), ("Can not start a new line", "amp-start")):
                if pat in msg:
                    return ("err", kind)
            return ("err", f"{type(e).__name__}:{msg[:60]}")
    finally:
        signal.alarm(0)
        signal.signal(signal.SIGALRM, old)


# ----------------------------------------------------------------------------------------
# the real code
# ----------------------------------------------------------------------------------------
WALK = ["modules", "submodules", "programs", "functions", "subroutines", "modprocedures", "types",
        "interfaces", "absinterfaces", "enums", "blockdata"]


def paths_of(ent, prefix=""):
    out = []
    for attr in WALK:
        for c in getattr(ent, attr, None) or []:
            e = f"{attr}:{getattr(c, 'name', None)}"
            out.append(prefix + e)
            out += paths_of(c, prefix + e + "/")
    return out


def details_of(ent, prefix=""):
    """what is recorded *inside* every entity below `ent` right after Project() returned: the names of its
    variables, its call chains as parsed, the modules it uses (state shared between files - class attributes,
    module globals of the parser - would show up here, in the valid files read after a rejected one)"""
    out = []
    for attr in WALK:
        for c in getattr(ent, attr, None) or []:
            e = f"{attr}:{getattr(c, 'name', None)}"
            try:
                vs = [str(getattr(v, "name", v)) for v in (getattr(c, "variables", None) or [])]
                calls = ["%".join(x) if isinstance(x, (list, tuple)) else str(getattr(x, "name", x))
                         for x in (getattr(c, "calls", None) or [])]
                uses = [str(u[0] if isinstance(u, (list, tuple)) else getattr(u, "name", u)) for u in (getattr(c, "uses", None) or [])]
                out.append(f"{prefix}{e}|vars={','.join(vs)}|calls={','.join(calls)}|uses={','.join(uses)}")
            except Exception as exc:  # noqa
                out.append(f"{prefix}{e}|!{type(exc).__name__}")
            out += details_of(c, prefix + e + "/")
    return out


def idents_of(ent, prefix=""):
    """path=identifier of every entity below `ent`, asking in the order of the walk"""
    out = []
    for attr in WALK:
        for c in getattr(ent, attr, None) or []:
            e = f"{attr}:{getattr(c, 'name', None)}"
            try:
                ident = c.ident
            except Exception as exc:  # noqa
                ident = f"!{type(exc).__name__}"
            out.append(f"{prefix}{e}={ident}")
            out += idents_of(c, prefix + e + "/")
    return out


def err_class(exc) -> str:
    msg = str(exc)
    if isinstance(exc, StopIteration):
        return "stopIteration"
    if isinstance(exc, NotImplementedError):
        return "notImplemented"
    if isinstance(exc, UnicodeDecodeError):
        return "decode"
    if isinstance(exc, IndexError) and "No batches" in msg:
        return "noBatches"
    if isinstance(exc, AttributeError) and "programs" in msg:
        return "attrError"
    if "File ended while still nested" in msg:
        return "nested"
    if isinstance(exc, ValueError) and msg.startswith("Non-integer (") and "assigned to enumerator" in msg:
        return "enumValue"
    if "Cannot add procedure calls" in msg:
        return "cannotAddCalls"
    if "can not be abstract" in msg:
        return "absGeneric"
    if isinstance(exc, ValueError) and "reported while parsing" in msg:
        return "reported"      # candidate repair fixes/C20-skip-reported-files.diff
    if isinstance(exc, ValueError) and msg.startswith("ERROR in file"):
        return "printError"
    if isinstance(exc, (ValueError, RuntimeError)) and ("Can not start a new line" in msg or "documentation lines" in msg
                                                         or "Alternate documentation" in msg):
        return "reader"
    return f"other:{type(exc).__name__}:{msg[:60]}"


def disk_names(roles: list[str]) -> dict[str, str]:
    """Names on disk for the files of one project, given in the intended reading order by
    their role names (goodJ.f90, bad.f90, bad2.f90 ...).  The names *sort* in that order
    (newer trees read `sorted(find_all_files(...))`), and a good file's name does not depend
    on where the bad files are put: good j is `g{2j+1}_goodj.f90`, a bad file that is to be
    read after j good files is `g{2j}{a,b,..}_<role>`."""
    out = {}
    ngood = 0
    in_gap = 0
    for r in roles:
        if r.startswith("good"):
            j = int(r[4:].split(".")[0])
            out[r] = f"g{2 * j + 1}_{r}"
            ngood = j + 1
            in_gap = 0
        else:
            out[r] = f"g{2 * ngood}{chr(97 + in_gap)}_{r}"
            in_gap += 1
    if sorted(out.values()) != [out[r] for r in roles]:
        raise common.Infra(f"disk names do not sort in the intended order: {roles} -> {out}")
    return out


class Real:
    """Project(settings) on files written to a scratch directory; the reading order is
    forced both ways: the files are named so that they sort in the intended order, and
    find_all_files is wrapped to return them in that order (trees that do not sort)."""

    def __init__(self, ford, root: Path):
        import ford.fortran_project as fp
        import ford.sourceform as sf
        from ford.settings import ProjectSettings

        self.fp, self.sf, self.Settings = fp, sf, ProjectSettings
        self.root = root
        self.n = 0
        self.hangs = 0

    def run(self, files: list[tuple[str, object]], dbg=True, force=False, watchdog=None, disk=None, progress=False, later=False):
        """files: ordered (role name, text|bytes).  Returns an observation dict in which every
        file is called by its role name again; obs["read_order"] is the order in which the
        implementation really started the per-file constructor.
        `disk`: role name -> path below the source directory (default: `disk_names`; the diagnostics
        stream passes decorated names, possibly in a sub-directory).  `progress`: run with the
        progress bar of the per-file loop switched on, as a user's run has it (the harness otherwise
        sets FORD_DEBUGGING, which disables it).
        `ford.console.warn` is NOT replaced: the wrapper records the message and what the real
        function put on the terminal (obs["warn_rendered"]).
        `later`: when Project() has returned, go on as `ford.main` does - `project.correlate()` - under the same
        watchdog: obs["later_escaped"] = what came out of it (no handler surrounds that stage: the run would end),
        obs["later_details"] = what the entities of each registered file refer to afterwards."""
        import shutil

        fp, sf = self.fp, self.sf
        self.n += 1
        if watchdog is None:
            watchdog = 10 if self.hangs == 0 else 3     # once something hung the run fails anyway
        d = self.root / f"p{self.n % 8}"
        if d.exists():
            for p in d.iterdir():
                if p.is_dir() and not p.is_symlink():
                    shutil.rmtree(p)
                else:
                    p.unlink()
        d.mkdir(exist_ok=True)
        disk = dict(disk) if disk is not None else disk_names([name for name, _ in files])
        role = {}
        for k_, v_ in disk.items():
            role[v_] = k_
            if k_ != v_:            # (an INCLUDEd file keeps its name)
                role[Path(v_).name] = k_
        for name, body in files:
            pth = d / disk[name]
            pth.parent.mkdir(parents=True, exist_ok=True)
            if isinstance(body, bytes):
                pth.write_bytes(body)
            else:
                pth.write_text(body)
        order = [d / disk[name] for name, _ in files]
        warns, rendered, excs, read_order = [], [], {}, []
        orig_find, orig_warn, orig_ff = fp.find_all_files, fp.warn, fp.Project._fortran_file

        def warn_wrapper(m):
            warns.append(m)
            out_ = io.StringIO()
            try:
                with contextlib.redirect_stdout(out_), contextlib.redirect_stderr(out_):
                    orig_warn(m)
            finally:
                rendered.append(out_.getvalue())

        def ff(self_, extension, filename, settings):
            read_order.append(Path(filename).name)
            try:
                return orig_ff(self_, extension, filename, settings)
            except Exception as e:  # noqa - recorded and re-raised unchanged
                excs[Path(filename).name] = e
                raise

        def on_alarm(signum, frame):
            raise Hang()

        # the process-wide NameSelector: a fresh one per run, which logs the first request for
        # every entity as long as Project() is running
        reserved, logging_on, seen_items = [], [True], set()

        class LoggingSelector(sf.NameSelector):
            def get_name(self_, item):
                if logging_on[0] and id(item) not in seen_items:
                    seen_items.add(id(item))
                    try:
                        owner = Path(item.source_file.path).name
                    except Exception:  # noqa
                        owner = "?"
                    try:
                        key = f"{item.get_dir()}/{str(item.name).lower()}"
                    except Exception:  # noqa
                        key = "?"
                    reserved.append((key, owner))
                return super().get_name(item)

        sf.namelist = LoggingSelector()
        buf = io.StringIO()
        cwd = os.getcwd()
        obs = {"hang": False, "escaped": None}
        proj = None
        old_handler = signal.signal(signal.SIGALRM, on_alarm)
        saved_dbg_env = os.environ.get("FORD_DEBUGGING")
        try:
            fp.find_all_files = lambda s: list(order)
            fp.warn = warn_wrapper
            fp.Project._fortran_file = ff
            os.chdir(d)
            if progress:
                os.environ.pop("FORD_DEBUGGING", None)
            signal.alarm(watchdog)
            with contextlib.redirect_stdout(buf), contextlib.redirect_stderr(buf):
                settings = self.Settings(src_dir=[d], preprocess=False, dbg=dbg, force=force)
                try:
                    proj = fp.Project(settings)
                    if later:
                        obs["later_escaped"] = None
                        try:
                            proj.correlate()
                        except (Hang, KeyboardInterrupt):
                            raise
                        except BaseException as e:  # noqa
                            import traceback
                            obs["later_escaped"] = e
                            obs["later_tb"] = [f"{Path(fr.filename).name}:{fr.name}" for fr in traceback.extract_tb(e.__traceback__)][-6:]
                except Hang:
                    obs["hang"] = True
                except KeyboardInterrupt:
                    raise
                except BaseException as e:  # noqa - SystemExit included: the run is over either way
                    obs["escaped"] = e
                    import traceback
                    obs["escaped_tb"] = [f"{Path(fr.filename).parent.name}/{Path(fr.filename).name}:{fr.name}"
                                         for fr in traceback.extract_tb(e.__traceback__)][-10:]
        except Hang:
            obs["hang"] = True
        finally:
            logging_on[0] = False
            signal.alarm(0)
            signal.signal(signal.SIGALRM, old_handler)
            fp.find_all_files, fp.warn, fp.Project._fortran_file = orig_find, orig_warn, orig_ff
            if saved_dbg_env is not None:
                os.environ["FORD_DEBUGGING"] = saved_dbg_env
            os.chdir(cwd)
        def unrole(text: str) -> str:
            for dn, rn in sorted(role.items(), key=lambda kv: -len(kv[0])):
                text = text.replace(dn, rn)
            return text

        out = unrole(buf.getvalue())
        obs["disk"] = disk
        obs["warn_raw"] = list(warns)
        obs["warn_rendered"] = list(rendered)
        warns = [unrole(w) for w in warns]
        excs = {role.get(k, k): v for k, v in excs.items()}
        # the text of each exception as the handler's message shows it (`err` of the model's `rejectionText`)
        obs["exc_text"] = {k: c20diag_err_text(v) for k, v in excs.items()}
        obs["read_order"] = [role.get(n_, n_) for n_ in read_order]
        obs["reserved"] = [k for k, _ in reserved]
        obs["reserved_owner"] = [f"{k}@{role.get(o, o)}" for k, o in reserved]
        if obs["hang"]:
            self.hangs += 1
        reports: dict[str, list[str]] = {}
        unnamed = 0
        for m in re.finditer(r"^ERROR in file '([^']*)': (.*)$", out, re.M):
            msg = m.group(2)
            rep = next((r for pre, r in REP_OF_MSG if msg.startswith(pre)), None)
            if rep is None and ATTR_MSG.match(msg):
                rep = "unexpectedAttr"
            reports.setdefault(m.group(1), []).append(rep or ("?" + msg[:40]))
        for line in out.splitlines():
            if line.startswith("ERROR") and not line.startswith("ERROR in file '"):
                unnamed += 1
        obs.update(
            warns=warns, excs={k: err_class(v) for k, v in excs.items()}, reports=reports, unnamed_reports=unnamed,
            stdout=out[-400:],
        )
        if proj is not None:
            obs["files"] = [role.get(f.name, f.name) for f in proj.files]
            obs["paths"] = {role.get(f.name, f.name): sorted(paths_of(f)) for f in proj.files}
            obs["details"] = {role.get(f.name, f.name): details_of(f) for f in proj.files}
            obs["lists"] = {
                "modules": [m.name for m in proj.modules],
                "submodules": [m.name for m in proj.submodules],
                "procedures": [m.name for m in proj.procedures],
                "programs": [m.name for m in proj.programs],
                "blockdata": [m.name for m in proj.blockdata],
            }
            obs["lists_owner"] = {
                lst: [role.get(Path(e.source_file.path).name, "?") for e in getattr(proj, lst)]
                for lst in ("modules", "submodules", "procedures", "programs", "blockdata")}
            # the identifiers (page names) of all entities, asked for in project order
            obs["idents"] = {role.get(f.name, f.name): idents_of(f) for f in proj.files}
            # every registered entity belongs to a registered file
            regfiles = set(obs["files"])
            stray = []
            for lst in ("modules", "submodules", "procedures", "programs", "blockdata"):
                for e in getattr(proj, lst):
                    fn = role.get(e.source_file.name, e.source_file.name)
                    if fn not in regfiles:
                        stray.append(f"{lst}:{e.name}@{fn}")
            obs["stray_entities"] = stray
            if later and obs.get("later_escaped") is None:
                from . import c20late
                obs["later_details"] = {role.get(f.name, f.name): c20late.later_details(f) for f in proj.files}
        return obs


# ----------------------------------------------------------------------------------------
# model requests
# ----------------------------------------------------------------------------------------
def b(x):
    return "1" if x else "0"


def stmt_fields(stmts):
    out = []
    for s in stmts:
        out += [s["kind"], s["name"]]
    return out


def src_fields(name, src):
    if src["form"] == "undecodable":
        return [name, "U"]
    if src["form"] == "reader":
        return [name, "R"]
    return [name, "S"] + stmt_fields(src["stmts"])


def model_outcome(resp):
    if resp[0] != "ok":
        return {"status": "bad-request"}
    return {"status": resp[1], "err": resp[2], "reps": [r for r in resp[3].split(",") if r],
            "paths": sorted(resp[4:])}


def split_list(s):
    return [x for x in s.split(",") if x]


def classify(malformed_why, model_out):
    """Known-finding class of an O4/O5 failure, decided by the model of the code as it is."""
    if model_out is None or model_out.get("status") != "registered":
        return None
    if model_out["reps"]:
        return "C20-reported-not-skipped"
    return "C20-malformed-not-detected"


# ----------------------------------------------------------------------------------------
# row stream: spellings against the real recognisers
# ----------------------------------------------------------------------------------------
def real_row(sf, line, branches):
    C = sf.FortranContainer
    var_re = re.compile(C.VARIABLE_STRING.format(""), re.IGNORECASE)
    rx = {
        "format": C.FORMAT_RE, "attrib": C.ATTRIB_RE, "end_": C.END_RE, "modproc": C.MODPROC_RE,
        "blockdata": C.BLOCK_DATA_RE, "block": C.BLOCK_RE, "associate": C.ASSOCIATE_RE, "module": C.MODULE_RE,
        "submodule": C.SUBMODULE_RE, "program": C.PROGRAM_RE, "subroutine": C.SUBROUTINE_RE,
        "namelist": C.NAMELIST_RE, "function": C.FUNCTION_RE, "type": C.TYPE_RE, "interface": C.INTERFACE_RE,
        "enum": C.ENUM_RE, "boundproc": C.BOUNDPROC_RE, "common": C.COMMON_RE, "final": C.FINAL_RE,
        "variable": var_re, "use": C.USE_RE,
    }
    from .c20rx import timed

    def t(fn):      # a recogniser that does not come back within 1 s on a statement of a few dozen characters
        st, res = timed(fn, line, 1.0)
        if st == "hang":
            raise Hang()
        return bool(res)

    ll = line.lower()
    out = []
    for br in branches:
        if br == "contains":
            m = ll == "contains"
        elif br == "perm":
            m = ll in ["public", "private", "protected"]
        elif br == "sequence":
            m = ll == "sequence"
        elif br == "arithgoto":
            m = t(C.ARITH_GOTO_RE.search)
        elif br == "call":
            m = t(C.CALL_RE.search) or t(C.SUBCALL_RE.search)
        else:
            m = t(rx[br].match)
        if m:
            out.append(br)
    return out


def row_stream(ford, drv, rep):
    import ford.sourceform as sf

    branches = drv.call("c20.cascade")[1:]
    kinds = list(SPELL)
    rows = drv.batch([["c20.row", k] for k in kinds])
    n = bad = 0
    hung_lines = set()
    for k, r in zip(kinds, rows):
        want = r[1:] if r[0] == "ok" else ["?"]
        want = [x for x in want if x]
        for sp in SPELL[k]:
            for nm in ("nm1", "Abc_2"):
                line = sp.replace("{n}", nm)
                try:
                    got = real_row(sf, line, branches)
                except Hang:
                    bad += 1
                    hung_lines.add(line)
                    rep.tie_broken(f"correspondence rows: a recogniser of the cascade does not come back within 1 s on the statement {line!r} (kind {k})",
                                   {"stream": "rows", "line": line, "kind": k})
                    continue
                n += 1
                if got != [x for x in branches if x in want]:
                    bad += 1
                    rep.tie_broken(f"correspondence rows: statement {line!r} (kind {k}) is recognised by {got}, model matchRow says {want}",
                                   {"stream": "rows", "line": line, "kind": k, "impl": got, "model": want})
    # bare-call distinction used by the `call` branch
    C = sf.FortranContainer
    for k in kinds:
        for sp in SPELL[k]:
            line = sp.replace("{n}", "nm1")
            if line in hung_lines:
                continue
            if "call" in real_row(sf, line, ["call"]):
                paren = bool(C.CALL_RE.search(line))
                if paren == (k == "callBare"):
                    bad += 1
                    rep.tie_broken(f"correspondence rows: CALL_RE on {line!r} is {paren}, kind {k}",
                                   {"stream": "rows", "line": line, "kind": k})
    return n, bad


# ----------------------------------------------------------------------------------------
def make_bad(rng, how, stmts):
    return {"form": "stmts", "stmts": stmts, "how": how}


def fixed_text(stmts) -> str:
    """The statements in fixed source form: a numeric label in columns 1-5, the statement from column 7,
    nothing beyond column 72 (a longer statement is continued - mark in column 6 - at a blank between two tokens)."""
    lines = []
    for s in stmts:
        t = s["text"]
        m = re.match(r"(\d{1,5})\s+(\S.*)$", t)
        label, body = (m.group(1), m.group(2)) if m else ("", t)
        head = label.ljust(5) + " "
        while len(body) > 66:
            cuts = [j for j in range(1, 66) if body[j] == " " and body[j - 1] != " " and body[j + 1] != " "]
            if not cuts:
                raise common.Infra(f"statement cannot be continued in fixed form: {t!r}")
            j = cuts[-1]
            lines.append(head + body[:j])
            head, body = "     &", body[j + 1:]
        lines.append(head + body)
    return "".join(l + "\n" for l in lines)


CARRIER_EXT = {"free": ".f90", "fpp": ".F90", "fixed": ".f"}


def carrier_disk(names: list[str], carriers: dict[str, str]) -> dict[str, str]:
    """`disk_names`, with the extension of the additional files set by how they are carried: `.F90` is
    run through the preprocessor (pcpp, default settings), `.f` is read as fixed form"""
    disk = disk_names(names)
    for n_, cr in carriers.items():
        if cr != "free" and n_ in disk:
            disk[n_] = disk[n_][: -len(".f90")] + CARRIER_EXT[cr]
    return disk


def src_text(src, rng, carrier="free"):
    if src["form"] == "undecodable":
        return src["bytes"]
    if src["form"] == "reader" or "text" in src:
        return src["text"]
    if carrier == "fixed":
        return fixed_text(src["stmts"])
    return text_of(src["stmts"], rng)


def with_aux(files, srcs, disk):
    """the files of a run plus the files its sources INCLUDE (`aux` of a generated source: names relative to
    the source directory, extensions FORD does not scan); `disk` is extended by them"""
    out = list(files)
    for _, src in srcs:
        for an, at in (src.get("aux") or []) if isinstance(src, dict) else []:
            if an not in disk:
                disk[an] = an
                out.append((an, at))
    return out


def run(tier: str, seed: int, replay: str | None = None) -> int:
    from translate import c20 as tr
    from . import c20rx
    from . import c20diag
    from . import c20late

    rep = Report(PROP, tier, seed)
    lean = lean_prove(PROP, translate=tr.translate, thorough=(tier == "thorough"))
    for x in lean.broken():
        rep.tie_broken("proof: " + x)
    ford = common.import_ford()
    rng = random.Random(seed * 104729 + 20)
    drv = Driver()
    quick = tier == "quick"
    n_sets = 24 if quick else 100
    per_base = 60 if quick else 200
    n_random = 720 if quick else 5000
    n_e2e = 12 if quick else 60
    n_cuts = 14 if quick else 40          # truncations of each laid-out source
    per_stale = 16 if quick else 60       # corruptions of a stale copy of a valid file
    t_start = time.time()
    stream_s: dict[str, float] = {"lean (translate, build, audit)": round(t_start - rep.t0, 1)}

    def lap(name):
        nonlocal t_start
        now = time.time()
        stream_s[name] = round(now - t_start, 1)
        t_start = now

    ev_rows, bad_rows = row_stream(ford, drv, rep)
    lap("rows")

    hist: dict[str, int] = {}
    out_hist: dict[str, int] = {}
    err_hist: dict[str, int] = {}
    rep_hist: dict[str, int] = {}
    pos_hist: dict[str, int] = {}
    cut_hist: dict[str, int] = {}
    carrier_hist: dict[str, int] = {}
    distinct = set()
    n_stale = n_stale_before = n_ident_checks = n_names_checks = 0
    samples = []
    n_cases = n_corr_bad = n_oracle_fail = n_valid_bad = 0

    def bump(h, k):
        h[k] = h.get(k, 0) + 1

    with common.scratch_dir() as root:
        real = Real(ford, root)
        # which variant of the model does this tree correspond to?  (DESIGN 2.1: repaired first)
        probe = real.run([("bad.f90", "contains\n")])
        repaired = probe.get("escaped") is None and "bad.f90" not in probe.get("files", ["bad.f90"])
        # ------------------------------------------------------------ build all cases
        cases = []
        reader_hangs = n_reader = 0
        for gi in range(n_sets):
            ngood = rng.randint(1, 3)
            goods = []
            for j in range(ngood):
                g = Gen(rng, f"g{gi}x{j}")
                st = g.file(allow_program=(j == 0))
                goods.append((f"good{j}.f90", {"form": "stmts", "stmts": st, "how": "valid"}))
            base = Gen(rng, f"b{gi}").file()
            other = Gen(rng, f"c{gi}").file()
            bads = [make_bad(rng, how, st) for how, st in corruptions(rng, base, other, f"b{gi}", per_base)]
            for _ in range(n_random // n_sets):
                bads.append(make_bad(rng, "random", random_sequence(rng, f"b{gi}")))
            bads.append({"form": "undecodable", "how": "undecodable",
                         "bytes": text_of(base).encode() + b"! caf\xe9 \xff\xfe\n"})
            bads.append({"form": "undecodable", "how": "undecodable", "bytes": b"\xff\xfe\x00m\x00o\x00d\x00"})
            # (the last one: a continuation mark at the start of a line of Fortran-like tokens - brackets,
            # array constructors old and new, sections, component accesses: the exception text quotes it)
            reader_lines = ["& x = 1", "&& foo", "x = 1 !> doc after code", "integer :: y !| doc beside code",
                            "x = 2 !* doc beside code", "& " + c20diag.offending_line(rng)]
            for amp in reader_lines:
                k = rng.randint(0, len(base))
                bads.append({"form": "reader", "how": "reader-error",
                             "text": text_of(base[:k]) + amp + "\n" + text_of(base[k:])})
            # ... and the same lines in a file the additional file INCLUDEs (directly, or through a second include
            # file; in the same directory or below it; under an extension FORD does not scan): it is the
            # *including* source file that cannot be parsed and is rejected
            for n_inc in range(4 if quick else 8):
                amp = rng.choice(reader_lines)
                k = rng.randint(0, len(base))
                ext = rng.choice([".inc", ".inc", ".h", ".fi", ".incl"])
                leaf = rng.choice(["", "inc/"]) + f"b{gi}_leaf{n_inc}{ext}"
                leaf_text = "".join(rng.choice(["integer :: inc_a\n", "real :: inc_b(3)\n", "! a comment\n", "\n"])
                                    for _ in range(rng.randint(0, 3))) + "  " + amp + "\n" + rng.choice(["", "integer :: inc_c\n"])
                aux = [(leaf, leaf_text)]
                top = leaf
                if rng.random() < 0.4:
                    top = f"b{gi}_mid{n_inc}{rng.choice(['.inc', '.h'])}"
                    q = rng.choice(['"', "'"])
                    aux.append((top, f"integer :: mid_a\ninclude {q}{leaf}{q}\n"))
                q = rng.choice(['"', "'"])
                inc_stmt = rng.choice(["include ", "INCLUDE ", "  include "]) + q + top + q
                bads.append({"form": "reader", "how": f"reader-error-in-include:{len(aux)}",
                             "text": text_of(base[:k]) + inc_stmt + "\n" + text_of(base[k:]),
                             "reader_text": leaf_text, "aux": aux})
            bads.append(make_bad(rng, "valid-extra", base))
            # whole extra units appended / prepended (a second main program makes the file invalid)
            gq = Gen(rng, f"b{gi}q")
            p1, p2 = gq.program(), gq.program()
            noprog = [s_ for s_ in Gen(rng, f"b{gi}n").module() + Gen(rng, f"b{gi}o").proc()]
            bads.append(make_bad(rng, "two-programs", noprog + p1 + p2))
            bads.append(make_bad(rng, "two-programs", p1 + noprog + p2))
            bads.append(make_bad(rng, "two-programs", p1 + p2 + gq.module()))
            # laid-out sources (doc comments, continuation lines, ...) cut after every kind of line
            bads += layout_cuts(rng, base, n_cuts, "layout")
            # a stale copy of one of the valid files (same unit names), corrupted
            sj = rng.randrange(ngood)
            stale_base = goods[sj][1]["stmts"]
            stale = [make_bad(rng, "stale-" + how, st)
                     for how, st in corruptions(rng, stale_base, other, f"b{gi}s", per_stale)]
            stale += layout_cuts(rng, stale_base, max(4, n_cuts // 2), "stale-layout")
            for b_ in stale:
                b_["stale_of"] = sj
            bads += stale
            # every laid-out file first goes through the reader alone (2 s watchdog): a file on
            # which the reader does not come back is a failing input by itself; at most two of
            # them go on into the project stream, and after five the layouts are dropped
            kept = []
            for bad in bads:
                if "lines" in bad:
                    if reader_hangs >= 5:
                        continue
                    pth = root / "reader_probe.f90"
                    pth.write_text(bad["text"])
                    bad["real_items"] = real_read(pth)
                    n_reader += 1
                    if bad["real_items"][0] == "hang":
                        reader_hangs += 1
                        smallest = None
                        if reader_hangs == 1:      # the shortest tail of the file on which it still hangs
                            j = 1
                            while j < len(bad["lines"]) and smallest is None:
                                pth.write_text("".join(l + "\n" for l in bad["lines"][-j:]))
                                if real_read(pth)[0] == "hang":
                                    smallest = bad["lines"][-j:]
                                j += 1 if j < 4 else j
                        rep.failing_input({"stream": "reader", "how": bad["how"],
                                           "smallest_tail_that_hangs": smallest,
                                           "files": [{"name": "bad.f90", "text": bad["text"]}],
                                           "why": ["O2: FortranReader did not finish reading the file within 2 s (watchdog); "
                                                   "the file ends " + CUT_STATE.get(bad["cut_state"], bad["cut_state"])]}, None)
                        if reader_hangs > 2:
                            continue
                kept.append(bad)
            bads = kept
            for bi, bad in enumerate(bads):
                pos = rng.choice(["first", "middle", "last"]) if ngood > 1 else rng.choice(["first", "last"])
                k = {"first": 0, "last": ngood, "middle": rng.randint(1, max(1, ngood - 1))}[pos]
                if "stale_of" in bad and rng.random() < 0.7:      # read before the file it is a copy of
                    k = rng.randint(0, bad["stale_of"])
                    pos = "first" if k == 0 else "middle"
                extra = []
                if rng.random() < 0.15:
                    b2 = rng.choice(bads)
                    extra = [(rng.randint(0, ngood), b2)]
                dbg, force = True, False
                if rng.random() < 0.06:
                    dbg, force = False, rng.random() < 0.5
                # how the additional file is carried: free form, through the preprocessor (`.F90`, pcpp with the
                # default settings), or in fixed form (`.f`); the statements - and so the model - are the same
                carrier = "free"
                if bad["form"] == "stmts" and "text" not in bad and "stale_of" not in bad:
                    carrier = rng.choices(["free", "fpp", "fixed"], [70, 15, 15])[0]
                cases.append({"gi": gi, "goods": goods, "bad": bad, "pos": pos, "k": k, "extra": extra,
                              "dbg": dbg, "force": force, "carrier": carrier})
        lap("generate cases, reader stream")
        # ------------------------------------------------------------ model, batched
        reqs = []
        for c in cases:
            files = list(c["goods"])
            files.insert(c["k"], ("bad.f90", c["bad"]))
            for n_, (k2, b2) in enumerate(c["extra"]):
                files.insert(min(k2, len(files)), (f"bad{n_ + 2}.f90", b2))
            c["files"] = files
            cfg = [b(c["dbg"]), b(c["force"]), b(repaired)]
            c["cfg"] = cfg
            for name, src in files:
                if src["form"] == "stmts":
                    reqs.append(["c20.parse"] + cfg + stmt_fields(src["stmts"]))
        resp = drv.batch(reqs)
        # inputs of kind R are justified by the reader model of C02: it must raise on these lines
        rcases = [c for c in cases if c["bad"]["form"] == "reader"]
        rresp = drv.batch([["read", "!", ">", "*", "|"] + c["bad"].get("reader_text", c["bad"]["text"]).splitlines() for c in rcases])
        for c, r in zip(rcases, rresp):
            if r[0] != "err":
                n_corr_bad += 1
                rep.tie_broken("correspondence reader: the reader model (C02 readAll) does not raise on a file generated as a reader error",
                               {"stream": "reader", "lines": c["bad"]["text"].splitlines(), "model": r[:3]})
        # laid-out files: reader model == real reader; statements among the items == expected prefix
        lbads = {}
        for c in cases:
            for b_ in [c["bad"]] + [b2 for _, b2 in c["extra"]]:
                if "lines" in b_ and id(b_) not in lbads:
                    lbads[id(b_)] = b_
        lbads = list(lbads.values())
        for b_, r in zip(lbads, drv.batch([["read", *MARKS, *b_["lines"]] for b_ in lbads])):
            bump(cut_hist, b_["cut_state"])
            real_r = b_["real_items"]
            model_r = ("ok", r[1:]) if r[0] == "ok" else ("err", r[1] if len(r) > 1 else "?")
            if real_r[0] == "hang":
                n_corr_bad += 1
                rep.tie_broken(f"correspondence reader: FortranReader hangs on a file that ends {CUT_STATE.get(b_['cut_state'])}; the reader model stops with {len(r) - 1} items",
                               {"stream": "reader", "lines": b_["lines"], "model": r[:6]})
                continue
            if (real_r[0], list(real_r[1]) if real_r[0] == "ok" else real_r[1]) != (model_r[0], list(model_r[1]) if model_r[0] == "ok" else model_r[1]):
                n_corr_bad += 1
                rep.tie_broken(f"correspondence reader: FortranReader gives {real_r}, the reader model {model_r}",
                               {"stream": "reader", "lines": b_["lines"], "impl": real_r, "model": model_r})
                continue
            got_stmts = [x for x in r[1:] if not x.startswith("!")] if r[0] == "ok" else None
            if got_stmts != [s_["text"] for s_ in b_["stmts"]]:
                n_corr_bad += 1
                rep.tie_broken("correspondence reader: the statements the reader delivers for a laid-out file are not the statements that are complete in it",
                               {"stream": "reader", "lines": b_["lines"], "items": r[1:], "expected": [s_["text"] for s_ in b_["stmts"]]})
        ri = 0
        for c in cases:
            c["m_file"] = {}
            for name, src in c["files"]:
                if src["form"] == "stmts":
                    c["m_file"][name] = model_outcome(resp[ri])
                    ri += 1
                else:
                    c["m_file"][name] = {"status": "skipped", "err": "decode" if src["form"] == "undecodable" else "reader",
                                         "reps": [], "paths": []}
        lap("model (batched)")
        # ------------------------------------------------------------ baselines (good files only)
        baselines = {}
        bad_baselines = set()
        for c in cases:
            key = (c["gi"], c["dbg"], c["force"])
            if key not in baselines and real.hangs >= MAX_PROJECT_HANGS:
                baselines[key] = ({}, {"hang": True, "escaped": None})     # not run any more: the run has failed
                bad_baselines.add(key)
            if key not in baselines:
                lrng = random.Random(c["gi"])
                texts = {name: src_text(src, lrng) for name, src in c["goods"]}
                bobs = real.run([(n_, texts[n_]) for n_, _ in c["goods"]], c["dbg"], c["force"])
                baselines[key] = (texts, bobs)
                if bobs["hang"] or (c["dbg"] and bobs["escaped"] is not None):
                    # the *valid* files alone: O2 fails without any additional file
                    bad_baselines.add(key)
                    if any(k_[0] == c["gi"] for k_ in bad_baselines if k_ != key):
                        continue            # the same files, already reported under other settings
                    rep.failing_input({"stream": "projects", "how": "valid files only", "dbg": c["dbg"], "force": c["force"],
                                       "files": [{"name": n_, "text": texts[n_]} for n_, _ in c["goods"]],
                                       "why": ["O2: Project(settings) did not return before the watchdog expired on the valid files alone"
                                               if bobs["hang"] else f"O2: the run on the valid files alone aborted: {bobs['escaped']!r}"]},
                                      c20rx.classify_hang(real.sf, [l for t_ in texts.values() for l in t_.splitlines()])
                                      if bobs["hang"] else None)
        cases = [c for c in cases if (c["gi"], c["dbg"], c["force"]) not in bad_baselines]
        # ------------------------------------------------------------ run the real code
        for ci, c in enumerate(cases):
            texts, base_obs = baselines[(c["gi"], c["dbg"], c["force"])]
            lrng = random.Random(seed * 31 + ci)
            files = [(name, texts[name] if name in texts else
                      src_text(src, lrng, c["carrier"] if name == "bad.f90" else "free")) for name, src in c["files"]]
            disk_ = carrier_disk([n_ for n_, _ in files], {"bad.f90": c["carrier"]})
            files = with_aux(files, c["files"], disk_)
            obs = real.run(files, c["dbg"], c["force"], disk=disk_)
            c["real_skipped"] = (not obs["hang"] and obs["escaped"] is None and "bad.f90" not in obs.get("files", ["bad.f90"]))
            c["obs"], c["run_files"] = obs, files
            if real.hangs >= MAX_PROJECT_HANGS:
                # every further hang costs the watchdog time; the run has its failing inputs and is not a pass
                rep.tie_broken(f"projects: Project() did not return on {real.hangs} cases; the remaining "
                               f"{len(cases) - ci - 1} of {len(cases)} cases were not run")
                break
        lap("projects: real code")
        n_cases_not_run = len([c for c in cases if "obs" not in c])
        cases = [c for c in cases if "obs" in c]
        # ------------------------------------------------------------ project model, fed with the order
        # in which the implementation really read the files (files it never reached keep their place)
        preqs = []
        n_misplaced = 0
        for c in cases:
            intended = [n_ for n_, _ in c["files"]]
            read = [n_ for n_ in c["obs"]["read_order"] if n_ in intended]
            order_used = read + [n_ for n_ in intended if n_ not in read]
            if order_used != intended:
                n_misplaced += 1
            srcs = dict(c["files"])
            proj = ["c20.project"] + c["cfg"]
            for n_ in order_used:
                proj += src_fields(n_, srcs[n_]) + ["|"]
            preqs.append(proj)
        for c, r in zip(cases, drv.batch(preqs)):
            c["m_proj"] = r
        rep.coverage["cases_read_in_another_order_than_intended"] = n_misplaced
        # the handler's message for every file whose constructor raised: model `rejectionText` (table
        # `Gen.rejectionRules`) on the path the loop computes and the text of the exception
        mreqs, mkeys = [], []
        for ci_, c in enumerate(cases):
            o_ = c["obs"]
            if c["dbg"] and not o_["hang"] and o_["escaped"] is None:
                for n_, t_ in o_["exc_text"].items():
                    if n_ in o_["disk"]:
                        mreqs.append(["c20.rejectionmsg", o_["disk"][n_], t_])
                        mkeys.append((ci_, n_))
        for (ci_, n_), r in zip(mkeys, drv.batch(mreqs)):
            cases[ci_].setdefault("m_msg", {})[n_] = r[1] if r[0] == "ok" and len(r) > 1 else None
        n_msg_checks = len(mkeys)
        # ------------------------------------------------------------ compare
        for ci, c in enumerate(cases):
            texts, base_obs = baselines[(c["gi"], c["dbg"], c["force"])]
            obs, files = c["obs"], c["run_files"]
            n_cases += 1
            bad = c["bad"]
            bump(hist, bad["how"].split("@")[0].split(":")[0])
            bump(pos_hist, c["pos"])
            bump(carrier_hist, c["carrier"])
            malformed = None
            if bad["form"] == "stmts":
                malformed = validate(bad["stmts"])
                if malformed is None and bad.get("partial"):
                    malformed = "file ends inside a continued statement"
                if malformed is None:
                    n_valid_bad += 1
                if "stale_of" in bad:
                    n_stale += 1
                    if c["k"] <= bad["stale_of"]:
                        n_stale_before += 1
            else:
                malformed = bad["form"]
            mo = c["m_file"]["bad.f90"]
            bump(out_hist, mo["status"] + ("+reported" if mo["reps"] else ""))
            if mo["status"] == "skipped":
                bump(err_hist, mo["err"])
            for r in mo["reps"]:
                bump(rep_hist, r)
            if bad["form"] == "stmts":
                distinct.add(common.digest([(s["kind"]) for s in bad["stmts"]]))
            replay_case = {
                "stream": "projects", "case": ci, "how": bad["how"], "position": c["pos"], "dbg": c["dbg"], "force": c["force"],
                "carrier": c["carrier"], "names_on_disk": obs.get("disk"),
                "files": [{"name": n_, "text": t if isinstance(t, str) else repr(t)} for n_, t in files],
                "bad_kinds": [s["kind"] for s in bad.get("stmts", [])],
            }
            # ---------------- correspondence: each file's outcome
            tie = None
            if obs["hang"]:
                tie = "implementation hangs"
            elif c["dbg"]:
                if obs["escaped"] is not None:
                    tie = f"exception escaped Project(): {obs['escaped']!r}"
                else:
                    for name, src in c["files"]:
                        m = c["m_file"][name]
                        registered = name in obs["files"]
                        if registered != (m["status"] == "registered"):
                            tie = f"{name}: implementation {'registered' if registered else 'skipped (' + obs['excs'].get(name, '?') + ')'}, model {m['status']} {m.get('err')}"
                            break
                        if not registered and obs["excs"].get(name) != m["err"]:
                            tie = f"{name}: implementation raised {obs['excs'].get(name)}, model {m['err']}"
                            break
                        if obs["reports"].get(name, []) != m["reps"]:
                            tie = f"{name}: implementation reported {obs['reports'].get(name, [])}, model {m['reps']}"
                            break
                        if registered and obs["paths"][name] != m["paths"]:
                            tie = f"{name}: entity paths differ: implementation {obs['paths'][name]}, model {m['paths']}"
                            break
                    if tie is None:
                        mp = c["m_proj"]
                        want = {"files": split_list(mp[1]), "modules": split_list(mp[2]), "submodules": split_list(mp[3]),
                                "procedures": split_list(mp[4]), "programs": split_list(mp[5]), "blockdata": split_list(mp[6])}
                        got = dict(obs["lists"], files=obs["files"])
                        if want != got:
                            tie = f"project lists differ: implementation {got}, model {want}"
                        mw = sorted(x.split("=")[0] for x in split_list(mp[7]))
                        gw = sorted(n_ for n_ in obs["excs"])
                        if tie is None and mw != gw:
                            tie = f"warned files differ: implementation {gw}, model {mw}"
                        # ... and what the handler said about each of them
                        for n_, want_msg in c.get("m_msg", {}).items():
                            if tie is None and want_msg not in obs["warn_raw"]:
                                tie = (f"{n_}: the handler's message for the exception text {obs['exc_text'][n_]!r} is not the "
                                       f"model's (Gen.rejectionRules) {want_msg!r}: warn() was given {obs['warn_raw']}")
                        # identifiers requested from the process-wide NameSelector while Project() ran
                        # (a reader error hides the statements before it from the model: not compared)
                        if tie is None and all(src["form"] != "reader" for _, src in c["files"]):
                            n_names_checks += 1
                            mn = split_list(mp[9][2:]) if len(mp) > 9 and mp[9].startswith("N=") else ["?"]
                            if mn != obs["reserved"]:
                                tie = (f"identifiers requested from the NameSelector during Project(): implementation "
                                       f"{obs['reserved_owner']}, model {mn}")
            else:
                mp = c["m_proj"]
                m_abort = mp[8].split("=") if len(mp) > 8 and mp[8] else None
                if m_abort is None:
                    if obs["escaped"] is not None:
                        tie = f"dbg=False: implementation aborted with {obs['escaped']!r}, model completes"
                    elif obs["files"] != split_list(mp[1]):
                        tie = f"dbg=False: registered files differ {obs['files']} vs {split_list(mp[1])}"
                else:
                    if obs["escaped"] is None:
                        tie = f"dbg=False: model aborts at {m_abort}, implementation completed"
                    elif err_class(obs["escaped"]) != m_abort[1]:
                        tie = f"dbg=False: implementation aborted with {err_class(obs['escaped'])}, model {m_abort[1]}"
            if tie is not None:
                n_corr_bad += 1
                rep.tie_broken("correspondence projects: " + tie, dict(replay_case, tie=tie))
            # ---------------- property oracle (default settings only; real code only)
            if not c["dbg"]:
                continue
            why = []
            cls_needed = False
            badnames = [n_ for n_, _ in c["files"] if n_.startswith("bad")]
            if obs["hang"]:
                why.append("O2: Project(settings) did not return before the watchdog (10 s; 3 s after a first hang) expired")
            elif obs["escaped"] is not None:
                why.append(f"O2: the run aborted: {obs['escaped']!r}")
            else:
                goodnames = [n_ for n_, _ in c["goods"]]
                for gname in goodnames:
                    if gname not in obs["files"]:
                        why.append(f"O1: valid file {gname} is no longer registered")
                    elif obs["paths"][gname] != base_obs["paths"].get(gname):
                        why.append(f"O1: entity tree of {gname} changed: {obs['paths'][gname]} vs {base_obs['paths'].get(gname)}")
                    elif obs["details"][gname] != base_obs["details"].get(gname):
                        diff = [f"{a} (without the additional file: {b_})" for a, b_ in
                                zip(obs["details"][gname], base_obs["details"].get(gname) or []) if a != b_]
                        why.append(f"O1: what is recorded inside the entities of {gname} (variables, call chains, uses) changed: {diff[:3]}")
                if [f for f in obs["files"] if f in goodnames] != base_obs["files"]:
                    why.append("O1: order of the valid files changed")
                rejected = [n_ for n_ in badnames if n_ not in obs["files"]]
                # lists restricted to entities of good files must be unchanged (by owner: a stale
                # copy that FORD registers carries the same names as the original)
                for lst, names in obs["lists"].items():
                    rest = [x for x, o in zip(names, obs["lists_owner"][lst]) if o not in badnames]
                    if rest != base_obs["lists"][lst]:
                        why.append(f"O1: project.{lst} restricted to the valid files changed: {rest} vs {base_obs['lists'][lst]}")
                # identifiers (page names, URLs, anchors are built from them) of the valid files:
                # the same as without the additional files, when all of those were rejected
                if len(rejected) == len(badnames):
                    n_ident_checks += 1
                    for gname in goodnames:
                        gi_, bi_ = obs["idents"].get(gname), base_obs["idents"].get(gname)
                        if gi_ != bi_ and gi_ is not None and bi_ is not None:
                            diff = [f"{a} (without the rejected file: {b_.split('=', 1)[1]})" for a, b_ in zip(gi_, bi_) if a != b_]
                            why.append(f"O1: identifiers of the entities of {gname} changed although {rejected} "
                                       f"was rejected: {diff[:4]}")
                if obs["stray_entities"]:
                    why.append(f"O1: entities of unregistered files leaked into the project lists: {obs['stray_entities']}")
                for n_ in rejected:
                    if not any(n_ in w for w in obs["warns"]):
                        why.append(f"O3: {n_} was rejected but no warning names it")
                    elif not c20diag.named_on_terminal(obs, n_):
                        why.append(f"O3: {n_} ({obs['disk'][n_]}) was rejected and warn() was given its name, but what "
                                   f"warn() put on the terminal does not name it: {obs['warn_rendered']}")
                if obs["unnamed_reports"]:
                    why.append("O3: an ERROR diagnostic does not name its file")
                if not why and malformed is not None:
                    if "bad.f90" in obs["files"]:
                        why.append(f"O4: malformed file ({malformed}) is registered")
                        cls_needed = True
                        if not obs["reports"].get("bad.f90") and not any("bad.f90" in w for w in obs["warns"]):
                            why.append("O5: ... and nothing was reported for it")
            if why:
                n_oracle_fail += 1
                cls = classify(malformed, mo) if cls_needed else None
                rep.failing_input(dict(replay_case, why=why, malformed=malformed, observed_files=obs.get("files"),
                                       reports=obs.get("reports"), warns=obs.get("warns")), cls)
            if len(samples) < 3 and mo["status"] == "skipped" and bad["form"] == "stmts" and len(bad["stmts"]) > 3:
                samples.append({"how": bad["how"], "bad_file": text_of(bad["stmts"]).splitlines(), "position": c["pos"],
                                "outcome": obs["excs"].get("bad.f90"), "warns": obs["warns"]})
        lap("projects: model, compare, oracle")
        # ------------------------------------------------------------ the regular expressions
        corpus = sorted({s_["text"] for c in cases[:400] for _, src in c["files"] if src["form"] == "stmts"
                         for s_ in src["stmts"]})
        rx_cov = c20rx.run_stream(rep, drv, real, random.Random(seed * 7919 + 5), quick, corpus)
        lap("patterns")
        # ------------------------------------------------------------ the diagnostic channel
        diag_cov = c20diag.run_stream(rep, drv, real, random.Random(seed * 6151 + 11), quick, cases, baselines)
        lap("diagnostics")
        # ------------------------------------------------------------ enumerator values; INCLUDE in the valid files; correlate
        late_cov = c20late.run_stream(rep, drv, real, random.Random(seed * 4241 + 17), quick, cases, baselines)
        lap("enumerators, later stages")
        # ------------------------------------------------------------ e2e: full runs
        n_e2e_done, e2e_fail = e2e_stream(rep, rng, cases, baselines, n_e2e, seed)
        lap("e2e")
    drv.close()
    rep.coverage.update(
        evaluations=ev_rows + n_cases + n_e2e_done + diag_cov["project_runs"] + late_cov["later_runs"] + late_cov["enum_blocks_compared"],
        distinct_nontrivial=len(distinct),
        rule="a case = good files + corrupted file(s); non-trivial = the bad file is a statement sequence; "
             "distinct by digest of its statement-kind sequence",
        samples=samples,
        traces_validated_against_impl=n_cases + ev_rows,
        correspondence_disagreements=n_corr_bad + bad_rows,
        oracle_failures=n_oracle_fail,
        corruption_histogram=dict(sorted(hist.items())),
        position_histogram=dict(sorted(pos_hist.items())),
        carrier_histogram=dict(sorted(carrier_hist.items())),
        model_outcome_histogram=dict(sorted(out_hist.items())),
        exception_histogram=dict(sorted(err_hist.items())),
        report_histogram=dict(sorted(rep_hist.items())),
        corruptions_still_valid=n_valid_bad,
        laid_out_files_read_by_reader_and_model=n_reader,
        laid_out_files_by_state_at_end_of_file=dict(sorted(cut_hist.items())),
        reader_hangs=reader_hangs,
        project_hangs=real.hangs,
        valid_file_sets_on_which_the_run_does_not_complete=len(bad_baselines),
        cases_not_run_after_repeated_hangs=n_cases_not_run,
        stale_copy_cases=n_stale,
        stale_copy_cases_read_before_the_original=n_stale_before,
        identifier_comparisons=n_ident_checks,
        name_table_comparisons=n_names_checks,
        handler_message_comparisons=n_msg_checks,
        e2e_runs=n_e2e_done,
        patterns_stream=rx_cov,
        diagnostics_stream=diag_cov,
        later_stages_stream=late_cov,
        seconds_per_stream=stream_s,
        variant=("repaired (a file with print_error reports is rejected when its constructor returns)" if repaired
                 else "asIs (print_error under dbg returns; reported files stay registered)"),
    )
    rep.assumptions += [
        "statements are rendered one per line from 33 statement kinds; the recognisers themselves (CPython re) are on the implementation side, matchRow is validated on the rows stream",
        "the reader is not re-modelled here: reader errors and decoding errors are inputs of kind R / U (FortranReader is modelled in FordModel/Reader.lean, property C02); on the laid-out files that model is compared with the real reader, item by item",
        "identifiers are compared as handed out when asked for in project order right after Project() returned (and in the complete runs of the e2e stream as they end up in the site)",
        "regular expressions: the model's alphabet is ASCII, look-behind assertions are taken as true, greedy / lazy order is not modelled (it does not change the number of ways); exponential blow-up of a loop is excluded by the table theorem for the `functional` class and searched for by pumping every loop; polynomial slowness is not looked for",
        "a direct call of a pattern is given 0.4 s (confirmed with 2 s) on a subject of 48 copies of a sampled loop iteration; Project() is given 10 s (4 s for a pumped statement)",
        "diagnostics: what warn() prints is compared with blanks removed (rich wraps at the console width and expands tabs); a file counts as named when the last component of its path appears character by character; names are drawn from printable characters (no control characters, no newline); the output is not a terminal, so the progress bar is drawn once, when it is closed, with the file read last",
        "rich (markup, emoji table, style names) and pcpp are third-party code on the implementation side: rich's escape / render are modelled as they are in the installed version and compared on every run, the model abstains (counted) where rich's style / emoji / handler tables decide; pcpp is not modelled (oracle only)",
    ]
    return rep.finish(lean)


def site_digest(out: Path, root: Path) -> dict:
    """relative path -> sha1 of the content with the scratch directory's own name masked
    (the two runs that are compared live in different scratch directories)."""
    import hashlib

    res = {}
    mask = str(root).encode()
    for p in sorted(Path(out).rglob("*")):
        if p.is_file():
            res[str(p.relative_to(out))] = hashlib.sha1(p.read_bytes().replace(mask, b"<ROOT>")).hexdigest()
    return res


def e2e_stream(rep, rng, cases, baselines, n, seed):
    """Complete ford runs: site with a rejected bad file == site without it."""
    from . import e2e

    ford = common.import_ford()
    import ford.fortran_project as fp

    picked = [c for c in cases if c["dbg"] and c.get("real_skipped") and not c["extra"] and c.get("carrier", "free") == "free"
              and not c["bad"].get("aux")]
    rng.shuffle(picked)
    # a share of the runs for stale copies read before their original and for laid-out sources
    stale = [c for c in picked if "stale_of" in c["bad"] and c["k"] <= c["bad"]["stale_of"]]
    laid = [c for c in picked if "lines" in c["bad"] and "stale_of" not in c["bad"]]
    first = stale[: max(2, n // 3)] + laid[: max(1, n // 6)]
    picked = first + [c for c in picked if not any(c is f for f in first)]
    done = fails = 0
    kinds_done = {"stale copy read before the original": 0, "laid-out source": 0, "other": 0}
    base_digest = {}
    orig_find = fp.find_all_files
    unusable = set()   # good sets on which the complete pipeline fails by itself (e.g. a submodule of an absent module)
    for c in picked:
        if done >= n:
            break
        if c["gi"] in unusable:
            continue
        texts, _ = baselines[(c["gi"], True, False)]
        lrng = random.Random(seed * 977 + done)
        with_bad = [(name, texts[name] if name in texts else src_text(src, lrng)) for name, src in c["files"]]
        without = [(n_, t) for n_, t in with_bad if n_ in texts]
        digests = []
        for variant in (without, with_bad):
            if variant is without and c["gi"] in base_digest:
                digests.append(base_digest[c["gi"]])
                continue
            with common.scratch_dir() as d:
                disk = disk_names([n_ for n_, _ in variant])
                pf = e2e.write_project(d, {disk[n_]: t for n_, t in variant}, {"incl_src": "true"})
                order = [d / "src" / disk[n_] for n_, _ in variant]
                fp.find_all_files = lambda s, order=order: list(order)

                def on_alarm(signum, frame):
                    raise Hang()

                old = signal.signal(signal.SIGALRM, on_alarm)
                signal.alarm(60)
                try:
                    res = e2e.run_inprocess(pf)
                finally:
                    signal.alarm(0)
                    signal.signal(signal.SIGALRM, old)
                    fp.find_all_files = orig_find
                if res["rc"] not in (0, None) or res["exc"]:
                    digests.append({"<run>": f"rc={res['rc']} exc={res['exc']}"})
                else:
                    digests.append(site_digest(res["out"], d))
            if variant is without:
                base_digest[c["gi"]] = digests[-1]
                if "<run>" in digests[-1]:
                    unusable.add(c["gi"])
                    break
        if c["gi"] in unusable:
            continue
        done += 1
        kinds_done["stale copy read before the original" if any(c is f for f in stale) else
                   "laid-out source" if "lines" in c["bad"] else "other"] += 1
        if digests[0] != digests[1]:
            fails += 1
            diff = sorted(k for k in set(digests[0]) | set(digests[1]) if digests[0].get(k) != digests[1].get(k))
            rep.failing_input({"stream": "e2e", "how": c["bad"]["how"], "position": c["pos"],
                               "files": [{"name": n_, "text": t if isinstance(t, str) else repr(t)} for n_, t in with_bad],
                               "why": [f"O1: generated site differs from the site without the rejected file in {diff[:8]}"],
                               "run": {k: v for k, v in digests[1].items() if k == "<run>"}}, None)
    rep.coverage["e2e_good_sets_unusable"] = len(unusable)
    rep.coverage["e2e_runs_by_kind_of_rejected_file"] = kinds_done
    return done, fails
