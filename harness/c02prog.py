"""C02 - lexical helpers, small-program generator and entity-tree observation.

  lex(s)            Fortran free-form lexical tokens of one statement (the property oracle's
                    reading of "the statement": character literals whole and verbatim, names /
                    numbers, two-character operators, single characters; blanks between tokens
                    are not significant, blanks inside tokens are)
  gen_program(rng)  a module as a list of statements (atoms + doc lines) in which character
                    literals stand wherever FORD keeps or interprets statement text
  observe(file)     what FORD's FortranSourceFile recorded, as a JSON-like value in which
                    blanks outside character literals are removed and literals are kept verbatim
"""
from __future__ import annotations

NBSP = "\xa0"
OPS2 = ("**", "//", "==", "/=", "<=", ">=", "=>", "::", "(/", "/)")
WORD = set("abcdefghijklmnopqrstuvwxyzABCDEFGHIJKLMNOPQRSTUVWXYZ0123456789_.")


def lex(s: str) -> list[str]:
    """Lexical tokens of a free-form statement.  A character literal runs from its opening
    quote to the first matching quote that is not doubled (an unterminated one to the end)."""
    out = []
    i, n = 0, len(s)
    while i < n:
        c = s[i]
        if c in " \t":
            i += 1
        elif c in "'\"":
            j = i + 1
            while j < n:
                if s[j] == c:
                    if j + 1 < n and s[j + 1] == c:
                        j += 2
                        continue
                    break
                j += 1
            out.append(s[i:j + 1])
            i = j + 1
        elif c in WORD:
            j = i
            while j < n and s[j] in WORD:
                j += 1
            out.append(s[i:j])
            i = j
        elif s[i:i + 2] in OPS2:
            out.append(s[i:i + 2])
            i += 2
        else:
            out.append(c)
            i += 1
    return out


def needs_sep(a: str, b: str) -> bool:
    """True when writing token `b` directly after token `a` would not read back as a, b."""
    return lex(a + b) != [a, b]


def atoms_of(text: str):
    """code text -> list of ('code', token)"""
    return [("code", t) for t in lex(text)]


def squeeze(s: str) -> str:
    """Remove blanks outside character literals (doubled quotes handled by re-opening)."""
    out = []
    q = None
    for c in s:
        if q is None:
            if c in "'\"":
                q = c
                out.append(c)
            elif c in " \t":
                continue
            else:
                out.append(c)
        else:
            out.append(c)
            if c == q:
                q = None
    return "".join(out)


# ---------------------------------------------------------------------------------------
# literals

LITP = [",", ";", "!", "&", "(", ")", "=", "::", "a", "b c", "  ", " ", "OTHER", "DOUBLED", "call g()",
        "end module", "contains", "function f()", "Q0Q", "%", "//", "id,name", ", ", ",,", "x,", ",y",
        "!!", "!>", "end", "1", "(a,i0)", "[", "]", "=>", "subroutine s", "*", "==", "   ", "'",
        " ,", "= ", " =", "( ", " )", "a, b", ": :", "Ab", "E", "\t",
        # ordinary characters of a Fortran literal that other languages / regex and template engines
        # treat specially, and digits (a literal may spell one of FORD's own placeholders)
        "\\", "\\\\", "C:\\", "\\n", "\\1", "\\g<0>", "%", "#", "$", "{x}", "~", "`", "?", "@", "^", "<b>", "0", "2", "10"]


def make_lit(rng, maxp=4, pieces=LITP, lookalike=0.12):
    """A character literal.  With probability `lookalike` its text is a small number in quotes -
    the spelling of the placeholders (`"0"`, `"1"`, ...) FORD's masking pass writes into the
    statement: literal text is data, so a literal that looks like a placeholder must stay the
    literal it is, at its own place."""
    q = rng.choice("'\"")
    if rng.random() < lookalike:
        q = rng.choice("\"\"\"'")
        return ("lit", q + str(rng.choice([0, 0, 1, 1, 2, 3, 10])) + q)
    other = '"' if q == "'" else "'"
    body = ""
    for _ in range(rng.randint(0, maxp)):
        p = rng.choice(pieces)
        if p == "OTHER" or p == "'":
            body += other
        elif p == "DOUBLED":
            body += q + q
        elif p == "Q0Q":
            body += other + "0" + other
        else:
            body += p
    return ("lit", q + body + q)


# ---------------------------------------------------------------------------------------
# programs

class Prog:
    """statements: list of dict(atoms=[(kind, text)], docs=[str]); `inits` / `binds` record the
    source text FORD is expected to keep for each variable / procedure."""

    def __init__(self, rng, tag):
        self.rng = rng
        self.tag = tag
        self.stmts = []
        self.inits = {}    # (scope path, variable name) -> source expression (atoms)
        self.binds = {}    # procedure name -> source text of the bind(...) argument (atoms)
        self.decls = {}    # first declared name -> index of the declaration statement
        self.nlit = 0
        self.k = 0

    def name(self, p):
        self.k += 1
        return f"{p}{self.tag}_{self.k}"

    def lit(self, maxp=4):
        self.nlit += 1
        return make_lit(self.rng, maxp)

    def add(self, *parts, doc=False):
        atoms = []
        for p in parts:
            if isinstance(p, tuple):
                atoms.append(p)
            elif isinstance(p, list):
                atoms.extend(p)
            else:
                atoms.extend(atoms_of(p))
        docs = []
        if doc and self.rng.random() < 0.5:
            docs = [self.rng.choice(["!! doc", "!! it's a doc; with & and 'q", "!!d2", "!! see \"x", "!! a, b"])
                    for _ in range(self.rng.choice([1, 1, 2]))]
        self.stmts.append({"atoms": atoms, "docs": docs})

    # ---- expressions with literals (never an `=` outside parentheses: that is C18's finding)
    def expr(self):
        r = self.rng.random()
        L = self.lit
        if r < 0.4:
            return [L()]
        if r < 0.55:
            return [L(), *atoms_of("//"), L()]
        if r < 0.65:
            return [L(), *atoms_of("// nm //"), L()]
        if r < 0.75:
            return [*atoms_of("trim("), L(), *atoms_of(")")]
        if r < 0.85:
            return [*atoms_of("repeat("), L(), *atoms_of(", 3)")]
        if r < 0.93:
            return [*atoms_of("merge("), L(), *atoms_of(","), L(), *atoms_of(", flag)")]
        return [*atoms_of("achar(10) //"), L()]

    def decl(self, scope, in_type=False):
        r = self.rng.random()
        if in_type:   # components: no PARAMETER
            r = 0.35 + 0.4 * r
        nm = self.name("v")
        self.decls[nm] = len(self.stmts)
        if r < 0.35:
            e = self.expr()
            self.add("character(len=*), parameter ::", nm, "=", e, doc=True)
            self.inits[(scope, nm)] = e
        elif r < 0.6:
            e = self.expr()
            nm2 = self.name("v")
            if self.rng.random() < 0.5:
                e2 = self.expr()
                self.add(self.rng.choice(["character(len=12) ::", "character(12) ::", "character*12 ::"]),
                         nm, "=", e, ",", nm2, "=", e2, doc=True)
                self.inits[(scope, nm2)] = e2
            else:
                self.add("character(len=12), save ::", nm, "=", e, doc=True)
            self.inits[(scope, nm)] = e
        elif r < 0.75:
            # array constructor with 2 .. 5 literals (the k-th literal of a statement need not be
            # the k-th placeholder look-alike)
            n = self.rng.choice([2, 2, 3, 3, 4, 5])
            items = []
            for i in range(n):
                if i:
                    items += atoms_of(",")
                items.append(self.lit(2))
            if self.rng.random() < 0.5:
                e = [*atoms_of("["), *items, *atoms_of("]")]
            else:
                e = [*atoms_of("(/"), *items, *atoms_of("/)")]
            self.add("character(len=4), dimension(%d) ::" % n, nm, "=", e, doc=True)
            self.inits[(scope, nm)] = e
        elif r < 0.9:
            f = self.rng.choice(["len(", "len_trim(", "iachar("])
            e = [*atoms_of(f), self.lit(), *atoms_of(")")]
            if self.rng.random() < 0.4:
                e = [*atoms_of("index("), self.lit(), *atoms_of(","), self.lit(2), *atoms_of(")")]
            self.add("integer, parameter ::", nm, "=", e, doc=True)
            self.inits[(scope, nm)] = e
        else:
            self.add(self.rng.choice(["integer ::", "real ::", "logical ::"]), nm, doc=True)

    def execs(self, n):
        L = self.lit
        for _ in range(n):
            r = self.rng.random()
            if r < 0.2:
                self.add("call", self.name("p"), "(", L(), ", nm,", L(), ")")
            elif r < 0.3:
                self.add("print *,", L(), ", nm")
            elif r < 0.4:
                self.add("write(*,", L(), ") nm,", L())
            elif r < 0.5:
                self.add("nm =", self.name("g"), "(", L(), ") + 1")
            elif r < 0.6:
                self.add("if (nm ==", L(), ") call", self.name("p"), "(", L(), ")")
            elif r < 0.68:
                self.add("nm =", L(), "// nm")
            elif r < 0.74:
                self.add(self.rng.choice(["stop", "error stop"]), L())
            elif r < 0.8:
                self.add("open(unit=10, file=", L(), ", status=", L(), ")")
            elif r < 0.9:
                self.add("if (nm ==", L(), ") then")
                self.add("nm =", L())
                self.add("end if")
            else:
                self.add("select case (nm)")
                self.add("case (", L(), ",", L(), ")")
                self.add("call", self.name("p"), "(", L(), ")")
                self.add("end select")

    def proc(self, scope):
        nm = self.name("s")
        fn = self.rng.random() < 0.4
        head = ["function" if fn else "subroutine", nm, "(nm, flag)"]
        if fn:
            head += ["result(res)"]
        if self.rng.random() < 0.5:
            b = [*atoms_of(self.rng.choice(["c, name=", "C,name ="])), make_lit(self.rng, 2, BINDP)]
            self.nlit += 1
            head += ["bind(", b, ")"]
            self.binds[nm] = b
        self.add(*head, doc=True)
        sc = scope + "/" + nm
        self.add("character(len=*) :: nm")
        self.add("logical :: flag")
        if fn:
            self.add("integer :: res")
        for _ in range(self.rng.randint(0, 2)):
            self.decl(sc)
        self.execs(self.rng.randint(1, 3))
        self.add("end", "function" if fn else "subroutine", nm)

    def module(self):
        nm = self.name("m")
        self.add("module", nm, doc=True)
        if self.rng.random() < 0.5:
            self.add("implicit none")
        self.add("logical :: flag")
        self.add("character(len=3) :: nm")
        for _ in range(self.rng.randint(1, 3)):
            self.decl(nm)
        if self.rng.random() < 0.5:
            t = self.name("t")
            self.add("type ::", t, doc=True)
            for _ in range(self.rng.randint(1, 2)):
                self.decl(nm + "/" + t, in_type=True)
            self.add("end type", t)
        nproc = self.rng.choice([0, 1, 1, 2])
        if nproc:
            self.add("contains")
            for _ in range(nproc):
                self.proc(nm)
        self.add("end module", nm)
        return nm


# no HTML/back-slash material here: how bind names are *displayed* is C18's business
BINDP = ["a", "b_c", ",", ";", "(", ")", "!", "&", " ", "OTHER", "DOUBLED", "name=", "x,y", "bind(c)",
         ", ", " ,", "  ", "= ", " =", "( ", " )", "a, b", "C", "Name", "0", "1"]


def gen_program(rng, tag):
    p = Prog(rng, tag)
    p.module()
    return p


# literal texts of the bounded-exhaustive declaration sweep: placeholder look-alikes in both quote
# kinds, a placeholder look-alike inside a literal, an empty literal, a comma, a trailing backslash
SWEEP_LITS = ['"0"', '"1"', '"2"', "'0'", "'1'", '"x"', "'a,b'", '""', "'\"0\"'", '"\\"']


def sweep_programs(maxn=3, per_module=40):
    """Bounded-exhaustive: every array constructor `[L1, ..., Ln]` (n <= maxn) over SWEEP_LITS as the
    initial value of a declaration, `per_module` declarations per generated module."""
    import itertools

    combos = [c for n in range(1, maxn + 1) for c in itertools.product(SWEEP_LITS, repeat=n)]
    for i in range(0, len(combos), per_module):
        p = Prog(None, "w%d" % (i // per_module))
        mod = p.name("m")
        p.add("module", mod)
        for c in combos[i:i + per_module]:
            nm = p.name("v")
            e = atoms_of("[")
            for j, t in enumerate(c):
                if j:
                    e += atoms_of(",")
                e.append(("lit", t))
                p.nlit += 1
            e += atoms_of("]")
            p.decls[nm] = len(p.stmts)
            p.add("character(len=4), dimension(%d) ::" % len(c), nm, "=", e)
            p.inits[(mod, nm)] = e
        p.add("end module", mod)
        yield p


def neutralise(stmts):
    """The same program with every literal replaced by a neutral one (`'@k@'`); returns the
    statements and the list of the original literals."""
    out, lits = [], []
    for st in stmts:
        atoms = []
        for kind, t in st["atoms"]:
            if kind == "lit":
                atoms.append(("lit", f"'@{len(lits)}@'"))
                lits.append(t)
            else:
                atoms.append((kind, t))
        out.append({"atoms": atoms, "docs": st["docs"]})
    return out, lits


def canonical_lines(stmts):
    """One statement per line, tokens separated by one blank, docs on the following lines."""
    lines = []
    for st in stmts:
        lines.append(" ".join(t for _, t in st["atoms"]))
        lines.extend(st["docs"])
    return lines


# ---------------------------------------------------------------------------------------
# observation of FORD's entity tree

def sq(s):
    if s is None:
        return None
    return squeeze(str(s).replace(NBSP, " "))


def docs_of(e):
    """doc lines of an entity; the empty doc lines the reader emits for blank lines that follow
    documentation, and trailing blanks, are not significant (same rules as the statement oracle)"""
    return [d.rstrip() for d in e.doc_list if d.strip() != ""]


def obs_var(v):
    if not hasattr(v, "vartype"):
        return {"name": str(getattr(v, "name", v)), "notvar": type(v).__name__}
    return {"name": v.name, "vartype": v.vartype, "kind": sq(v.kind), "strlen": sq(v.strlen),
            "attribs": [sq(a) for a in v.attribs], "dimension": sq(v.dimension), "parameter": bool(v.parameter),
            "optional": bool(v.optional), "intent": v.intent, "points": bool(v.points),
            "initial": sq(v.initial), "doc": docs_of(v)}


def obs_calls(p):
    out = []
    for c in getattr(p, "calls", []) or []:
        out.append([str(getattr(x, "name", x)) for x in c] if isinstance(c, (list, tuple)) else str(getattr(c, "name", c)))
    return out


def obs_proc(p):
    o = {"name": p.name, "proctype": p.proctype, "args": [str(getattr(a, "name", a)) for a in p.args],
         "bindC": sq(p.bindC), "attribs": [sq(a) for a in p.attribs],
         "variables": [obs_var(v) for v in p.variables], "calls": obs_calls(p), "doc": docs_of(p),
         "types": [obs_type(t) for t in getattr(p, "types", [])],
         "procs": [obs_proc(q) for q in list(getattr(p, "subroutines", [])) + list(getattr(p, "functions", []))]}
    rv = getattr(p, "retvar", None)
    if rv is not None:
        o["retvar"] = obs_var(rv) if hasattr(rv, "vartype") else str(rv)
    return o


def obs_type(t):
    return {"name": t.name, "variables": [obs_var(v) for v in t.variables], "doc": docs_of(t),
            "attribs": [sq(a) for a in getattr(t, "attribs", [])]}


def obs_unit(m):
    return {"obj": m.obj, "name": m.name, "doc": docs_of(m),
            "variables": [obs_var(v) for v in getattr(m, "variables", [])],
            "types": [obs_type(t) for t in getattr(m, "types", [])],
            "procs": [obs_proc(p) for p in list(getattr(m, "subroutines", [])) + list(getattr(m, "functions", []))],
            "calls": obs_calls(m),
            "params": {k: sq(v) for k, v in sorted((getattr(m, "param_dict", None) or {}).items())},
            "other": {k: len(getattr(m, k, []) or []) for k in ("interfaces", "absinterfaces", "enums", "common", "namelists")}}


def observe(f):
    return [obs_unit(m) for m in list(f.modules) + list(f.submodules) + list(f.programs)] + \
           [obs_proc(p) for p in list(f.subroutines) + list(f.functions)]


def substitute(o, lits):
    """Replace the neutral literals `'@k@'` in every string of an observation by the real ones."""
    import re

    if isinstance(o, str):
        return re.sub(r"'@(\d+)@'", lambda m: lits[int(m.group(1))], o)
    if isinstance(o, list):
        return [substitute(x, lits) for x in o]
    if isinstance(o, dict):
        return {k: substitute(v, lits) for k, v in o.items()}
    return o


def diff(a, b, path=""):
    """First difference between two JSON-like values (None when equal)."""
    if type(a) != type(b):
        return f"{path}: {a!r} != {b!r}"
    if isinstance(a, dict):
        for k in sorted(set(a) | set(b)):
            if k not in a or k not in b:
                return f"{path}.{k}: only on one side"
            d = diff(a[k], b[k], f"{path}.{k}")
            if d:
                return d
        return None
    if isinstance(a, list):
        if len(a) != len(b):
            return f"{path}: length {len(a)} != {len(b)}: {a!r} vs {b!r}"[:400]
        for i, (x, y) in enumerate(zip(a, b)):
            d = diff(x, y, f"{path}[{x.get('name', i) if isinstance(x, dict) else i}]")
            if d:
                return d
        return None
    return None if a == b else f"{path}: expected {a!r} observed {b!r}"


def find_vars(o, scope=""):
    """(scope path, variable name) -> observed initial, for every variable of an observation"""
    out = {}
    if isinstance(o, list):
        for x in o:
            out.update(find_vars(x, scope))
        return out
    if not isinstance(o, dict):
        return out
    here = (scope + "/" + o["name"]) if scope else o.get("name", "")
    for v in o.get("variables", []):
        if "vartype" in v:
            out[(here, v["name"])] = v["initial"]
    for k in ("types", "procs"):
        for x in o.get(k, []):
            out.update(find_vars(x, here))
    return out


def find_binds(o):
    out = {}
    if isinstance(o, list):
        for x in o:
            out.update(find_binds(x))
    elif isinstance(o, dict):
        if "proctype" in o:
            out[o["name"]] = o["bindC"]
        for k in ("procs",):
            out.update(find_binds(o.get(k, [])))
    return out
