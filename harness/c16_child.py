"""C16, round 6 - two streams on the real `load_external_modules` and the objects it builds.

  child   : `find_child` on imported objects (the look-up behind `[[module:entity]]`, `[[module:entity(kind)]]`,
            `[[type:component]]`, `[[type:binding]]` into an external project) vs the model's `xFindChild`
            (driver command `c16.child`), on exported and on damaged descriptions; the dictionary `dict2obj` was
            given, afterwards, vs the model's `rewriteDoc` (`c16.rewrite`).
            Oracle (from the statement, on the real code alone): every entity a module of A lists is reached from
            the module by its name - and by its name and kind -, every component / binding from its type, and what
            is reached carries A's location + the entity's exported URL.
  history : one process, several loads: the same local `modules.json` loaded into a first and a second project of
            B (the real `modules_from_local`, the real file), then A re-exported (another description written to
            the same place) and loaded again.  Correspondence: every load equals the model's `importDoc` of the
            file as it is then.  Oracle (statement: "A rebuilt ... before B", all histories): what a project gets
            from an unchanged description is what the first project got; after the re-export every module of the
            new description is an external module at A's location + its exported URL, and nothing of the old one
            is left.
"""
from __future__ import annotations

import json
import re
from pathlib import Path, PurePosixPath

from . import common

PLAIN_LISTS = {"functions": "function", "subroutines": "subroutine", "interfaces": "interface",
               "absinterfaces": "absinterface", "types": "type", "variables": "variable"}
TYPE_LISTS = {"variables": "variable", "boundprocs": "bound"}


def _swapcase(rng, s: str) -> str:
    r = rng.random()
    return s.upper() if r < 0.2 else s.lower() if r < 0.4 else s.swapcase() if r < 0.5 else s


def names_in(v, out):
    if isinstance(v, dict):
        if isinstance(v.get("name"), str):
            out.append(v["name"])
        for x in v.values():
            names_in(x, out)
    elif isinstance(v, list):
        for x in v:
            names_in(x, out)
    return out


def child_damage(rng, doc):
    """damage that matters to the look-up of children: a list attribute that is no list, an item whose name is not
    a string, a list that is missing, junk items"""
    doc = json.loads(json.dumps(doc))
    nodes = []

    def walk(v):
        if isinstance(v, dict):
            if "name" in v and any(isinstance(v.get(a), list) for a in list(PLAIN_LISTS) + ["boundprocs"]):
                nodes.append(v)
            for x in v.values():
                walk(x)
        elif isinstance(v, list):
            for x in v:
                walk(x)

    walk(doc)
    if not nodes:
        return doc, "exported"
    n = rng.choice(nodes)
    lists = [a for a in list(PLAIN_LISTS) + ["boundprocs"] if a in n]
    a = rng.choice(lists)
    kind = rng.choice(["retype", "retype", "del", "itemname", "junk", "dupname"])
    if kind == "retype":
        n[a] = rng.choice([None, 0, 3, True, False, "", "text", {}, {"k": None}, []])
        return doc, "retype"
    if kind == "del":
        del n[a]
        return doc, "del"
    items = [x for x in n[a] if isinstance(x, dict)]
    if kind == "itemname" and items:
        rng.choice(items)["name"] = rng.choice([None, 5, True, ["x"], {"a": 1}])
        return doc, "itemname"
    if kind == "dupname" and items:
        src = rng.choice(items)
        other = [b for b in lists if b != a]
        if other:
            tgt = rng.choice(other)
            if isinstance(n[tgt], list):
                n[tgt].insert(rng.randint(0, len(n[tgt])),
                              {"name": _swapcase(rng, src["name"]) if isinstance(src.get("name"), str) else "x",
                               "external_url": "./dup/x.html", "obj": "variable"})
                return doc, "dupname"
    n[a].insert(rng.randint(0, len(n[a])), rng.choice([None, "", "str", 0, [], {}]))
    return doc, "junk"


def expected_url(base: str, remote: bool, rel) -> str | None:
    """A's location + the URL A exported for the entity (`./dir/file.html#anchor`) - plain text arithmetic"""
    if not isinstance(rel, str) or not rel.startswith("./"):
        return None
    return base.rstrip("/") + "/" + rel[2:]


def load_real(H, doc, remote: bool, base: str, which: int):
    """real load_external_modules; returns (project, the parsed description as the conversion left it | None)"""
    H.ford_mod()
    import ford.external_project as xp
    text = json.dumps(doc)
    url = base if remote else base.lstrip("/")
    proj = H.fake_project({"a": url}, Path("/"), which)
    held = {}
    o_local, o_url = xp.modules_from_local, xp.urlopen

    def local(u):
        held["doc"] = json.loads(text)
        return held["doc"]

    def remote_open(u, *a, **k):
        return H.FakeResponse(text.encode("utf8"))

    xp.modules_from_local, xp.urlopen = local, remote_open
    try:
        with common.quiet():
            xp.load_external_modules(proj)
    except (KeyError, TypeError, AttributeError, OSError, ValueError) as e:
        return None, None
    finally:
        xp.modules_from_local, xp.urlopen = o_local, o_url
    return proj, held.get("doc")


def show_found(H, cls2key, r):
    if r is None:
        return ["none"]
    return ["some", cls2key.get(type(r).__name__, type(r).__name__), H.render_val(getattr(r, "name", None)),
            H.render_val(getattr(r, "external_url", None))]


def real_find(H, cls2key, target, name, kind):
    try:
        with common.quiet():
            r = target.find_child(name, kind)
    except (ValueError, TypeError, AttributeError) as e:
        return ["err", type(e).__name__]
    return show_found(H, cls2key, r)


def with_child_hint(rng) -> bool:
    return rng.random() < 0.8


def real_project_find(H, cls2key, fp, FordLinkProcessor, types, proj, ref, link):
    """the real `Project.find(name, kind, child, child kind)` - or, with `link`, the real `convert_link` on
    `[[name(kind):child(kind)]]` without a context - on the project the description was loaded into: what is found
    (linked), or the exception; None when an entity of B itself is met (not this stream's matter)"""
    name, kind, child, ck = ref
    try:
        with common.quiet():
            if not link:
                r = fp.Project.find(proj, name, kind, child, ck)
            else:
                rec = types.SimpleNamespace(last=None)

                def find(*a, **k):
                    rec.last = fp.Project.find(proj, *a, **k)
                    return rec.last

                md = types.SimpleNamespace(current_context=None, current_path=None, base_url=Path("/out"))
                lp = FordLinkProcessor(md, project=types.SimpleNamespace(find=find))
                text = "[[" + name + (f"({kind})" if kind is not None else "") + (
                    (":" + child + (f"({ck})" if ck is not None else "")) if child is not None else "") + "]]"
                m = lp.LINK_RE.fullmatch(text)
                if m is None:
                    return None
                el = lp.convert_link(m)
                r = rec.last if el.get("href") is not None else None
    except (ValueError, TypeError, AttributeError) as e:
        return ["err", type(e).__name__]
    except RuntimeError:
        return None
    if r is not None and not hasattr(r, "external_url"):
        return None
    return show_found(H, cls2key, r)


def child_oracle(H, rep, doc, proj, tops, base, remote, case):
    """statement: an entity of A that B names in a `[[...]]` reference is linked to the URL in A's documentation
    that documents it - for the module-qualified forms: from the module every entity it lists is reached by its
    name (and kind), from a type its components and bindings; at A's location + the exported URL of an entity of
    that name listed there."""
    ford = H.ford_mod()
    from ford.sourceform import FortranBase
    mods = doc["modules"] if isinstance(doc, dict) else doc
    problems = []

    def check(target, pname, entries_all, entries_kind, e, kind):
        name = e["name"]
        for k, entries in ((None, entries_all), (kind, entries_kind)):
            want = {expected_url(base, remote, x.get("external_url")) for x in entries
                    if isinstance(x, dict) and isinstance(x.get("name"), str) and x["name"].lower() == name.lower()}
            try:
                with common.quiet():
                    r = target.find_child(name, k)
            except Exception as ex:
                problems.append(f"[[{pname}:{name}{'(' + k + ')' if k else ''}]]: {type(ex).__name__}: {ex}")
                continue
            got = None if r is None else str(getattr(r, "external_url", None))
            if got not in want:
                problems.append(f"[[{pname}:{name}{'(' + k + ')' if k else ''}]] reaches "
                                f"{'nothing' if r is None else got}, expected one of {sorted(map(str, want))}")

    for md, mo in zip(mods, tops):
        if not isinstance(md, dict):
            continue
        everything = [x for a in PLAIN_LISTS for x in (md.get(a) or []) if isinstance(x, dict)]
        for a, kind in PLAIN_LISTS.items():
            for e in md.get(a) or []:
                if isinstance(e, dict) and isinstance(e.get("name"), str):
                    check(mo, md.get("name"), everything, [x for x in md.get(a) if isinstance(x, dict)], e, kind)
        for td, to in zip([x for x in md.get("types") or [] if x], getattr(mo, "types", [])):
            if not (isinstance(td, dict) and isinstance(to, FortranBase)):
                continue
            members = [x for a in TYPE_LISTS for x in (td.get(a) or []) if isinstance(x, dict)]
            for a, kind in TYPE_LISTS.items():
                for e in td.get(a) or []:
                    if isinstance(e, dict) and isinstance(e.get("name"), str):
                        check(to, td.get("name"), members, [x for x in td.get(a) if isinstance(x, dict)], e, kind)
    if problems:
        rep.failing_input(dict(case, oracle="an entity a module (type) of A lists is reached from the module (type) by "
                                            "its name, and by its name and kind, at A's location + its exported URL "
                                            "([[module:entity]], [[type:component]])",
                               why=problems[:6], problems=len(problems)), None)
    return len(problems)


def child_stream(H, rep, drv, rng, docs, n_docs, per_doc, stats):
    ford = H.ford_mod()
    import ford.external_project as xp
    from ford import sourceform as sf
    from ford.sourceform import FortranBase
    cls2key = {c.__name__: k for k, c in xp.ENTITIES.items()}
    kinds = list(sf.SUBLINK_TYPES)
    reqs, meta = [], []
    preqs, pmeta = [], []
    rewrites = []
    n_oracle = 0
    import ford.fortran_project as fp
    from ford._markdown import FordLinkProcessor
    import types as _types
    top_kinds = list(fp.LINK_TYPES)
    for k in range(n_docs):
        doc, tag = rng.choice(docs), "exported"
        if k % 3 == 2:
            doc, tag = child_damage(rng, doc)
        remote = rng.random() < 0.3 and H.simple_rel_urls(doc)
        base = (rng.choice(H.REMOTE_BASES) + rng.choice(["", "/"])) if remote else rng.choice(["/abs/A/doc", "/x/y"])
        proj, held = load_real(H, doc, remote, base, k)
        if proj is None:
            stats["child:load-raised"] = stats.get("child:load-raised", 0) + 1
            continue
        if held is not None:
            rewrites.append((doc, held))
        tops = [o for ln in H.LISTS for o in getattr(proj, ln) if o.parent is None]
        if not tops or any(type(o).__name__ != "ExternalModule" for o in tops):
            stats["child:top-not-modules"] = stats.get("child:top-not-modules", 0) + 1
            continue
        tops = [o for o in proj.extModules if o.parent is None]
        case = {"stream": "child", "tag": tag, "remote": remote, "base": base, "description": doc}
        if tag == "exported":
            n_oracle += 1
            child_oracle(H, rep, doc, proj, tops, base, remote, case)
        pool = names_in(doc, []) or ["x"]
        mods = doc["modules"] if isinstance(doc, dict) else doc
        for _ in range(per_doc):
            mi = rng.randrange(len(tops))
            target, attr, si = tops[mi], "-", 0
            desc = mods[mi] if mi < len(mods) else None
            if rng.random() < 0.4:
                cands = [(a, i) for a in ("types", "functions", "interfaces", "variables", "subroutines")
                         if isinstance(getattr(target, a, None), list)
                         for i, x in enumerate(getattr(target, a)) if isinstance(x, FortranBase)]
                if cands:
                    attr, si = rng.choice(cands)
                    target = getattr(target, attr)[si]
                    kept = [x for x in desc.get(attr) if x] if isinstance(desc, dict) and isinstance(desc.get(attr), list) else []
                    desc = kept[si] if si < len(kept) else None
            # names: mostly those of the target's own members (of every list, not only the public tables)
            own = []
            if isinstance(desc, dict):
                for a in list(PLAIN_LISTS) + ["boundprocs"]:
                    if isinstance(desc.get(a), list):
                        own += [(x["name"], dict(PLAIN_LISTS, boundprocs="bound")[a]) for x in desc[a]
                                if isinstance(x, dict) and isinstance(x.get("name"), str)]
            r = rng.random()
            its_kind = None
            if own and r < 0.75:
                name, its_kind = rng.choice(own)
                name = _swapcase(rng, name)
            else:
                name = _swapcase(rng, rng.choice(pool)) if r < 0.95 else "nosuch"
            r = rng.random()
            usual = list(PLAIN_LISTS.values()) + ["bound"]
            kind = (None if r < 0.4 else _swapcase(rng, its_kind) if its_kind and r < 0.65 else _swapcase(rng, rng.choice(usual))
                    if r < 0.8 else _swapcase(rng, rng.choice(kinds)) if r < 0.93 else rng.choice(["bogus", "", "module"]))
            im = real_find(H, cls2key, target, name, kind)
            # the same reference through Project.find / convert_link: parent by its (bare or kind-qualified) name
            pname = getattr(target, "name", None)
            if isinstance(pname, str) and re.fullmatch(r"\w+", pname) and re.fullmatch(r"\w+", name):
                r2 = rng.random()
                fitting = {"-": ["extmodule", "module"], "types": ["exttype", "type"], "functions": ["extfunction", "extproc", "function"],
                           "subroutines": ["extsubroutine", "extprocedure"], "interfaces": ["extinterface", "extproc", "extprocedure"],
                           "variables": ["extmodule"]}.get(attr if with_child_hint(rng) else "?", top_kinds)
                pkind = (None if r2 < 0.45 else _swapcase(rng, rng.choice(fitting)) if r2 < 0.8 else
                         _swapcase(rng, rng.choice(top_kinds)) if r2 < 0.95 else "bogus")
                with_child = rng.random() < 0.75
                link = rng.random() < 0.4 and (kind is None or re.fullmatch(r"\w+", kind))
                ref = [_swapcase(rng, pname) if with_child else name, pkind, name if with_child else None,
                       kind if with_child else None]
                if not with_child and rng.random() < 0.5:
                    ref[1] = None
                pim = real_project_find(H, cls2key, fp, FordLinkProcessor, _types, proj, ref, link)
                if pim is not None:
                    preqs.append(["c16.pfind", "1" if remote else "0", base, "=" + ref[0]] +
                                 ["-" if x is None else "+" + x for x in ref[1:]] + ["1" if link else "0"] + H.enc_json(doc, []))
                    pmeta.append((case, ref, link, pim))
            reqs.append(["c16.child", "1" if remote else "0", base, str(mi), attr, str(si), "=" + name,
                         "-" if kind is None else "+" + kind] + H.enc_json(doc, []))
            meta.append((case, mi, attr, si, name, kind, im))
    got = drv.batch(reqs) if reqs else []
    bad = 0
    # ---- Project.find / convert_link on the loaded project (names B does not define)
    pgot = drv.batch(preqs) if preqs else []
    for (case, ref, link, im), g in zip(pmeta, pgot):
        key = (f"find:{case['tag']}:{'link' if link else 'find'}:{'kind' if ref[1] else 'any'}:"
               f"{'child' if ref[2] else 'top'}:{im[0] if im[0] != 'err' else im[1]}")
        stats[key] = stats.get(key, 0) + 1
        if list(g) != im:
            bad += 1
            rep.tie_broken(f"correspondence {'convert_link' if link else 'Project.find'} ({case['tag']}): model {H.short(list(g))} "
                           f"vs implementation {H.short(im)}", dict(case, reference=ref, impl=im, model=list(g)))
    for (case, mi, attr, si, name, kind, im), g in zip(meta, got):
        key = (f"child:{case['tag']}:{'module' if attr == '-' else attr}:{'kind' if kind is not None else 'any'}:"
               f"{im[0] if im[0] != 'err' else im[1]}")
        stats[key] = stats.get(key, 0) + 1
        if list(g) != im:
            bad += 1
            rep.tie_broken(f"correspondence child ({case['tag']}): model {H.short(list(g))} vs find_child {H.short(im)}",
                           dict(case, target=[mi, attr, si], name=name, kind=kind, impl=im, model=list(g)))
    # the description as the conversion left it
    rw = drv.batch([["c16.rewrite"] + H.enc_json(d, []) for d, _ in rewrites]) if rewrites else []
    for (d, held), g in zip(rewrites, rw):
        mo = H.dec_json(list(g[1:]))[0] if g and g[0] == "ok" else ["bad", list(g)[:3]]
        changed = held != d
        stats[f"rewrite:{'changed' if changed else 'unchanged'}"] = stats.get(f"rewrite:{'changed' if changed else 'unchanged'}", 0) + 1
        if mo != held:
            bad += 1
            rep.tie_broken("correspondence rewrite: the description after load_external_modules differs from the model's "
                           f"rewriteDoc at {H.first_diff(mo, held)}", {"stream": "child", "description": d})
    stats["child:oracle-descriptions"] = n_oracle
    return len(reqs) + len(preqs) + len(rewrites), bad


# --------------------------------------------------------------------------- histories

def snapshot(H, proj, cls2key):
    out = {}
    for ln in H.LISTS:
        out[ln] = [[cls2key.get(type(o).__name__, type(o).__name__), H.render_val(o.name), H.render_val(o.external_url),
                    "-" if o.parent is None else H.render_val(o.parent.name),
                    {a: list(getattr(o, a)) for a in H.REFLECT if isinstance(getattr(o, a, None), dict) and getattr(o, a)}]
                   for o in getattr(proj, ln)]
    return out


def history_stream(H, rep, drv, rng, docs, n, stats, d: Path):
    """several loads of one local description in one process, with the real file and the real reader"""
    H.ford_mod()
    import ford.external_project as xp
    cls2key = {c.__name__: k for k, c in xp.ENTITIES.items()}
    good = [x for x in docs if isinstance(x, dict) and isinstance(x.get("modules"), list) and x["modules"]]
    if not good:
        return 0, 0
    bad = ev = 0
    pending = []
    for k in range(n):
        hd = d / "H" / f"a{k % 3}" / "doc"            # the same few places again and again, as a workspace has them
        hd.mkdir(parents=True, exist_ok=True)
        first = rng.choice(good)
        second = rng.choice([x for x in good if x is not first] or good)
        written = rng.choice([str(hd), str(hd) + "/", str(hd.relative_to(d))])
        steps = [("first project", first, True), ("second project, same description", first, False)]
        if k % 2:
            steps.append(("third project, same description", first, False))
        steps.append(("A re-exported, next project", second, True))
        steps.append(("one more project", second, False))
        base = str(hd.resolve())
        loads = []
        for si, (what, doc, write) in enumerate(steps):
            if write:
                (hd / "modules.json").write_text(json.dumps(doc))
            proj = H.fake_project({"a": written}, d, k + si)
            try:
                with common.quiet():
                    xp.load_external_modules(proj)
                res = ["ok", snapshot(H, proj, cls2key)]
            except Exception as e:
                res = ["err", type(e).__name__]
            loads.append(res)
            ev += 1
            case = {"stream": "history", "external": f"a = {written}", "steps": [s[0] for s in steps[:si + 1]],
                    "description_on_disk": doc, "description_before": first if doc is not first else None}
            pending.append((["c16.import", "0", base] + H.enc_json(doc, []), what, case, res))
            key = f"history:step{si}:{'rewritten-file' if write and si else 'same-file'}:{res[0]}"
            stats[key] = stats.get(key, 0) + 1
            # oracles on the real code alone
            if not write and loads[si - 1] != res:
                prev = loads[si - 1]
                why = res[1] if res[0] != "ok" else next(
                    (f"{ln}[{i}]: {a} then {b}" for ln in H.LISTS if prev[0] == "ok"
                     for i, (a, b) in enumerate(zip(prev[1][ln], res[1][ln])) if a != b), "different number of entities")
                rep.failing_input(dict(case, oracle="what a project of B gets from A's description does not depend on what "
                                                    "was loaded earlier in the same process (the description is unchanged)",
                                       why=why), None)
            if res[0] == "ok" and isinstance(doc.get("modules"), list):
                want = sorted((str(m.get("name")), base + "/" + str(m.get("external_url"))[2:]) for m in doc["modules"]
                              if isinstance(m, dict))
                have = sorted((x[1][2:], x[2][2:]) for x in res[1]["extModules"] if x[3] == "-")
                if want != have:
                    rep.failing_input(dict(case, oracle="the external modules of B are exactly the modules of A's description as "
                                                        "it is now, each at A's location + its exported URL",
                                           why=f"expected {want[:4]}, got {have[:4]}"), None)
            elif res[0] != "ok":
                rep.failing_input(dict(case, oracle="loading a valid description does not end the run", why=res[1]), None)
    for (req, what, case, res), g in zip(pending, drv.batch([p[0] for p in pending]) if pending else []):
        mo = H.model_import_result(list(g))
        if mo != res:
            bad += 1
            rep.tie_broken(f"correspondence history ({what}): model {H.short(mo)} vs implementation {H.short(res)}",
                           dict(case, impl=res, model=mo))
    return ev, bad


# --------------------------------------------------------------------------- the href of a textual reference

class _Ctx:
    """the entity whose documentation is being converted, as far as `convert` / `convert_link` look at it"""
    parent = None
    name = "ctx"
    filename = "ctx.f90"

    def __init__(self, url):
        self._url = url

    def get_url(self):
        return self._url

    def find_child(self, *a, **k):
        return None


class _Proj:
    def __init__(self):
        self.item = None

    def find(self, *a, **k):
        return self.item


def href_stream(H, rep, drv, rng, n, stats, d: Path):
    """the real `MetaMarkdown.convert` on `[[thing]]` (with the real FordLinkProcessor and RelativeLinksTreeProcessor)
    where the project resolves `thing` to an imported entity, vs the model's `hrefOf`; oracle (statement): followed
    from the entity's page directory and from a list page directory, the reference arrives at the imported URL."""
    import html
    import os
    import os.path
    import pathlib
    H.ford_mod()
    from ford._markdown import MetaMarkdown
    import ford.external_project as xp
    from translate import c16 as T
    ned = T._probe_current_path()       # the placeholder directory of MetaMarkdown.convert ("non-existent dir")
    root = (d / "HW").resolve()
    cwds = [root / "w" / "B", root / "w" / "w", root / "q"]
    for c in cwds:
        c.mkdir(parents=True, exist_ok=True)
    classes = list(xp.ENTITIES.values())
    ctx_urls = ["module/bmod.html", "proc/bsub.html", "type/t.html#boundprocedure-x", "module/bmod.html#variable-v",
                "index.html", "sub/dir/deep/page.html", "lists/modules.html", "program/main.html"]
    names = ["A", "doc", "module", "geom.html", "type", "shape_t.html#variable-size", "w", "B", "q", "HW", "ext",
             ned, "proc", "setup~2.html", "x y", "m.html"]
    old_cwd = os.getcwd()
    mds = {}
    cases, reqs = [], []
    try:
        for k in range(n):
            cwd = rng.choice(cwds)
            base = rng.choice([cwd / "doc", cwd / "out" / "html", cwd.parent / "site", root / "w" / "doc", cwd])
            r = rng.random()
            if r < 0.7:
                mode, ctx_url, path = "U", rng.choice(ctx_urls), None
                cur = base / Path(ctx_url).parent.parent / ned
            elif r < 0.9:
                path = rng.choice([base, base / "page", base / "page" / "sub", cwd])
                mode, ctx_url, cur = "P", None, path
            else:
                mode, ctx_url, path, cur = "N", None, None, None
            r = rng.random()
            if r < 0.55:      # an entity imported from a local path: a pathlib path below A's resolved location
                start = rng.choice([root / "w" / "A" / "doc", cwd.parent / "A" / "doc", base / "ext" / "A", root.parent / "elsewhere" / "A",
                                    base / ned / "A", Path("/"), root / "w" / "w" / "doc" / "A", cwd / "doc" / "A"])
                url = start / rng.choice(["module/geom.html", "type/shape_t.html#variable-size", "proc/setup~2.html",
                                          "interface/gen.html", "module/geom.html#variable-origin"])
                kind = "local"
            elif r < 0.7:     # paths made of the very segments of the working / output directory: coincidences
                parts = list((cur or cwd).parts[1:])
                keep = rng.randint(0, len(parts))
                url = Path("/", *parts[:keep], *[rng.choice(names + list(cwd.parts[1:])) for _ in range(rng.randint(1, 4))])
                kind = "local-mixed"
            elif r < 0.9:
                url = rng.choice(["http://ex.invalid/a/", "https://ex.invalid/docs/v1/proja/", "http://ex.invalid:8080/pa/"]) + rng.choice(
                    ["module/geom.html", "type/shape_t.html#variable-size"])
                kind = "remote"
            else:
                url = rng.choice(["", "rel/x.html", "httpdocs/x.html", pathlib.PurePosixPath("/a/../b/x.html"), "/abs/str.html"])
                kind = "odd"
            cases.append((cwd, base, mode, ctx_url, path, url, kind, rng.choice(classes)))
            reqs.append(["c16.href", str(base), str(cwd), mode + (ctx_url or (str(path) if path else "")), "=" + str(url)])
        got = drv.batch(reqs)
        bad = 0
        for (cwd, base, mode, ctx_url, path, url, kind, cls), g in zip(cases, got):
            os.chdir(cwd)
            key = (str(base), str(cwd))
            if key not in mds:
                proj = _Proj()
                mds[key] = (MetaMarkdown(".", base_url=str(base), project=proj), proj)
            md, proj = mds[key]
            proj.item = cls("thing", url)
            case = {"stream": "href", "working_directory": str(cwd), "output_directory": str(base),
                    "converted": "documentation of the entity at " + ctx_url if mode == "U" else
                    ("text of the page directory " + str(path)) if mode == "P" else "text without a page",
                    "imported_url": str(url), "imported_url_is_a_path": not isinstance(url, str), "class": cls.__name__}
            try:
                with common.quiet():
                    out = md.reset().convert("[[thing]]", context=_Ctx(ctx_url) if mode == "U" else None, path=path)
                m = re.search(r'<a href="([^"]*)"', out)
                im = ["ok", html.unescape(m.group(1))] if m else ["nolink", out[:80]]
            except Exception as e:
                im = ["err", type(e).__name__]
            k2 = f"href:{kind}:{mode}:{im[0]}"
            stats[k2] = stats.get(k2, 0) + 1
            if list(g) != im:
                bad += 1
                rep.tie_broken(f"correspondence href: model {H.short(list(g))} vs MetaMarkdown.convert {H.short(im)}",
                               dict(case, impl=im, model=list(g)))
            # oracle: from the entity's page directory and from a list page directory the reference leads to the imported
            # URL (the statement's "linked to a URL that exists in A's generated documentation"): text of an entity, A not
            # inside B's `non-existent dir`; FORD not started at or below its own output directory (such a run does not
            # complete: the output directory is removed and re-made, the working directory is gone)
            if (mode == "U" and len(Path(ctx_url).parts) >= 2 and kind in ("local", "remote") and im[0] == "ok"
                    and ned not in str(url) and base != cwd and base not in cwd.parents):
                href = im[1]
                if kind == "remote":
                    ok = href == url
                    arrived = href
                else:
                    arrived = None
                    ok = True
                    for pagedir in (base / Path(ctx_url).parent, base / Path(ctx_url).parent.parent / "lists"):
                        arrived = os.path.normpath(os.path.join(str(pagedir), href))
                        ok = ok and arrived == os.path.normpath(str(url))
                stats["href:oracle"] = stats.get("href:oracle", 0) + 1
                if not ok:
                    # known class (decidable from the inputs alone): the reference as `convert_link` makes it - the URL itself,
                    # or the path relative to <output dir>/<..>/non-existent dir -, read as a path from the working directory,
                    # lies below the output directory
                    here = base / Path(ctx_url).parent.parent / ned
                    first = url if kind == "remote" else os.path.relpath(str(url), str(here))
                    tag = os.path.normpath(os.path.join(str(cwd), first))
                    fid = "C16-relative-reference-reread-from-working-directory" if tag.startswith(str(base) + "/") else None
                    rep.failing_input(dict(case, href=href, oracle="a [[...]] reference to an imported entity, followed from the page "
                                                                   "it is shown on, arrives at the imported URL",
                                           why=f"arrives at {arrived}"), fid)
    finally:
        os.chdir(old_cwd)
    return len(cases), bad
