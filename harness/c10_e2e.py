"""C10, end-to-end stream "c10b" ("collision mode").

Small generated Fortran projects whose entity names come from a tiny pool in
mixed case are run through the real FORD (in-process, `ford.main`).  For each
project ("site")

(A) correspondence: every call of `NameSelector.get_name` is recorded as
    (identity of item, item.get_dir(), item.name, returned stem) and the whole
    call sequence is replayed by the Lean model (`c10.run`); the stems must be
    equal one by one.  The output file and URL of every entity page are
    predicted by the model (`c10.url`) from (get_dir(), stem) and compared with
    `page.outfile` / `entity.get_url()`.
(B) property oracle on the files FORD wrote (defined from the statement of C10,
    not from the model):
      outfile-shared  two distinct page objects have the same output file, or a
                      page's output file does not exist;
      tracer          every generated entity with a page of its own carries a
                      unique word `TRCnnnnX` in its doc comment; the file at
                      `entity.get_url()` must contain that word;
      anchor-dup      an entity page has the same `id` attribute for two
                      *distinct* items (the same item emitted twice by a
                      template is not a C10 matter, see TEMPLATE_ARTEFACTS);
      entity-url      two distinct entity objects of the project answer the same `get_url()`
                      (an interface wrapper and the one procedure it wraps count as one
                      documented thing), or two distinct entities with the same parent have
                      the same `anchor` (siblings are listed together on one page);
      src-copy        `out/src/<f.name>` is byte-equal to `f.path` for every
                      source file, and the "Source File" link on an entity's
                      page leads to a file that contains the entity's tracer.
    `classify(case)` maps a failing case to the known-finding class it belongs
    to (decided from the generated project) or None.

Everything random comes from the `random.Random` passed in.  FORD iterates
over the source files in an order that depends on the interpreter's string hash
seed (`set` of extensions/paths); the harness records what actually happened, so
this only means that *which* of two colliding entities wins may differ between
two runs of the same seed - whether they collide does not.
"""
from __future__ import annotations

import re
import shutil
import time
from pathlib import Path

from . import common, e2e

STREAM = "c10b"

# --------------------------------------------------------------------------
# generator
# --------------------------------------------------------------------------

# base name (lower case) -> spellings.  Entity names (procedures, types, module
# variables, generic interfaces, programs, modules ...)
NAMES = {
    "foo": ["foo", "Foo", "FOO"],
    "bar": ["bar", "Bar"],
    "baz": ["baz", "Baz"],
    "qux": ["qux", "QUX"],
    "add": ["add", "Add"],
    "get": ["get", "Get"],
}
ARGS = {"a": ["a", "A"], "b": ["b", "B"], "c": ["c", "C"]}
COMPS = {"x": ["x", "X"], "y": ["y", "Y"]}
FILEBASES = {"util": ["util", "Util"], "main": ["main", "Main"], "lib": ["lib", "LIB"],
             "mod": ["mod", "Mod"], "core": ["core", "Core"]}
DIRS = ["", "a", "b"]
OPERATORS = ["operator(+)", "operator(-)", "operator(.add.)", "operator(.sub.)", "operator(<)",
             "operator(>)", "operator(<=)", "operator(/)", "operator(*)", "operator(**)",
             "operator(//)", "operator(==)", "operator(/=)", "assignment(=)"]
# a numeric type usually overloads the whole set
ARITHMETIC = ["operator(+)", "operator(-)", "operator(*)", "operator(/)"]
LOGICAL_OPS = {"operator(<)", "operator(>)", "operator(<=)", "operator(==)", "operator(/=)"}


def space_spec(rng, spec: str) -> str:
    """The generic spec `kw(op)` in another legal spacing (blanks between the tokens): FORD keeps the
    text verbatim, so `operator (+)` and `operator(+)` are two names for it."""
    kw, rest = spec.split("(", 1)
    gap = lambda: " " * rng.choice([0, 0, 0, 1, 1, 2])  # noqa: E731
    return f"{kw}{gap()}({gap()}{rest[:-1]}{gap()})"

# FORD (fortran_project.py, `namelist_check`) collects the namelists of module
# procedures, external procedures, programs and their procedures into
# `project.namelists` - but not those declared in the specification part of a
# module or submodule.  Such a namelist has `get_url() == "namelist/<ident>.html"`
# and no page is ever written there (the module page links to its own anchor
# instead).  That is a defect of its own (a URL without a page; nothing is
# overwritten, no two entities share anything), so the stream does not generate
# module-level namelists unless this switch is on; `classify` then names the
# class "C10-module-namelist-no-page".
MODULE_LEVEL_NAMELISTS = False

# kinds that have a page of their own, with the directory `get_dir()` returns
PAGE_DIR = {
    "sourcefile": "sourcefile", "module": "module", "submodule": "module", "program": "program",
    "blockdata": "blockdata", "proc": "proc", "submodproc": "proc", "type": "type",
    "generic": "interface", "ifacebody": "interface", "absiface": "interface",
    "modprociface": "interface", "namelist": "namelist",
}


class _Site:
    def __init__(self, rng):
        self.rng = rng
        self.clean = rng.random() < 0.5
        self.spell = {}
        for table in (NAMES, ARGS, COMPS, FILEBASES):
            for b, sp in table.items():
                self.spell[b] = rng.choice(sp)
        self.ntr = 0
        self.nfill = 0
        self.entities: list[dict] = []
        self.globals: dict[str, str] = {}  # lower global name -> category
        self.allow_global_dup = rng.random() < 0.15
        self.legal = True
        self.features: set[str] = set()
        self.proc_kind: dict[str, str] = {}  # lower external name -> subroutine|function
        self.spaced = rng.random() < 0.5  # generic specs written with blanks between the tokens
        # what the modules generated so far offer to later modules (`use m, only: ...`): plain module
        # procedures (name, kind, argument names) and derived types - so that one page can list items
        # that were defined in *different* source files (round 6)
        self.exports: list[dict] = []

    # -- names -----------------------------------------------------------
    def tracer(self) -> str:
        self.ntr += 1
        return "TRC%04dX" % self.ntr

    def sp(self, table, base) -> str:
        if base not in table:
            return base
        return self.spell[base] if self.clean else self.rng.choice(table[base])

    def respell(self, table, name) -> str:
        """Another (or the same) spelling of an already declared name, for references."""
        if self.clean or name.lower() not in table or self.rng.random() < 0.6:
            return name
        return self.rng.choice(table[name.lower()])

    def filler(self) -> str:
        self.nfill += 1
        return "z%d" % self.nfill

    def pick(self, used: set, table=NAMES, p_pool=0.92) -> str:
        """A name for a local scope: unique in `used` ignoring case."""
        cands = [b for b in table if b not in used]
        if cands and self.rng.random() < p_pool:
            b = self.rng.choice(cands)
            used.add(b)
            return self.sp(table, b)
        nm = self.filler()
        used.add(nm)
        return nm

    def pick_global(self, cat: str, p_pool=0.6) -> str:
        """A global name (module, program, external procedure, block data, common).
        Legal: unique ignoring case, except that several interface bodies /
        common statements may refer to the same external procedure / common block."""
        if self.rng.random() < p_pool:
            bases = list(NAMES)
            self.rng.shuffle(bases)
            if self.allow_global_dup and self.rng.random() < 0.35:
                if bases[0] in self.globals:
                    self.legal = False
                self.globals.setdefault(bases[0], cat)
                return self.sp(NAMES, bases[0])
            for b in bases:
                old = self.globals.get(b)
                if old is None:
                    self.globals[b] = cat
                    return self.sp(NAMES, b)
                if cat == "procref" and old in ("procref", "proc"):
                    return self.sp(NAMES, b)  # one more interface body for the same external procedure
                if cat == "proc" and old == "procref":
                    self.globals[b] = "proc"  # the definition of an external procedure referred to earlier
                    return self.sp(NAMES, b)
                if cat == "common" and old == "common":
                    return self.sp(NAMES, b)
            if self.allow_global_dup:
                self.legal = False
                return self.sp(NAMES, self.rng.choice(bases))
        nm = self.filler()
        self.globals[nm] = cat
        return nm

    def ent(self, kind, name, file, tracer, scope, **kw) -> dict:
        e = {"tracer": tracer, "kind": kind, "name": name, "file": file,
             "dir": PAGE_DIR.get(kind), "page": kind in PAGE_DIR, "scope": scope}
        e.update(kw)
        self.entities.append(e)
        return e

    # -- Fortran text -------------------------------------------------------
    def var_decl(self, ind, typ, name, file, scope, kind="variable") -> list[str]:
        t = self.tracer()
        self.ent(kind, name, file, t, scope)
        return [f"{ind}{typ} :: {name}", f"{ind}  !! {t} {kind} {name}"]

    def namelist(self, ind, var, used, file, scope) -> list[str]:
        nl, tn = self.pick(used), self.tracer()
        self.ent("namelist", nl, file, tn, scope)
        self.features.add("namelist")
        return [f"{ind}namelist /{nl}/ {var}", f"{ind}  !! {tn} namelist {nl}"]

    def type_def(self, ind, name, file, scope, page=True) -> tuple[list[str], dict]:
        t = self.tracer()
        self.ent("type" if page else "localtype", name, file, t, scope)
        used: set = set()
        comps = []
        lines = [f"{ind}type :: {name}", f"{ind}  !! {t} type {name}"]
        for _ in range(self.rng.randint(1, 2)):
            c = self.pick(used, COMPS, 1.0)
            comps.append(c)
            lines += self.var_decl(ind + "  ", "integer", c, file, scope + "%" + name, "component")
        lines.append(f"{ind}end type {name}")
        return lines, {"name": name, "comps": comps}

    def proc(self, ind, kind, name, file, scope, ekind="proc", op=None, prefix="",
             depth=0, page=True, fixed_args=None, result=None) -> list[str]:
        """A subroutine/function.  `op` = ("op", typeinfo, logical) for a two-argument
        operator function, ("asg", typeinfo) for a defined-assignment subroutine."""
        rng = self.rng
        t = self.tracer()
        me = scope + "/" + name
        self.ent(ekind if page else "internal", name, file, t, scope, proctype=kind)
        if not page:
            self.features.add("internal-proc")
        used = {name.lower(), "r"}
        argdecl: list[tuple[str, str]] = []
        body: list[str] = []
        restype = "integer"
        if op:
            used.add(op[1]["name"].lower())  # the type must stay accessible by host association
        if op and op[0] == "op":
            ti = op[1]
            a, b = self.pick(used, ARGS, 1.0), self.pick(used, ARGS, 1.0)
            argdecl = [(a, f"type({ti['name']}), intent(in)"), (b, f"type({ti['name']}), intent(in)")]
            if op[2]:
                restype = "logical"
                body = [f"r = {a}%{ti['comps'][0]} == {b}%{ti['comps'][0]}"]
            else:
                restype = f"type({ti['name']})"
                body = [f"r%{ti['comps'][0]} = {a}%{ti['comps'][0]} + {b}%{ti['comps'][0]}"]
        elif op and op[0] == "asg":
            ti = op[1]
            a, b = self.pick(used, ARGS, 1.0), self.pick(used, ARGS, 1.0)
            argdecl = [(a, f"type({ti['name']}), intent(out)"), (b, "integer, intent(in)")]
            body = [f"{a}%{ti['comps'][0]} = {b}"]
        elif fixed_args is not None:
            # (arguments given by the caller: a specific of a generic whose other specifics live in
            # another module, a structure constructor whose arguments are named like the components)
            argdecl = list(fixed_args)
            used.update(a.lower() for a, _ in argdecl)
            if result is not None:
                restype, body = result
            elif kind == "function":
                body = ["r = 0"]
        else:
            for _ in range(rng.choice([0, 1, 1, 2])):
                argdecl.append((self.pick(used, ARGS, 1.0), "integer, intent(in)"))
            if kind == "function":
                body = ["r = 0"]
        self.last_args = [a for a, _ in argdecl]
        arglist = ", ".join(a for a, _ in argdecl)
        head = f"{ind}{prefix}{kind} {name}({arglist})" + (" result(r)" if kind == "function" else "")
        lines = [head, f"{ind}  !! {t} {kind} {name}"]
        for a, typ in argdecl:
            lines += self.var_decl(ind + "  ", typ, a, file, me, "arg")
        if kind == "function":
            lines.append(f"{ind}  {restype} :: r")
        for _ in range(rng.choice([0, 0, 1])):
            v = self.pick(used)
            lines += self.var_decl(ind + "  ", "integer", v, file, me, "local")
        if page and rng.random() < 0.15:
            # (FORD collects the namelists of procedures that have a page, see
            # MODULE_LEVEL_NAMELISTS for those of modules; gfortran rejects a namelist
            # object that is named like a procedure of the host, hence the x/y pool)
            v = self.pick(used, COMPS, 1.0)
            lines += self.var_decl(ind + "  ", "integer", v, file, me, "local")
            lines += self.namelist(ind + "  ", v, used, file, me)
        lines += [f"{ind}  {b}" for b in body]
        if depth == 0 and rng.random() < 0.3:
            lines.append(f"{ind}contains")
            for _ in range(rng.choice([1, 1, 2])):
                k = rng.choice(["subroutine", "function"])
                lines += self.proc(ind + "  ", k, self.pick(used), file, me, depth=1, page=False)
        lines.append(f"{ind}end {kind} {self.respell(NAMES, name) if not prefix else name}")
        return lines

    def iface_body(self, ind, name, kind, file, scope, ekind, prefix="") -> tuple[list[str], list[str]]:
        """Procedure body inside an interface block: one integer argument.
        Returns (lines, [argument name])."""
        t = self.tracer()
        self.ent(ekind, name, file, t, scope, proctype=kind)
        used = {name.lower(), "r"}
        a = self.pick(used, ARGS, 1.0)
        lines = [f"{ind}{prefix}{kind} {name}({a})" + (" result(r)" if kind == "function" else ""),
                 f"{ind}  !! {t} {ekind} {name}"]
        lines += self.var_decl(ind + "  ", "integer, intent(in)", a, file, scope + "/" + name, "arg")
        if kind == "function":
            lines.append(f"{ind}  integer :: r")
        lines.append(f"{ind}end {kind} {name}")
        return lines, [a]

    def ext_kind(self, name) -> str:
        return self.proc_kind.setdefault(name.lower(), self.rng.choice(["subroutine", "function"]))

    def module(self, name, file, want_sub) -> tuple[list[str], dict | None]:
        rng = self.rng
        sc = "module:" + name
        t = self.tracer()
        self.ent("module", name, file, t, "global")
        used = {name.lower()}
        decl: list[str] = []
        procs: list[str] = []
        types = []
        # ---- items of other modules (preferably of other files) shown on this module's pages
        use_lines: list[str] = []
        others = [x for x in self.exports if x["module"].lower() != name.lower()]
        far = [x for x in others if x["file"] != file]
        if (far or others) and rng.random() < 0.5:
            imp = rng.choice(far or others)
            only: list[str] = []
            if imp["procs"] and rng.random() < 0.8:
                # generic interface: one specific is use-associated, one is local; both are listed with
                # their argument tables on the generic's page and on this module's page.  The local
                # specific takes `real` arguments with the *names* of the imported one's arguments.
                pn, pk, pargs = rng.choice(imp["procs"])
                if pn.lower() not in used:
                    used.add(pn.lower())
                    only.append(pn)
                    g, loc_nm = self.pick(used), self.pick(used)
                    bases = [a.lower() for a in pargs] or [rng.choice(list(ARGS))]
                    fixed = [(self.sp(ARGS, b), "real, intent(in)") for b in bases]
                    procs += self.proc("  ", pk, loc_nm, file, sc, fixed_args=fixed)
                    tt = self.tracer()
                    self.ent("generic", g, file, tt, sc)
                    how = rng.choice(["module procedure", "procedure ::", "procedure"])
                    decl += [f"  interface {g}", f"    !! {tt} generic {g}",
                             f"    module procedure {self.respell(NAMES, loc_nm)}",
                             f"    {how} {self.respell(NAMES, pn)}", f"  end interface {g}"]
                    self.features.add("generic-cross-module" + ("-file" if imp["file"] != file else ""))
            if imp["types"] and rng.random() < 0.8:
                # extended type: the page of the child lists the inherited components next to the
                # arguments of the child's constructor (a generic named like the type), which are
                # named like the components they initialise
                ti = rng.choice(imp["types"])
                if ti["name"].lower() not in used:
                    used.add(ti["name"].lower())
                    only.append(ti["name"])
                    child, ctor = self.pick(used), self.pick(used)
                    tc = self.tracer()
                    self.ent("type", child, file, tc, sc)
                    cused = {c.lower() for c in ti["comps"]}
                    own = self.pick(cused, COMPS, 1.0)
                    decl += [f"  type, extends({self.respell(NAMES, ti['name'])}) :: {child}",
                             f"    !! {tc} type {child}"]
                    decl += self.var_decl("    ", "integer", own, file, sc + "%" + child, "component")
                    decl.append(f"  end type {child}")
                    cargs = [self.sp(COMPS, c.lower()) for c in ti["comps"]] + [own]
                    body = [f"r%{c} = {a}" for c, a in zip(ti["comps"] + [own], cargs)]
                    procs += self.proc("  ", "function", ctor, file, sc,
                                       fixed_args=[(a, "integer, intent(in)") for a in cargs],
                                       result=(f"type({child})", body))
                    tg = self.tracer()
                    self.ent("generic", child, file, tg, sc + "#constructor")
                    decl += [f"  interface {child}", f"    !! {tg} generic {child}",
                             f"    module procedure {self.respell(NAMES, ctor)}", "  end interface"]
                    types.append({"name": child, "comps": list(ti["comps"]) + [own]})
                    self.features.add("extends-cross-module" + ("-file" if imp["file"] != file else ""))
            if only:
                use_lines.append(f"  use {self.respell(NAMES, imp['module'])}, only: " + ", ".join(only))
        for _ in range(rng.choice([0, 1, 1, 1, 2])):
            lines, ti = self.type_def("  ", self.pick(used), file, sc)
            decl += lines
            types.append(ti)
        for _ in range(rng.choice([0, 1, 1])):
            v = self.pick(used)
            decl += self.var_decl("  ", "integer", v, file, sc)
            if MODULE_LEVEL_NAMELISTS and rng.random() < 0.3:
                decl += self.namelist("  ", v, used, file, sc)
        plain: list[tuple[str, str]] = []  # (name, kind) of ordinary module procedures
        exported: list[tuple] = []
        for _ in range(rng.choice([1, 1, 2])):
            k = rng.choice(["subroutine", "function"])
            nm = self.pick(used)
            procs += self.proc("  ", k, nm, file, sc)
            plain.append((nm, k))
            exported.append((nm, k, list(self.last_args)))
        # operator / assignment interfaces (need a derived type of this module)
        if types and rng.random() < 0.5:
            self.features.add("operator-interface")
            if rng.random() < 0.3:
                ops = list(ARITHMETIC)
                rng.shuffle(ops)
            else:
                ops = rng.sample(OPERATORS, rng.choice([1, 1, 2]))
            opfun = None
            ti = rng.choice(types)
            for op in ops:
                if op == "assignment(=)":
                    f = self.pick(used)
                    procs += self.proc("  ", "subroutine", f, file, sc, op=("asg", ti))
                else:
                    logical = op in LOGICAL_OPS
                    if opfun and opfun[1] == logical and rng.random() < 0.6:
                        f = opfun[0]  # one function serves two operators
                    else:
                        f = self.pick(used)
                        procs += self.proc("  ", "function", f, file, sc, op=("op", ti, logical))
                        opfun = (f, logical)
                spelled = op if self.clean else rng.choice([op, op, op, op.upper(), op.capitalize()])
                if self.spaced:
                    spelled = space_spec(rng, spelled)
                    if " " in spelled:
                        self.features.add("spaced-operator")
                tt = self.tracer()
                self.ent("generic", spelled, file, tt, sc)
                decl += [f"  interface {spelled}", f"    !! {tt} generic {spelled}",
                         f"    module procedure {self.respell(NAMES, f)}", "  end interface"]
        # named generic interface
        if rng.random() < 0.4:
            g = self.pick(used)
            tt = self.tracer()
            self.ent("generic", g, file, tt, sc)
            nm, _k = rng.choice(plain)
            decl += [f"  interface {g}", f"    !! {tt} generic {g}",
                     f"    module procedure {self.respell(NAMES, nm)}", f"  end interface {g}"]
        # generic interface whose specifics are interface bodies of external procedures
        # (wrappers around a Fortran 77 / C library), possibly next to a module procedure
        if rng.random() < 0.3:
            g = self.pick(used)
            tt = self.tracer()
            self.ent("generic", g, file, tt, sc)
            self.features.add("generic-with-bodies")
            decl += [f"  interface {g}", f"    !! {tt} generic {g}"]
            if rng.random() < 0.3:
                nm, _k = rng.choice(plain)
                decl.append(f"    module procedure {self.respell(NAMES, nm)}")
            for _ in range(rng.choice([1, 2, 2, 3])):
                for _try in range(4):
                    nm = self.pick_global("procref", 0.7)
                    if nm.lower() not in used:
                        break
                if nm.lower() in used:
                    nm = self.filler()
                used.add(nm.lower())
                lines, _ = self.iface_body("    ", nm, self.ext_kind(nm), file, sc, "genericbody")
                decl += lines
            decl.append(f"  end interface {g}")
        # abstract interface
        if rng.random() < 0.25:
            nm = self.pick(used)
            lines, _ = self.iface_body("    ", nm, rng.choice(["subroutine", "function"]), file, sc, "absiface")
            decl += ["  abstract interface"] + lines + ["  end interface"]
        # plain interface block with the interface of an external procedure
        if rng.random() < 0.35:
            decl.append("  interface")
            for _ in range(rng.choice([1, 1, 1, 2])):
                for _try in range(4):
                    nm = self.pick_global("procref", 0.9)
                    if nm.lower() not in used:
                        break
                if nm.lower() in used:
                    nm = self.filler()
                used.add(nm.lower())
                lines, _ = self.iface_body("    ", nm, self.ext_kind(nm), file, sc, "ifacebody")
                decl += lines
            decl.append("  end interface")
        sub = None
        if want_sub:
            self.features.add("submodule")
            nm = self.pick(used)
            k = rng.choice(["subroutine", "function"])
            lines, args = self.iface_body("    ", nm, k, file, sc, "modprociface", prefix="module ")
            decl += ["  interface"] + lines + ["  end interface"]
            free = [b for b in NAMES if b not in used]
            sname = self.sp(NAMES, rng.choice(free)) if free else self.filler()
            sub = {"parent": name, "name": sname, "proc": nm, "kind": k, "arg": args[0]}
        lines = [f"module {name}", f"  !! {t} module {name}"] + use_lines + ["  implicit none"] + decl
        lines += ["contains"] + procs + [f"end module {name}"]
        self.exports.append({"module": name, "file": file, "procs": exported,
                             "types": list(types)})
        return lines, sub

    def submodule(self, sub, file) -> list[str]:
        t = self.tracer()
        sc = "submodule:" + sub["parent"] + ":" + sub["name"]
        self.ent("submodule", sub["name"], file, t, "global")
        t2 = self.tracer()
        self.ent("submodproc", sub["proc"], file, t2, sc, proctype=sub["kind"])
        k, a = sub["kind"], sub["arg"]
        lines = [f"submodule ({sub['parent']}) {sub['name']}", f"  !! {t} submodule {sub['name']}",
                 "  implicit none", "contains",
                 f"  module {k} {sub['proc']}({a})" + (" result(r)" if k == "function" else ""),
                 f"    !! {t2} submodproc {sub['proc']}",
                 f"    integer, intent(in) :: {a}"]
        if k == "function":
            lines += ["    integer :: r", "    r = 0"]
        lines += [f"  end {k} {sub['proc']}", f"end submodule {sub['name']}"]
        return lines

    def program(self, name, file) -> list[str]:
        rng = self.rng
        t = self.tracer()
        self.ent("program", name, file, t, "global")
        sc = "program:" + (name or "<unnamed>") + "@" + file
        used = {name.lower()} if name else set()
        decl: list[str] = []
        if rng.random() < 0.35:
            lines, _ = self.type_def("  ", self.pick(used), file, sc)
            decl += lines
        v = self.pick(used)
        decl += self.var_decl("  ", "integer", v, file, sc)
        body = [f"  {v} = 1"]
        procs: list[str] = []
        if rng.random() < 0.5:
            for _ in range(rng.choice([1, 1, 2])):
                # (internal procedures of the main program: own page, no further nesting)
                procs += self.proc("  ", rng.choice(["subroutine", "function"]), self.pick(used), file, sc, depth=1)
        head = f"program {name}" if name else "program"
        lines = [head, f"  !! {t} program {name or 'unnamed'}", "  implicit none"] + decl + body
        if procs:
            lines += ["contains"] + procs
        lines.append(f"end program {name}" if name else "end program")
        return lines

    def blockdata(self, name, file) -> list[str]:
        t = self.tracer()
        self.ent("blockdata", name, file, t, "global")
        sc = "blockdata:" + (name or "<unnamed>") + "@" + file
        # (a variable in a common block must not be named like any global entity)
        v = self.pick(set(), COMPS, 1.0)
        cb = self.pick_global("common", 0.5)
        tc = self.tracer()
        self.ent("common", cb, file, tc, sc)
        lines = [f"block data {name}" if name else "block data", f"  !! {t} blockdata {name or 'unnamed'}"]
        lines += self.var_decl("  ", "integer", v, file, sc)
        lines += [f"  common /{cb}/ {v}", f"  data {v} /1/"]
        lines.append(f"end block data {name}" if name else "end block data")
        return lines


def _file_names(site: _Site, n: int) -> list[str]:
    rng = site.rng
    bases = rng.sample(list(FILEBASES), n)
    names = [site.sp(FILEBASES, b) + ".f90" for b in bases]
    dirs = [rng.choice(DIRS) for _ in range(n)]
    if rng.random() < 0.3:
        # same base name in two different sub-directories
        i, j = rng.sample(range(n), 2)
        names[j] = names[i]
        while dirs[j] == dirs[i]:
            dirs[j] = rng.choice(DIRS)
        site.features.add("same-basename")
    elif not site.clean and rng.random() < 0.2:
        # names differing only in case (possibly in the same directory)
        i, j = rng.sample(range(n), 2)
        b = bases[i]
        names[i], names[j] = FILEBASES[b][0] + ".f90", FILEBASES[b][1] + ".f90"
        site.features.add("case-basename")
    out = []
    for d, nm in zip(dirs, names):
        rel = f"{d}/{nm}" if d else nm
        while rel in out:  # cannot happen with the construction above; be safe
            rel = "c/" + rel
        out.append(rel)
    return out


def gen_project(rng) -> dict:
    """One small project.  Returns {"files", "entities", "features", "clean"}.

    entities: dicts with tracer, kind, name, file, dir (the page directory, None
    for entities without a page), page (bool), scope.  The name of an unnamed
    program / block data is "".

    Features: "case-clean" (every name has one spelling in the whole site) or
    "case-mixed"; "case-collision" (two entities of one page directory differ only
    in case), "case-collision-nopage" (the same among page-less items: variables,
    arguments, components, internal procedures), "same-name-other-module" (one raw
    name twice in a page directory), "legal" / "illegal-global-dup", ...
    "legal" sites obey the scoping rules (names unique ignoring case within a scope,
    global names unique ignoring case) and pass `gfortran -fsyntax-only -std=f2008`
    (checked during development) - except that a `program` statement without a name,
    which FORD accepts, has to be given a name first.
    """
    site = _Site(rng)
    nfiles = rng.choice([2, 2, 2, 3, 3, 4, 5])
    rels = _file_names(site, nfiles)
    # plan the program units of each file
    plan: list[list[tuple]] = [[] for _ in rels]
    kinds = ["module"] * 9 + ["proc"] * 4 + ["program"] * 3 + ["blockdata"] * 2
    first = True
    for fi in range(nfiles):
        for _ in range(rng.choice([1, 1, 1, 2, 2, 3]) if nfiles < 4 else 1):
            k = "module" if (first or rng.random() < 0.25) else rng.choice(kinds)
            first = False
            if k == "program" and any(u[0] == "program" for u in plan[fi]):
                k = "module"
            plan[fi].append((k,))
    if rng.random() < 0.15:
        for fi in rng.sample(range(nfiles), 2):
            plan[fi] = [u for u in plan[fi] if u[0] != "program"] + [("program", "")]
        site.features.add("unnamed-program")
    if rng.random() < 0.12:
        for fi in rng.sample(range(nfiles), 2):
            plan[fi].append(("blockdata", ""))
        site.features.add("unnamed-blockdata")
    text: list[list[str]] = []
    pending_subs: list[tuple[int, dict]] = []
    for fi, rel in enumerate(rels):
        tf = site.tracer()
        site.ent("sourcefile", rel.rsplit("/", 1)[-1], rel, tf, "files")
        lines = [f"!! {tf} sourcefile {rel}"]
        for unit in plan[fi]:
            k = unit[0]
            if k == "module":
                nm = site.pick_global("module", 0.5)
                ml, sub = site.module(nm, rel, want_sub=rng.random() < 0.2)
                lines += ml
                if sub:
                    if rng.random() < 0.5:
                        lines += site.submodule(sub, rel)
                    else:
                        pending_subs.append((rng.randrange(nfiles), sub))
            elif k == "proc":
                nm = site.pick_global("proc", 0.8)
                lines += site.proc("", site.ext_kind(nm), nm, rel, "global")
            elif k == "program":
                if len(unit) > 1:
                    nm = unit[1]
                else:
                    nm = "" if rng.random() < 0.1 else site.pick_global("program", 0.6)
                lines += site.program(nm, rel)
            elif k == "blockdata":
                if len(unit) > 1:
                    nm = unit[1]
                else:
                    nm = "" if rng.random() < 0.2 else site.pick_global("blockdata", 0.6)
                lines += site.blockdata(nm, rel)
        text.append(lines)
    for fi, sub in pending_subs:
        text[fi] += site.submodule(sub, rels[fi])
    files = {rel: "\n".join(lines) + "\n" for rel, lines in zip(rels, text)}
    ents = site.entities
    # features measured on what was generated
    feats = set(site.features)
    bydir: dict = {}
    for e in ents:
        bydir.setdefault(e["dir"], []).append(e)
    for d, es in bydir.items():
        names = [e["name"] for e in es]
        low: dict = {}
        for n in names:
            low.setdefault(n.lower(), set()).add(n)
        if any(len(v) > 1 for v in low.values()):
            feats.add("case-collision" if d is not None else "case-collision-nopage")
        if d is not None and len(names) != len(set(names)):
            feats.add("same-name-other-module")
    # legality (scoping): names unique ignoring case within each scope; global names unique
    legal = site.legal
    scopes: dict = {}
    for e in ents:
        if e["kind"] in ("sourcefile", "submodule", "submodproc", "common") or e["name"] == "":
            continue
        key = (e["scope"], e["name"].lower())
        if key in scopes:
            legal = False
        scopes[key] = 1
    feats.add("legal" if legal else "illegal-global-dup")
    feats.add("case-clean" if site.clean else "case-mixed")
    return {"files": files, "entities": ents, "features": sorted(feats), "clean": site.clean}


# --------------------------------------------------------------------------
# classification of failing inputs
# --------------------------------------------------------------------------


def classify(case: dict):
    """Known-finding class of a failing case, or None (= a new violation).

    C10-case-only-names  the oracle is outfile-shared / tracer / anchor-dup, and two
        of the names involved differ but are equal after lower-casing, and the
        generated project has two entities with exactly these names in one
        page directory (`dir`; None = the shared counter of page-less items).
    C10-module-namelist-no-page  only with MODULE_LEVEL_NAMELISTS: the URL of a namelist
        declared in the specification part of a module has no file.
    C10-src-basename  the oracle is src-copy and two source files of the
        project have the same base name in different directories, and the
        failure is about that base name.
    """
    oracle = case.get("oracle")
    names = [n for n in case.get("names", []) if isinstance(n, str)]
    if oracle == "tracer" and case.get("missing") and case.get("kind") == "namelist" \
            and str(case.get("scope", "")).startswith("module:"):
        return "C10-module-namelist-no-page"
    if oracle in ("outfile-shared", "tracer", "anchor-dup", "entity-url"):
        ents = case.get("entities", [])
        for i, n1 in enumerate(names):
            for n2 in names[i + 1:]:
                if n1 != n2 and n1.lower() == n2.lower():
                    d1 = {e["dir"] for e in ents if e["name"] == n1}
                    d2 = {e["dir"] for e in ents if e["name"] == n2}
                    if d1 & d2:
                        return "C10-case-only-names"
        return None
    if oracle == "src-copy":
        rels = list(case.get("files", {}))
        for i, r1 in enumerate(rels):
            for r2 in rels[i + 1:]:
                b1, b2 = r1.rsplit("/", 1)[-1], r2.rsplit("/", 1)[-1]
                if r1 != r2 and b1 == b2 and b1 in names:
                    return "C10-src-basename"
        return None
    return None


# --------------------------------------------------------------------------
# the oracles
# --------------------------------------------------------------------------

# ids that the templates emit with a fixed text; none is repeated in one page
# in practice, but they are not entity anchors and therefore not C10's business
FIXED_TEMPLATE_IDS = {
    "src", "text", "sidebar", "info-bar", "statements", "source-file", "jumbotron",
    "type-def-statement", "sidebar-toc", "tipue_search_input", "lunrsearchresults",
    "meta-author", "meta-date", "meta-license", "meta-since", "meta-version", "meta-category",
}
# Entity anchors that a template emits twice *for the same item* (observed for
# projects without any name reuse); the property speaks about distinct items:
#   variable-*   macros.html `proc_summary` lists the dummy arguments of a module
#                procedure (with ids) under "Functions"/"Subroutines" and again under
#                every generic/operator interface that names it in `module procedure`;
#                `namelist_row` repeats the anchor of a variable that is also in the
#                variable table of the same page
#   namelist-*   macros.html `namelist_panel` (<span id>) and `namelist_summary`
#                (<table id>) both carry the anchor of the one namelist
TEMPLATE_ARTEFACTS = {"variable", "namelist"}

# `obj` values of the entity classes (the part of an anchor before the first "-")
ENTITY_ANCHOR_PREFIXES = {
    "variable", "proc", "interface", "type", "boundprocedure", "common", "enum", "finalproc",
    "namelist", "module", "submodule", "program", "blockdata", "sourcefile", "moduleprocedurereference",
}

ID_RE = re.compile(r"""\sid=(?:"([^"]*)"|'([^']*)')""")
SRC_LINK_RE = re.compile(r'id="source-file">\s*<i[^>]*></i>\s*<a href="([^"]*)"')
TRACER_RE = re.compile(r"TRC\d{4}X")

WALK_ATTRS = (
    "modules", "submodules", "programs", "blockdata", "subroutines", "functions",
    "modprocedures", "modsubroutines", "modfunctions", "interfaces", "absinterfaces", "types",
    "variables", "boundprocs", "contents", "routines", "procedure", "common", "enums",
    "namelists", "args", "retvar", "finalprocs", "modprocs", "iterator",
)


def _walk(roots, base_cls):
    seen: dict[int, object] = {}
    stack = list(roots)
    while stack:
        o = stack.pop()
        if not isinstance(o, base_cls) or id(o) in seen:
            continue
        seen[id(o)] = o
        for a in WALK_ATTRS:
            v = o.__dict__.get(a) if hasattr(o, "__dict__") else None
            if v is None:
                continue
            if isinstance(v, (list, tuple)):
                stack.extend(x for x in v if isinstance(x, base_cls))
            elif isinstance(v, dict):
                stack.extend(x for x in v.values() if isinstance(x, base_cls))
            elif isinstance(v, base_cls):
                stack.append(v)
    return list(seen.values())


def _tracers_of(o) -> set:
    txt = []
    dl = getattr(o, "doc_list", None)
    if isinstance(dl, (list, tuple)):
        txt += [x for x in dl if isinstance(x, str)]
    d = getattr(o, "doc", None)
    if isinstance(d, str):
        txt.append(d)
    return set(TRACER_RE.findall(" ".join(txt)))


def _ancestors(o):
    out = []
    seen = set()
    while o is not None and id(o) not in seen:
        seen.add(id(o))
        out.append(o)
        o = getattr(o, "parent", None)
    return out


def _page_ids(path: Path, confirm=False) -> list[str]:
    if confirm:
        soup = e2e.read_html(path)
        return [t.get("id") for t in soup.find_all(id=True)]
    txt = path.read_text(encoding="utf-8", errors="replace")
    return [a if a else b for a, b in ID_RE.findall(txt)]


def entity_oracle(sf, ents) -> tuple[list[dict], int]:
    """Property oracle on the entity objects of a correlated project (nothing needs to be rendered).

    "Distinct documented entities never share an output file ... the page found at an entity's URL
    documents that entity": two distinct entities must not answer the same `get_url()` (page, or
    page#anchor).  The only two objects that stand for one documented thing are a
    `FortranModuleProcedureInterface` and the single procedure it wraps (`wrapper.procedure`).
    "Distinct items on one page never share an anchor id": two distinct entities with the same parent
    (siblings are listed together, on the parent's page or wherever the parent is listed) must not have
    the same `anchor`.
    Returns (failures [{oracle, why, names}], number of entities looked at)."""
    by_url: dict = {}
    by_sib: dict = {}
    n = 0
    for e in ents:
        if not isinstance(getattr(e, "name", None), str):
            continue
        try:
            url, anchor = e.get_url(), e.anchor
        except Exception:  # entities that cannot say where they are documented: C09's matter
            continue
        n += 1
        if url:
            by_url.setdefault(url, []).append(e)
        par = getattr(e, "parent", None)
        if par is not None:
            by_sib.setdefault((id(par), anchor), []).append(e)

    def one_thing(a, b):
        return getattr(a, "procedure", None) is b or getattr(b, "procedure", None) is a

    def show(e):
        return f"{type(e).__name__} {e.name!r} (in {getattr(getattr(e, 'parent', None), 'name', None)!r})"

    fails = []
    for url, es in by_url.items():
        done = False
        for i, a in enumerate(es):
            for b in es[i + 1:]:
                if not one_thing(a, b) and not done:
                    done = True
                    fails.append({"oracle": "url-shared", "names": [a.name, b.name],
                                  "why": f"distinct entities {show(a)} and {show(b)} both have the URL {url!r}"})
    for (_, anchor), es in by_sib.items():
        if len(es) > 1:
            a, b = es[0], es[1]
            fails.append({"oracle": "sibling-anchor-shared", "names": [a.name, b.name],
                          "why": f"distinct items {show(a)} and {show(b)} of one parent both have the anchor {anchor!r}"})
    return fails, n


class ParentRecorder:
    """`hierarchy` is computed once, when an entity is constructed (`_make_hierarchy` follows the
    `parent` pointers as they are *then*); FORD later re-parents some entities (the body of a plain
    interface block is hung below its `FortranModuleProcedureInterface` wrapper, ...) without touching
    `hierarchy`.  The model therefore takes the parent each entity had when its hierarchy was made:
    this recorder wraps every `_make_hierarchy` defined in sourceform and notes `self.parent` per call
    (the last call wins, as the last assignment to `self.hierarchy` does)."""

    def __init__(self, sf):
        self.sf = sf
        self.at_init: dict[int, object] = {}
        self.keep: list = []
        self._saved: list[tuple] = []

    def __enter__(self):
        rec = self
        for cls in [c for c in vars(self.sf).values() if isinstance(c, type) and issubclass(c, self.sf.FortranBase)]:
            f = cls.__dict__.get("_make_hierarchy")
            if callable(f):
                def wrapped(this, *a, _f=f, **kw):
                    rec.at_init[id(this)] = getattr(this, "parent", None)
                    rec.keep.append(this)
                    return _f(this, *a, **kw)
                self._saved.append((cls, f))
                setattr(cls, "_make_hierarchy", wrapped)
        return self

    def reset(self):
        self.at_init, self.keep = {}, []

    def __exit__(self, *exc):
        for cls, f in self._saved:
            setattr(cls, "_make_hierarchy", f)
        return False


def source_of_request(sf, objs, at_init=None):
    """Correspondence input for the Lean model of `hierarchy` / `source_file` / `filename`
    (FordModel/SourceOf.lean).  From the real entity objects: the tree as (child, parent) pairs taken
    from `e.parent` (closed under ancestors), the path of every parent-less object that has one (the
    source files), and for every entity what the real code answers: ids of `e.hierarchy`,
    id of `e.source_file`, `e.filename`.  -> (request fields, expected answers, kept objects) or None."""
    ids: dict[int, int] = {}
    keep: list = []

    def num(o):
        if id(o) not in ids:
            ids[id(o)] = len(ids) + 1
            keep.append(o)
        return ids[id(o)]

    pairs, paths, ents, expect = [], [], [], []
    todo = [o for o in objs if isinstance(o, sf.FortranBase)]
    seen = set()
    skipped = 0
    while todo:
        o = todo.pop()
        if id(o) in seen:
            continue
        seen.add(id(o))
        par = at_init[id(o)] if (at_init is not None and id(o) in at_init) else getattr(o, "parent", None)
        if par is not None:
            pairs.append((num(o), num(par)))
            todo.append(par)
        else:
            pth = getattr(o, "path", None)
            if pth is not None:
                paths.append((num(o), str(pth)))
        try:
            hier = [num(x) for x in o.hierarchy]
            for x in o.hierarchy:
                todo.append(x)
            src = num(o.source_file)
            fname = str(o.filename)
        except Exception:  # an object that cannot say where it comes from: not comparable
            skipped += 1
            continue
        ents.append(num(o))
        expect.append((",".join(map(str, hier)) or "-", str(src), fname))
    if any(("\t" in p_ or "\n" in p_ or any(ord(c) > 127 for c in p_)) for _, p_ in paths):
        return None
    fuel = len(ids) + 1
    req = ["c10.srcof", str(fuel), str(len(pairs))] + [str(x) for pr in pairs for x in pr]
    req += [str(len(paths))] + [x for i, p_ in paths for x in (str(i), p_)] + [str(e) for e in ents]
    return req, expect, keep, skipped, [str(e) for e in ents]


def source_of_compare(ans, expect, keep, ents_of_req):
    """-> list of (entity object, model (hierarchy, source, filename), code (...)) that differ"""
    bad = []
    if ans[:1] != ["ok"] or len(ans) != 1 + 3 * len(expect):
        return [(None, ans[:4], "malformed answer")]
    for k, want in enumerate(expect):
        got = tuple(ans[1 + 3 * k: 4 + 3 * k])
        if got != want:
            bad.append((keep[int(ents_of_req[k]) - 1], got, want))
    return bad


def check_site(proj: dict, doc, out: Path, root: Path, log, stem_of: dict, sf, rendered=None) -> tuple[list[dict], dict]:
    """Evaluate the four oracles.  Returns (failing cases, info)."""
    fails: list[dict] = []
    info = {"pages": 0, "unmatched": [], "dir_mismatch": [], "artefacts": {}, "nolink": 0}
    ent_brief = [{"dir": e["dir"], "name": e["name"], "kind": e["kind"], "file": e["file"]}
                 for e in proj["entities"]]

    def fail(oracle, why, names, **kw):
        c = {"stream": STREAM, "oracle": oracle, "files": proj["files"], "why": why,
             "names": names, "entities": ent_brief, "features": proj["features"],
             "project": {"entities": proj["entities"], "clean": proj.get("clean", False)}}
        c.update(kw)
        fails.append(c)

    # ---- 1. outfile-shared
    pages = list(doc.docs) + list(doc.lists) + [doc.index, doc.search] + list(doc.pagetree)
    info["pages"] = len(pages)
    byfile: dict = {}
    for p in pages:
        byfile.setdefault(str(p.outfile), []).append(p)
    for f, ps in byfile.items():
        if len(ps) > 1:
            names = [getattr(p.obj, "name", None) if p.obj is not None else type(p).__name__ for p in ps]
            fail("outfile-shared",
                 f"{len(ps)} distinct pages are written to {Path(f).relative_to(out)}: "
                 + ", ".join(f"{type(p.obj).__name__} {getattr(p.obj, 'name', None)!r} "
                             f"({getattr(p.obj, 'filename', '?')})" for p in ps),
                 names, outfile=str(Path(f).relative_to(out)))
        if not Path(f).is_file():
            fail("outfile-shared", f"page file {Path(f).relative_to(out)} was not written",
                 [getattr(ps[0].obj, "name", None)], outfile=str(Path(f).relative_to(out)))
    page_of_file = {f: ps for f, ps in byfile.items()}

    # ---- 2. tracer: the page at the entity's URL documents the entity
    roots = list(doc.project.allfiles) + [it for it in log.items]
    for attr in ("modules", "submodules", "programs", "blockdata", "procedures", "types",
                 "absinterfaces", "submodprocedures", "namelists"):
        roots += list(getattr(doc.project, attr, []) or [])
    objs = _walk(roots, sf.FortranBase)
    by_tracer: dict = {}
    for o in objs:
        for t in _tracers_of(o):
            by_tracer.setdefault(t, []).append(o)
    text_cache: dict = {}

    def text(path: Path):
        k = str(path)
        if k not in text_cache:
            try:
                text_cache[k] = path.read_text(encoding="utf-8", errors="replace")
            except OSError:
                text_cache[k] = None
        return text_cache[k]

    passed: list[tuple[dict, object, Path]] = []
    for e in proj["entities"]:
        if not e["page"]:
            continue
        cands = [o for o in by_tracer.get(e["tracer"], [])
                 if (o.name == e["name"] or (e["name"] == "" and e["kind"] in ("program", "blockdata")))]
        cands = [o for o in cands if o.get_dir() is not None]
        if not cands:
            info["unmatched"].append((e["kind"], e["name"], e["file"]))
            continue
        for o in cands:
            if o.get_dir() != e["dir"]:
                info["dir_mismatch"].append((e["kind"], e["name"], e["dir"], o.get_dir()))
            url = o.get_url()
            if not url:
                fail("tracer", f"{e['kind']} {e['name']!r} ({e['file']}) has no URL", [e["name"]])
                continue
            target = out / url.split("#")[0]
            body = text(target)
            if body is None or e["tracer"] not in body:
                others = [getattr(p.obj, "name", None) for p in page_of_file.get(str(target), [])
                          if p.obj is not o]
                found = sorted(set(TRACER_RE.findall(body or "")))[:6]
                fail("tracer",
                     f"the page {url} of {e['kind']} {e['name']!r} ({e['file']}) does not contain its "
                     f"doc word {e['tracer']}" + (" (file missing)" if body is None else "")
                     + (f"; the file is also the page of {others}" if others else ""),
                     [e["name"]] + [n for n in others if n is not None], url=url, found_tracers=found,
                     missing=body is None, kind=e["kind"], scope=e["scope"])
            else:
                passed.append((e, o, target))

    # ---- 3. anchor-dup
    owners_by_anchor: dict = {}
    asked = {id(it) for it in log.items}
    for it in list(log.items) + [o for o in objs if id(o) not in asked]:
        # the anchor as the code under test computes it (for the items of the log the stem is
        # already registered; an item that never asked for a name of its own - e.g. one that
        # borrows its parent's - is an owner of whatever anchor it answers, too)
        try:
            owners_by_anchor.setdefault(it.anchor, []).append(it)
        except Exception:
            continue
    for p in doc.docs:
        items = {k: o for d in (rendered or {}).get(id(p), {}).values() for k, o in d.items()}
        if items:
            info["pages_with_id_items"] = info.get("pages_with_id_items", 0) + 1
            info["rendered_items"] = info.get("rendered_items", 0) + len(items)
            if len({getattr(o, "filename", None) for o in items.values()}) > 1:
                info["pages_mixing_files"] = info.get("pages_mixing_files", 0) + 1
    for p in doc.docs:
        f = p.outfile
        if not f.is_file():
            continue
        ids = _page_ids(f)
        dup = sorted({i for i in ids if ids.count(i) > 1})
        if not dup:
            continue
        ids = _page_ids(f, confirm=True)  # bs4 is the reference
        dup = sorted({i for i in ids if ids.count(i) > 1})
        on_page = (rendered or {}).get(id(p), {})
        for i in dup:
            if i in FIXED_TEMPLATE_IDS:
                continue
            # (round 6) the items that answered this anchor while *this page* was rendered: two distinct
            # items - wherever they were defined; a page of a generic interface lists specifics of other
            # modules, a type page lists inherited components - and the id is in the page more than once
            shown = list(on_page.get(i, {}).values())
            if len(shown) >= 2:
                rel = str(f.relative_to(out))
                fail("anchor-dup",
                     f"page {rel} has id={i!r} {ids.count(i)} times; distinct items that were rendered on this "
                     "page with this anchor: "
                     + ", ".join(f"{type(o).__name__} {o.name!r} in {getattr(getattr(o, 'parent', None), 'name', None)!r} "
                                 f"({getattr(o, 'filename', '?')})" for o in shown),
                     [o.name for o in shown], page=rel, anchor=i, kind="rendered")
                continue
            owners = owners_by_anchor.get(i, [])
            here = [o for o in owners if any(a is p.obj for a in _ancestors(o))]
            rel = str(f.relative_to(out))
            if len(here) >= 2:
                fail("anchor-dup",
                     f"page {rel} has id={i!r} {ids.count(i)} times; distinct items with this anchor "
                     "below the page's entity: "
                     + ", ".join(f"{type(o).__name__} {o.name!r} in {getattr(o.parent, 'name', None)!r}"
                                 for o in here),
                     [o.name for o in here], page=rel, anchor=i)
            elif len(owners) >= 1 and i.split("-", 1)[0] in TEMPLATE_ARTEFACTS:
                k = i.split("-", 1)[0]
                info["artefacts"][k] = info["artefacts"].get(k, 0) + 1
            elif len(owners) >= 1:
                fail("anchor-dup",
                     f"page {rel} has id={i!r} {ids.count(i)} times (one item emitted twice by a template "
                     "that is not in TEMPLATE_ARTEFACTS)", [o.name for o in owners], page=rel, anchor=i)
            elif i.split("-", 1)[0] in ENTITY_ANCHOR_PREFIXES and "-" in i:
                fail("anchor-dup",
                     f"page {rel} has id={i!r} {ids.count(i)} times; it looks like an entity anchor but no "
                     "item of the project has this anchor", [], page=rel, anchor=i)
            else:
                info["artefacts"]["<non-entity>" + i] = info["artefacts"].get("<non-entity>" + i, 0) + 1

    # ---- 3b. entity-url: distinct entities, distinct URLs; siblings, distinct anchors
    efails, info["entities_seen"] = entity_oracle(sf, objs)
    for f in efails[:5]:
        fail("entity-url", f["why"], f["names"], kind=f["oracle"])

    # ---- 4. src-copy
    srcdir = out / "src"
    allfiles = list(doc.project.allfiles)
    for fobj in allfiles:
        served = srcdir / fobj.name
        try:
            want = Path(fobj.path).read_bytes()
        except OSError:
            continue
        got = served.read_bytes() if served.is_file() else None
        if got != want:
            same = [str(Path(g.path).relative_to(root / "src")) for g in allfiles if g.name == fobj.name]
            fail("src-copy",
                 f"src/{fobj.name} is not a copy of {Path(fobj.path).relative_to(root / 'src')}"
                 + (" (missing)" if got is None else f"; source files with this base name: {same}"),
                 [fobj.name], served=f"src/{fobj.name}", same_basename=same)
    bad_links: set = set()
    for e, o, target in passed:
        m = SRC_LINK_RE.search(text(target) or "")
        if not m:
            info["nolink"] += 1
            continue
        href = m.group(1)
        dest = (target.parent / href).resolve()
        body = text(dest)
        if (body is None or e["tracer"] not in body) and (str(dest), e["file"]) not in bad_links:
            bad_links.add((str(dest), e["file"]))
            fail("src-copy",
                 f"the 'Source File' link {href} on the page of {e['kind']} {e['name']!r} "
                 f"(defined in {e['file']}) serves a file that does not define it",
                 [dest.name, e["name"]], link=href, kind="link")
    return fails, info


# --------------------------------------------------------------------------
# driver of the stream
# --------------------------------------------------------------------------


def _mem_bytecode_cache():
    """`Documentation.__init__` replaces `env.loader` on every run, which throws away
    Jinja's compiled templates (about 0.3 s of re-compilation per project).  A bytecode
    cache (keyed by template name, validated by the checksum of the template *source*)
    only skips that re-compilation; rendering and its result are unchanged."""
    import jinja2

    class Mem(jinja2.BytecodeCache):
        def __init__(self):
            self.store = {}

        def load_bytecode(self, bucket):
            b = self.store.get(bucket.key)
            if b is not None:
                bucket.bytecode_from_string(b)

        def dump_bytecode(self, bucket):
            self.store[bucket.key] = bucket.bytecode_to_string()

    return Mem()


class _Log:
    def __init__(self):
        self.calls: list[tuple] = []  # (python id, dir, name, stem)
        self.items: list = []  # keeps the items alive (ids stay unique)
        self._seen: set = set()

    def add(self, item, d, name, stem):
        if id(item) not in self._seen:
            self._seen.add(id(item))
            self.items.append(item)
        self.calls.append((id(item), d, name, stem))


OPTIONS = {
    "incl_src": "true",
    "display": ["public", "private", "protected"],
    "proc_internals": "true",
    "warn": "false",
}


def run_e2e(rep, drv, rng, n_sites, variant, workdir, projects=None) -> dict:
    """`projects`: replay these generated projects (dicts as returned by gen_project) instead of generating."""
    common.import_ford()
    import ford.output as fo
    import ford.sourceform as sf

    workdir = Path(workdir)
    stats = {"sites": 0, "requests": 0, "corr_bad": 0, "corr_skipped_none_name": 0,
             "oracle_fail": {}, "classes": {}, "features": {}, "pages": 0, "skipped": 0,
             "skipped_info": [], "samples": [], "clean_sites": 0, "clean_fail": 0,
             "artefacts": {}, "unmatched": 0, "ford_s": 0.0, "oracle_s": 0.0}
    cur = {"log": None, "doc": None}
    orig_get = sf.NameSelector.get_name
    orig_write = fo.Documentation.writeout

    def rec_get_name(self, item):
        log = cur["log"]
        if log is None:
            return orig_get(self, item)
        try:
            d, nm = item.get_dir(), item.name
        except Exception:  # not a FortranBase: let the original raise its TypeError
            return orig_get(self, item)
        stem = orig_get(self, item)
        log.add(item, d, nm, stem)
        return stem

    def rec_writeout(self):
        cur["doc"] = self
        return orig_write(self)

    # ---- which items answer which anchor *while a page is rendered* (round 6).  Every class of
    # sourceform that defines `anchor` / `get_url` itself (the base class today; an override added by a
    # change is found the same way) is wrapped for the duration of the stream: an `anchor` asked for
    # directly during `page.writeout()` - not from inside `get_url()`, which builds `page#anchor` links to
    # items shown elsewhere - is recorded as (page, anchor, item).  The values returned are untouched.
    cur.update(page=None, url_depth=0, acc={})
    saved_attrs: list[tuple] = []

    def _wrap_anchor(cls, prop):
        def fget(self, _g=prop.fget):
            a = _g(self)
            pg = cur["page"]
            if pg is not None and cur["url_depth"] == 0 and isinstance(a, str):
                cur["acc"].setdefault(id(pg), {}).setdefault(a, {})[id(self)] = self
            return a
        return property(fget, prop.fset, prop.fdel, prop.__doc__)

    def _wrap_url(fn):
        def get_url(self, *a, **kw):
            cur["url_depth"] += 1
            try:
                return fn(self, *a, **kw)
            finally:
                cur["url_depth"] -= 1
        get_url.__wrapped__ = fn
        return get_url

    for cls in [c for c in vars(sf).values() if isinstance(c, type) and issubclass(c, sf.FortranBase)]:
        a = cls.__dict__.get("anchor")
        if isinstance(a, property) and a.fget is not None:
            saved_attrs.append((cls, "anchor", a))
            setattr(cls, "anchor", _wrap_anchor(cls, a))
        for nm in ("get_url",):
            f = cls.__dict__.get(nm)
            if callable(f) and not isinstance(f, (staticmethod, classmethod)):
                saved_attrs.append((cls, nm, f))
                setattr(cls, nm, _wrap_url(f))
    page_write_classes = [c for c in vars(fo).values()
                          if isinstance(c, type) and issubclass(c, fo.BasePage) and "writeout" in c.__dict__]
    for cls in page_write_classes:
        f = cls.__dict__["writeout"]
        saved_attrs.append((cls, "writeout", f))

        def page_writeout(self, *a, _f=f, **kw):
            prev = cur["page"]
            cur["page"] = self if cur["log"] is not None else None
            try:
                return _f(self, *a, **kw)
            finally:
                cur["page"] = prev
        setattr(cls, "writeout", page_writeout)

    requests: list[list[str]] = []
    pending: list[dict] = []  # what to compare once the driver has answered
    orig_bcc = fo.env.bytecode_cache
    precs = ParentRecorder(sf)
    precs.__enter__()
    stats["source_of"] = {"entities": 0, "bad": 0, "max_depth": 0, "reparented": 0,
                          "in_submodule_of_other_file": 0}
    sf.NameSelector.get_name = rec_get_name
    fo.Documentation.writeout = rec_writeout
    if orig_bcc is None:
        fo.env.bytecode_cache = _mem_bytecode_cache()
    try:
        if projects is not None:
            n_sites = len(projects)
        for k in range(n_sites):
            proj = projects[k] if projects is not None else gen_project(rng)
            stats["sites"] += 1
            for f in proj["features"]:
                stats["features"][f] = stats["features"].get(f, 0) + 1
            root = workdir / str(k)
            shutil.rmtree(root, ignore_errors=True)
            pf = e2e.write_project(root, proj["files"], OPTIONS)
            log = _Log()
            cur["log"], cur["doc"] = log, None
            cur.update(page=None, url_depth=0, acc={})
            precs.reset()
            t0 = time.time()
            try:
                res = e2e.run_inprocess(pf)
            finally:
                cur["log"] = None
            stats["ford_s"] += time.time() - t0
            doc = cur["doc"]
            if res["rc"] != 0 or res["exc"] or doc is None:
                stats["skipped"] += 1
                info = {"site": k, "rc": res["rc"], "exc": res["exc"], "log": res["log"][-400:]}
                stats["skipped_info"].append(info)
                rep.tie_broken(f"c10b: FORD failed on generated project (site {k}): rc={res['rc']} {res['exc']}",
                               {"stream": STREAM, "files": proj["files"], **info,
                                "trace": res.get("trace", "")[-1500:]})
                continue
            out = Path(res["out"])
            stats["requests"] += len(log.calls)
            # ---- (A) correspondence requests
            ids: dict[int, int] = {}
            stem_of: dict[int, str] = {}
            flat = ["c10.run", variant]
            encodable = True
            for pid, d, nm, stem in log.calls:
                stem_of.setdefault(pid, stem)
                if not isinstance(nm, str) or not (d is None or isinstance(d, str)):
                    encodable = False
                    continue
                n = ids.setdefault(pid, len(ids) + 1)
                flat += [str(n), "N" if d is None else "S" + d, nm]
            if encodable:
                requests.append(flat)
                pending.append({"what": "run", "site": k, "files": proj["files"],
                                "calls": [(ids[c[0]],) + c[1:] for c in log.calls]})
            else:
                stats["corr_skipped_none_name"] += 1
            for p in doc.docs:
                d = p.obj.get_dir()
                st = stem_of.get(id(p.obj))
                if st is None or not isinstance(d, str):
                    rep.tie_broken(f"correspondence c10b: page object {type(p.obj).__name__} "
                                   f"{p.obj.name!r} has a page but no recorded stem/dir",
                                   {"stream": STREAM, "site": k, "files": proj["files"]})
                    stats["corr_bad"] += 1
                    continue
                requests.append(["c10.url", d, st])
                pending.append({"what": "url", "site": k, "files": proj["files"], "dir": d, "stem": st,
                                "name": p.obj.name, "outfile": str(p.outfile.relative_to(out)),
                                "url": p.obj.get_url()})
            # the flat src/ copy: model `copySrc` on (path, digest of content) in project.allfiles order
            try:
                import hashlib
                srcs = [(str(f.path), hashlib.sha1(Path(f.path).read_bytes()).hexdigest()[:12], f.name)
                        for f in doc.project.allfiles]
                served = []
                for _, _, nm in srcs:
                    q = out / "src" / nm
                    served.append(hashlib.sha1(q.read_bytes()).hexdigest()[:12] if q.is_file() else "<missing>")
                if all(ord(c) < 128 and c not in "\t\n" for pth, _, _ in srcs for c in pth):
                    requests.append(["c10.src"] + [x for pth, h, _ in srcs for x in (pth, h)])
                    pending.append({"what": "src", "site": k, "files": proj["files"], "served": served,
                                    "paths": [pth for pth, _, _ in srcs]})
                    stats["src_files"] = stats.get("src_files", 0) + len(srcs)
            except Exception as e:  # a changed implementation may not have these attributes
                rep.tie_broken(f"correspondence c10b: cannot observe the src/ copy: {type(e).__name__}: {e}",
                               {"stream": STREAM, "site": k, "files": proj["files"]})
                stats["corr_bad"] += 1
            # hierarchy / source_file / filename of every entity object vs the model (SourceOf.lean)
            try:
                all_objs = _walk(list(doc.project.allfiles) + list(log.items), sf.FortranBase)
                so = source_of_request(sf, all_objs, precs.at_init)
                if so is not None:
                    req, expect, keepobjs, _sk, entf = so
                    requests.append(req)
                    pending.append({"what": "srcof", "site": k, "files": proj["files"], "expect": expect,
                                    "entf": entf, "names": [(type(o).__name__, getattr(o, "name", None)) for o in keepobjs]})
                    sst = stats["source_of"]
                    sst["entities"] += len(expect)
                    sst["max_depth"] = max([sst["max_depth"]] + [h.count(",") + 1 for h, _, _ in expect if h != "-"])
                    sst["reparented"] += sum(1 for o in all_objs if id(o) in precs.at_init
                                             and precs.at_init[id(o)] is not getattr(o, "parent", None))
                    for o in all_objs:
                        if isinstance(o, sf.FortranSubmodule):
                            anc = getattr(o, "ancestor_module", None)
                            if isinstance(anc, sf.FortranBase) and anc.source_file is not o.source_file:
                                sst["in_submodule_of_other_file"] += 1
            except Exception as e:
                rep.tie_broken(f"correspondence c10b: cannot observe hierarchy/source_file: {type(e).__name__}: {e}",
                               {"stream": STREAM, "site": k, "files": proj["files"]})
                stats["corr_bad"] += 1
            # ---- (B) oracles
            t0 = time.time()
            fails, info = check_site(proj, doc, out, root, log, stem_of, sf, rendered=cur["acc"])
            stats["rendered_anchor_items"] = stats.get("rendered_anchor_items", 0) + info.get("rendered_items", 0)
            stats["pages_mixing_files"] = stats.get("pages_mixing_files", 0) + info.get("pages_mixing_files", 0)
            stats["pages_with_id_items"] = stats.get("pages_with_id_items", 0) + info.get("pages_with_id_items", 0)
            stats["oracle_s"] += time.time() - t0
            stats["pages"] += info["pages"]
            for a, c in info["artefacts"].items():
                stats["artefacts"][a] = stats["artefacts"].get(a, 0) + c
            if info["unmatched"] or info["dir_mismatch"]:
                stats["unmatched"] += len(info["unmatched"]) + len(info["dir_mismatch"])
                rep.tie_broken(
                    f"c10b: generated entities not found in FORD's project, or in another page directory "
                    f"than expected (site {k}): {info['unmatched'][:3]} {info['dir_mismatch'][:3]}",
                    {"stream": STREAM, "site": k, "files": proj["files"],
                     "unmatched": info["unmatched"], "dir_mismatch": info["dir_mismatch"]})
            clean_site = "case-clean" in proj["features"] and "same-basename" not in proj["features"]
            if clean_site:
                stats["clean_sites"] += 1
                if fails:
                    stats["clean_fail"] += 1
            for c in fails:
                c["site"] = k
                c["variant"] = variant
                fid = classify(c)
                stats["oracle_fail"][c["oracle"]] = stats["oracle_fail"].get(c["oracle"], 0) + 1
                key = f"{c['oracle']}:{fid}"
                stats["classes"][key] = stats["classes"].get(key, 0) + 1
                rep.failing_input(c, fid)
            if len(stats["samples"]) < 2:
                stats["samples"].append({
                    "site": k, "features": proj["features"], "files": sorted(proj["files"]),
                    "requests": len(log.calls), "pages": info["pages"],
                    "stems": sorted({f"{c[1]}/{c[3]}" for c in log.calls if c[1]})[:12],
                    "failed_oracles": sorted({c["oracle"] for c in fails})})
            # free the site's objects (the next run builds a new namelist anyway)
            cur["doc"] = None
    finally:
        sf.NameSelector.get_name = orig_get
        fo.Documentation.writeout = orig_write
        fo.env.bytecode_cache = orig_bcc
        precs.__exit__(None, None, None)
        for cls, nm, val in reversed(saved_attrs):
            setattr(cls, nm, val)
        cur["log"] = None

    # ---- ask the model once for everything
    answers = drv.batch(requests) if requests else []
    for req, ans in zip(pending, answers):
        if req["what"] == "run":
            want = [c[3] for c in req["calls"]]
            got = ans[1:]
            if ans[:1] != ["ok"] or got != want:
                stats["corr_bad"] += 1
                idx = next((i for i, (a, b) in enumerate(zip(got, want)) if a != b), min(len(got), len(want)))
                lo = max(0, idx - 3)
                rep.tie_broken(
                    f"correspondence c10b: get_name call {idx} of site {req['site']}: model "
                    f"{got[idx] if idx < len(got) else None!r}, code {want[idx] if idx < len(want) else None!r} "
                    f"for {req['calls'][idx][:3] if idx < len(want) else None}",
                    {"stream": STREAM, "site": req["site"], "files": req["files"], "variant": variant,
                     "first_difference": idx, "calls_around": [list(c) for c in req["calls"][lo:idx + 2]],
                     "model": got[lo:idx + 2], "status": ans[:1]})
        elif req["what"] == "srcof":
            bad = source_of_compare(ans, req["expect"], list(range(len(req["names"]))), req["entf"])
            for idx, got, want in bad[:2]:
                stats["corr_bad"] += 1
                stats["source_of"]["bad"] += 1
                who = req["names"][idx] if isinstance(idx, int) else None
                rep.tie_broken(
                    f"correspondence c10b: (hierarchy, source_file, filename) of {who} in site {req['site']}: "
                    f"model {got}, implementation {want}",
                    {"stream": STREAM, "site": req["site"], "files": req["files"], "model": list(got) if not isinstance(got, str) else got,
                     "code": list(want) if not isinstance(want, str) else want})
        elif req["what"] == "src":
            if ans[:1] != ["ok"] or ans[1:] != req["served"]:
                stats["corr_bad"] += 1
                rep.tie_broken(
                    f"correspondence c10b: src/ copy of site {req['site']}: model serves {ans[1:]}, "
                    f"the written site serves {req['served']} for {req['paths']}",
                    {"stream": STREAM, "site": req["site"], "files": req["files"], "model": ans,
                     "code": req["served"], "paths": req["paths"]})
        else:
            got_url = ans[1] if len(ans) > 1 else None
            got_file = "/".join(ans[2:])
            if ans[:1] != ["ok"] or got_file != req["outfile"] or got_url != req["url"]:
                stats["corr_bad"] += 1
                rep.tie_broken(
                    f"correspondence c10b: page of {req['name']!r} (dir {req['dir']!r}, stem {req['stem']!r}): "
                    f"model {got_url!r} -> {got_file!r}, code {req['url']!r} -> {req['outfile']!r}",
                    {"stream": STREAM, "site": req["site"], "files": req["files"],
                     "model": ans, "code": [req["url"], req["outfile"]]})
    stats["ford_s"] = round(stats["ford_s"], 2)
    stats["oracle_s"] = round(stats["oracle_s"], 2)
    return stats
