"""Run the real FORD end-to-end, in-process or in a fresh subprocess.

write_project(dir, files, options, project_text, pages) lays a project out on disk:
    <dir>/<project_file>        project file (markdown metadata + text)
    <dir>/src/...               Fortran sources (files: {relative path: text})
    <dir>/pages/...             optional static pages
run_inprocess(dir) -> (rc, output_dir, captured_text, project, docs)
run_subprocess(dir, hashseed=None, extra_args=()) -> (rc, output_dir, text)
"""
from __future__ import annotations

import io
import os
import subprocess
import sys
import traceback
from contextlib import redirect_stderr, redirect_stdout
from pathlib import Path

from . import common

DEFAULT_OPTIONS = {
    "src_dir": "./src",
    "output_dir": "./doc",
    "preprocess": "false",
    "graph": "false",
    "search": "false",
    "project": "testproj",
}


def write_project(root: Path, files: dict, options: dict | None = None,
                  text: str = "Project text.\n", pages: dict | None = None,
                  project_file: str = "proj.md") -> Path:
    """Write a project; option values may be str or list[str] (multi-line metadata)."""
    root.mkdir(parents=True, exist_ok=True)
    opts = dict(DEFAULT_OPTIONS)
    opts.update(options or {})
    for rel, body in files.items():
        p = root / "src" / rel if not str(rel).startswith("/") and not str(rel).startswith("..") else root / rel
        p = (root / "src" / rel)
        p.parent.mkdir(parents=True, exist_ok=True)
        if isinstance(body, bytes):
            p.write_bytes(body)
        else:
            p.write_text(body)
    if pages:
        opts.setdefault("page_dir", "./pages")
        for rel, body in pages.items():
            p = root / "pages" / rel
            p.parent.mkdir(parents=True, exist_ok=True)
            if isinstance(body, bytes):
                p.write_bytes(body)
            else:
                p.write_text(body)
    lines = ["---"]
    for k, v in opts.items():
        if v is None:
            continue
        if isinstance(v, (list, tuple)):
            if not v:
                continue
            lines.append(f"{k}: {v[0]}")
            lines += [f"    {x}" for x in v[1:]]
        else:
            lines.append(f"{k}: {v}")
    lines.append("---")
    (root / project_file).write_text("\n".join(lines) + "\n\n" + text)
    return root / project_file


def reset_global_state(ford):
    """FORD keeps process-wide state; reset it between in-process runs."""
    import ford.sourceform as sf

    sf.namelist = sf.NameSelector()
    try:
        import ford.graphs as g
        if hasattr(g, "graphviz_installed"):
            pass
    except Exception:
        pass


def run_inprocess(project_file: Path, extra_cli: dict | None = None):
    """ford.load_settings + parse_arguments + main, in this process.
    Returns dict(rc, out, log, exc, project, settings)."""
    ford = common.import_ford()
    import ford.fortran_project  # noqa

    reset_global_state(ford)
    project_file = Path(project_file)
    directory = project_file.parent
    buf = io.StringIO()
    res = {"rc": None, "out": None, "log": "", "exc": None, "settings": None}
    cwd = os.getcwd()
    try:
        with redirect_stdout(buf), redirect_stderr(buf):
            text = project_file.read_text()
            proj_docs, proj_data = ford.load_settings(text, directory, project_file.name)
            args = {"project_file": _Named(project_file)}
            args.update(extra_cli or {})
            proj_data, proj_docs = ford.parse_arguments(args, proj_docs, proj_data, directory)
            res["settings"] = proj_data
            res["out"] = Path(proj_data.output_dir)
            res["rc"] = ford.main(proj_data, proj_docs)
    except SystemExit as e:
        res["rc"] = e.code if isinstance(e.code, int) else 1
        res["exc"] = f"SystemExit: {e.code}"
    except BaseException as e:  # noqa
        res["rc"] = 99
        res["exc"] = f"{type(e).__name__}: {e}"
        res["trace"] = traceback.format_exc()
    finally:
        os.chdir(cwd)
    res["log"] = buf.getvalue()
    return res


class _Named:
    def __init__(self, p):
        self.name = str(p)


def run_subprocess(project_file: Path, hashseed=None, extra_args=(), cwd=None, timeout=600, shim: str | None = None):
    """`python -m ford <project_file>` in a fresh interpreter whose sys.path starts with REPO.
    `shim` is Python source executed before ford.run() (e.g. to wrap find_all_files)."""
    env = dict(os.environ)
    env["PATH"] = "/venv/bin:" + env.get("PATH", "")
    env["FORD_DEBUGGING"] = "1"
    env["PYTHONPATH"] = str(common.REPO)
    if hashseed is not None:
        env["PYTHONHASHSEED"] = str(hashseed)
    code = (
        "import sys; sys.path.insert(0, %r)\n" % str(common.REPO)
        + "import ford, pathlib\n"
        + "assert pathlib.Path(ford.__file__).resolve().is_relative_to(%r), ford.__file__\n" % str(common.REPO)
        + (shim or "")
        + "\nsys.argv = ['ford'] + %r\n" % ([str(project_file)] + list(extra_args))
        + "ford.run()\n"
    )
    p = subprocess.run([sys.executable, "-c", code], cwd=cwd or Path(project_file).parent,
                       env=env, capture_output=True, text=True, timeout=timeout)
    return p.returncode, p.stdout + p.stderr


def tree_digest(root: Path) -> dict:
    """relative path -> sha1 of content, for every file under root."""
    import hashlib

    out = {}
    for p in sorted(Path(root).rglob("*")):
        if p.is_file():
            out[str(p.relative_to(root))] = hashlib.sha1(p.read_bytes()).hexdigest()
    return out


def read_html(path: Path):
    from bs4 import BeautifulSoup

    return BeautifulSoup(Path(path).read_text(encoding="utf-8", errors="replace"), "html.parser")
