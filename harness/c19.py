"""C19 - a run touches nothing outside its output directory (and graph directory).

What happens on every run
  prove      : translate/c19.py regenerates Generated/C19.lean - the decisions of the write-out are observed by probes of
               the real code (harness/c19_probe.py), not read off its spelling -, `lake build`, axiom audit.
  micro      : `norm`, `ident`, `parents` of the Lean model against os.path.normpath,
               NameSelector.get_name and pathlib's `parents` on random inputs (exact);
               micro/guard: the containment decision of PagetreePage.writeout for copy_subdir items (real method
               on a stub page, no disk access) against the model's guard + oracle "every copytree target is
               inside the output directory", on near-miss names (doc / docs / doc-assets / do ...).
  scenarios  : sandbox trees with every placement of output_dir / graph_dir x option combinations x symbolic links
               (to outside files / directories, internal, dangling) inside the trees FORD copies verbatim and inside
               the old output directory x copy_subdir items landing next to the output directory;
               the real FORD runs in-process under one global `sys.addaudithook` recorder;
               (a) correspondence: canonicalised sequence of mutating attempts == the model's `run`
                   (exact; ordered up to the order of attempts in different sub-trees, `canon_order`),
                   model O/G == FORD's == realpath;
               (b) property oracle on the real code (independent of the model): every mutating attempt
                   lies physically under O or G (or creates a missing ancestor of them, or is a mkdir of
                   something that already exists = no effect); content-hash + mtime + mode snapshot of
                   the whole sandbox outside O/G is identical before and after; a run with a source
                   directory inside O raises before the first mutating attempt.
  regenerate : after an ordinary run the output directory is what a user may have made of it: each top-level entry
               in turn (then random subsets, second-level entries, all of them) replaced by a symbolic link to a
               directory / file outside, dot-entries added, files of the graph directory replaced by links; FORD runs
               again; (a) and (b) as above - the model resolves every attempt through the links that survive the
               clean-up (`runPhys`), the recorder through the real file system.
  faults     : the n-th mutating attempt raises OSError, for sampled (quick) / all (thorough) n - also each removal
               of the clean-up of a regeneration in which every entry of the old output is a link;
               oracle (b) again, and the attempts made are among those of the model's fault-free run
               (no handler does file-system work of its own).
"""
from __future__ import annotations

import errno
import hashlib
import json
import os
import random
import re
import shutil
import stat
import sys
import time
import traceback
from pathlib import Path

from . import common, e2e
from .common import Driver, Report, lean_prove

PROP = "C19"
US = "\x1f"
FINDING_ESCAPE = "C19-copy-subdir-escape"
FINDING_WIPE = "C19-wipe-failure-ignored"
FINDING_GLINK = "C19-graphdir-stale-link"
FINDING_SUBPAGE = "C19-ordered-subpage-escape"

sys.dont_write_bytecode = True

# ----------------------------------------------------------------------------------------------
# audit recorder (hooks cannot be removed: one global hook, swappable recorder)
# ----------------------------------------------------------------------------------------------

_STATE = {"rec": None, "installed": False}
_WRITE_FLAGS = os.O_WRONLY | os.O_RDWR | os.O_CREAT | os.O_TRUNC | os.O_APPEND
_FOLLOW = {"wr", "chmod", "utime", "chown", "truncate", "spawnwr"}


class Injected(OSError):
    pass


class Recorder:
    def __init__(self, sandbox: Path, fault_at: int | None = None):
        self.sandbox = str(sandbox)
        self.fault_at = fault_at
        self.events: list[dict] = []  # canonical primitive attempts
        self.outside: list[dict] = []  # attempts outside the sandbox (blocked)
        self.busy = False
        self.count = 0
        self.injected = False
        self.fault_event: dict | None = None  # the attempt that was made to fail

    def phys(self, p, follow: bool, dir_fd=None) -> str:
        p = os.fsdecode(p)
        if not os.path.isabs(p):
            base = os.getcwd()
            if isinstance(dir_fd, int) and dir_fd >= 0:
                try:
                    base = os.readlink(f"/proc/self/fd/{dir_fd}")
                except OSError:
                    pass
            p = os.path.join(base, p)
        if follow and os.path.islink(p):
            return os.path.realpath(p)
        head, tail = os.path.split(p.rstrip("/") or "/")
        if tail in ("", ".", ".."):
            return os.path.realpath(p)
        return os.path.join(os.path.realpath(head), tail)

    def add(self, kind: str, path, raw, dir_fd=None):
        ph = self.phys(path, kind in _FOLLOW, dir_fd)
        if ph.startswith("/dev/") or ph.startswith("/proc/"):
            return
        ev = {"kind": kind, "path": ph, "existed": os.path.lexists(ph), "raw": raw}
        inside = ph == self.sandbox or ph.startswith(self.sandbox + "/")
        if not inside:
            self.outside.append(ev)
            raise PermissionError(errno.EPERM, "C19 harness: attempt outside the sandbox blocked", ph)
        self.events.append(ev)
        if kind in ("spawnwr",):
            return
        self.count += 1
        if self.fault_at is not None and self.count == self.fault_at:
            self.injected = True
            self.fault_event = ev
            raise Injected(errno.EIO, "C19 harness: injected failure", ph)


def _hook(ev, args):
    rec = _STATE["rec"]
    if rec is None or rec.busy:
        return
    try:
        rec.busy = True
        raw_cb = getattr(rec, "on_raw", None)  # probes (harness/c19_probe.py) also look at `shutil.copytree` calls
        if raw_cb is not None:
            raw_cb(ev, args)
        if ev == "open":
            p, _mode, flags = args
            if isinstance(p, int) or not isinstance(flags, int) or not (flags & _WRITE_FLAGS):
                return
            rec.add("wr", p, ["open", str(p), flags])
        elif ev == "os.mkdir":
            rec.add("mk", args[0], ["os.mkdir", str(args[0])], args[2] if len(args) > 2 else None)
        elif ev == "os.rmdir":
            rec.add("rmdir", args[0], ["os.rmdir", str(args[0])], args[1] if len(args) > 1 else None)
        elif ev == "os.remove":
            rec.add("rm", args[0], ["os.remove", str(args[0])], args[1] if len(args) > 1 else None)
        elif ev == "os.rename":
            rec.add("mvfrom", args[0], ["os.rename", str(args[0]), str(args[1])], args[2] if len(args) > 2 else None)
            rec.add("mvto", args[1], ["os.rename", str(args[0]), str(args[1])], args[3] if len(args) > 3 else None)
        elif ev == "os.utime":
            rec.add("utime", args[0], ["os.utime", str(args[0])], args[3] if len(args) > 3 else None)
        elif ev == "os.chmod":
            rec.add("chmod", args[0], ["os.chmod", str(args[0])], args[2] if len(args) > 2 else None)
        elif ev == "os.chown":
            rec.add("chown", args[0], ["os.chown", str(args[0])], args[3] if len(args) > 3 else None)
        elif ev == "os.truncate":
            rec.add("truncate", args[0], ["os.truncate", str(args[0])])
        elif ev == "os.symlink":
            rec.add("symlink", args[1], ["os.symlink", str(args[0]), str(args[1])], args[2] if len(args) > 2 else None)
        elif ev == "os.link":
            rec.add("link", args[1], ["os.link", str(args[0]), str(args[1])], args[3] if len(args) > 3 else None)
        elif ev in ("os.setxattr", "os.removexattr"):
            rec.add("xattr", args[0], [ev, str(args[0])])
        elif ev == "shutil.rmtree":
            rec.add("rmtree", args[0], ["shutil.rmtree", str(args[0])], args[1] if len(args) > 1 else None)
        elif ev == "subprocess.Popen":
            exe, argv, cwd, _env = args
            argv = [os.fsdecode(a) if isinstance(a, (bytes, os.PathLike)) else str(a) for a in (argv or [])]
            if argv and os.path.basename(argv[0]) == "dot" and "-O" in argv:
                # graphviz: `dot -Kdot -Tsvg -O <file>` run in cwd writes <file>.svg
                fmt = next((a[2:] for a in argv if a.startswith("-T")), "svg")
                target = os.path.join(os.fsdecode(cwd) if cwd else os.getcwd(), argv[-1] + "." + fmt)
                rec.add("spawnwr", target, ["subprocess.Popen"] + argv)
            elif argv and os.path.basename(argv[0]) == "dot":
                pass  # rendering through pipes, no file
            else:
                rec.events.append({"kind": "spawn", "path": os.fsdecode(cwd) if cwd else os.getcwd(),
                                   "existed": True, "raw": ["subprocess.Popen"] + argv})
        elif ev in ("os.system", "os.exec", "os.posix_spawn", "os.spawn"):
            rec.events.append({"kind": "spawn", "path": os.getcwd(), "existed": True, "raw": [ev, str(args)[:200]]})
    finally:
        rec.busy = False


def install_hook():
    if not _STATE["installed"]:
        sys.addaudithook(_hook)
        _STATE["installed"] = True


# ----------------------------------------------------------------------------------------------
# sandbox
# ----------------------------------------------------------------------------------------------

SRCSETS = [
    {"a.f90": "module m\n!! doc of m\ncontains\nsubroutine s()\n!! s\nend subroutine\nend module m\n",
     "sub/b.f90": "program p\nuse m\ncall s()\nend program\n"},
    {"a.f90": "module m\n!! doc\ntype :: t\ninteger :: i\nend type\ninterface operator(/)\nmodule procedure dv\nend interface\n"
              "interface operator(//)\nmodule procedure cc\nend interface\ncontains\n"
              "function dv(x,y) result(r)\ntype(t),intent(in)::x,y\ntype(t)::r\nr%i=x%i/y%i\nend function\n"
              "function cc(x,y) result(r)\ntype(t),intent(in)::x,y\ntype(t)::r\nr%i=x%i\nend function\nend module m\n",
     "sub/a.f90": "module m2\nuse m\ntype, extends(t) :: t2\nend type\ncontains\nsubroutine Foo()\nend subroutine\nsubroutine foo2()\ncall Foo()\nend subroutine\nend module\n",
     "c.f90": "program p\nuse m2\ncall foo2()\nend program\nblock data bd\ninteger q\ncommon /c/ q\nend block data\n"},
    {"only.f90": "subroutine lone(x)\ninteger x\nnamelist /nl/ x\nend subroutine\nfunction lone2() result(r)\ninteger r\nr=1\nend function\n"},
]

PAGESETS = {
    "none": None,
    "simple": {"index.md": "---\ntitle: T\ncopy_subdir: img\n---\nhello\n", "img/x.png": "png", "img/deep/y.png": "y",
               "note.txt": "n", "sub/index.md": "---\ntitle: S\n---\nx", "sub/q.md": "---\ntitle: Q\n---\nq",
               "sub/data.bin": b"\x00\x01"},
    # the shipped example: `../images` stays inside the output directory
    "dotdot_inside": {"index.md": "---\ntitle: T\ncopy_subdir: ../images\n---\nhello\n", "sub/index.md": "---\ntitle: S\ncopy_subdir: ../img\n---\nx",
                      "img/x.png": "png", "img/index.md": "---\ntitle: I\n---\ni"},
    # climbs out of the output directory (copies <work>/victim next to the output dir)
    "escape": {"index.md": "---\ntitle: T\n---\nhello\n",
               "sub/index.md": "---\ntitle: S\ncopy_subdir: ../../../victim\n---\nx", "sub/q.md": "---\ntitle: Q\n---\nq"},
    "escape_top": {"index.md": "---\ntitle: T\ncopy_subdir: ../../victim\n    img\n---\nhello\n", "img/x.png": "p"},
    # project-level copy_subdir (becomes an absolute path in normalise_paths)
    "proj_copy": {"index.md": "---\ntitle: T\n---\nhello\n", "img/x.png": "png", "sub/index.md": "---\ntitle: S\n---\nx"},
    # copy_subdir names a directory that is also a sub-page directory, and an item twice
    "collide": {"index.md": "---\ntitle: T\ncopy_subdir: sub\n    img\n    img\n    missing\n---\nhello\n", "img/x.png": "png",
                "sub/index.md": "---\ntitle: S\n---\nx", "sub/extra.txt": "e"},
}

# `ordered_subpage` entries are user input: paths, not only names of the directory listing.  Values of the form
# ("->", target) are symbolic links.  <work>/shared_pages (a section shared between projects: index.md, install.md,
# data.txt, inner/) always exists; `<page_dir>/sub/../../../x` is <work>/x.
PAGESETS.update({
    # nested entries, `..` inside the page directory, missing ones, a non-page file, an absolute entry ({P} = page_dir)
    "sub_paths": {"index.md": "---\ntitle: T\nordered_subpage: sub\n    sub/q.md\n    sub/deep\n    img/../sub/deep/d.md\n"
                              "    nosuch/x.md\n    sub/../note.txt\n    sub/data.bin\n    {P}/other\n    sub/deep/\n---\nhello\n",
                  "sub/index.md": "---\ntitle: S\ncopy_subdir: pics\n---\nx", "sub/q.md": "---\ntitle: Q\n---\nq",
                  "sub/deep/index.md": "---\ntitle: D\n---\nd", "sub/deep/d.md": "---\ntitle: DD\n---\nd", "sub/data.bin": b"\x00\x01",
                  "sub/pics/p.png": "p", "note.txt": "n", "img/x.png": "png", "other/index.md": "---\ntitle: O\n---\no",
                  "other/o.txt": "o"},
    # entries that leave the page directory: a directory, a page file and a plain file of <work>/shared_pages
    "sub_escape": {"index.md": "---\ntitle: T\nordered_subpage: sub\n    sub/../../../shared_pages\n"
                               "    sub/../../../shared_pages/install.md\n    sub/../../../shared_pages/data.txt\n---\nhello\n",
                   "sub/index.md": "---\ntitle: S\n---\nx", "sub/q.md": "---\ntitle: Q\n---\nq"},
    # ... from a sub-page, by an absolute path ({W} = <work>), and one level only (lands inside the output directory)
    "sub_escape_abs": {"index.md": "---\ntitle: T\nordered_subpage: sub\n    sub/../../images\n---\nhello\n",
                       "sub/index.md": "---\ntitle: S\nordered_subpage: q.md\n    {W}/shared_pages\n---\nx",
                       "sub/q.md": "---\ntitle: Q\n---\nq"},
    # a section shared with another project, linked into the page directory; a linked page file; a dangling link
    "linked_section": {"index.md": "---\ntitle: T\n---\nhello\n", "guide": ("->", "../../shared_pages"),
                       "linked.md": ("->", "../../shared_pages/install.md"), "gone.md": ("->", "../../shared_pages/nothing.md"),
                       "sub/index.md": "---\ntitle: S\nordered_subpage: inner\n    q.md\n---\nx", "sub/q.md": "---\ntitle: Q\n---\nq",
                       "sub/inner": ("->", "../../../shared_pages/inner")},
    # ... and entries that go through the link
    "linked_paths": {"index.md": "---\ntitle: T\nordered_subpage: guide\n    guide/inner\n    guide/install.md\n---\nhello\n",
                     "guide": ("->", "../../shared_pages"), "sub/index.md": "---\ntitle: S\n---\nx"},
})

# copy_subdir items whose target lies *near* the output directory <O> = <parent>/<name> without being inside it
# (a page at location <loc> copies to <O>/page/<loc>/<item>): siblings whose name extends / truncates <name>,
# <O> itself, its parent, a directory called <name> somewhere else.  {N} = <name>, {n} = <name> without its last
# character.  The corresponding source directories <work>/<...> exist (see build_sandbox).
NEAR_TOP = ["img", "../../{N}s", "../../{N}-assets", "../../{N}.old", "../../{n}", "..", "../..", "../../x/{N}", "../page2"]
NEAR_SUB = ["../../../{N}_old", "../../../{N}s/deeper", "../.."]
NEAR_SOURCES = ["{N}s", "{N}-assets", "{N}.old", "{n}", "x/{N}", "{N}_old", "{N}s/deeper"]


def near_fill(pat: str, O: Path) -> str:
    return pat.replace("{N}", O.name).replace("{n}", O.name[:-1] or "q")


def pageset(scn: dict, O: Path | None):
    """The page directory of the scenario (relative file name -> content or ("->", link target)); None = no page_dir."""
    if scn["pages"] != "near_miss":
        return PAGESETS[scn["pages"]]
    O = O or Path("/doc")
    top = "\n    ".join(near_fill(i, O) for i in NEAR_TOP)
    sub = "\n    ".join(near_fill(i, O) for i in NEAR_SUB)
    return {"index.md": f"---\ntitle: T\ncopy_subdir: {top}\n---\nhello\n", "img/x.png": "png",
            "sub/index.md": f"---\ntitle: S\ncopy_subdir: {sub}\n---\nx", "sub/q.md": "---\ntitle: Q\n---\nq"}


PAGESET_NAMES = list(PAGESETS) + ["near_miss"]

OUT_PLACEMENTS = {
    # name: (raw output_dir (W = work dir), expect refusal)
    "nested": "./doc", "nested_deep": "build/a/doc", "sibling": "../out", "absolute": "{W}/elsewhere/out",
    "dotdot": "src/../doc2", "dotdot_deep": "pages/sub/../../doc3", "symlink_parent": "../lnk/out",
    "symlink_self": "./outlink", "in_src": "./src/doc", "trailing": "doc4/./sub//", "near_src": "./sr",
    "eq_src": "./src", "above_src": ".", "above_all": "..", "eq_src_symlink": "../real/rsrc", "above_src2": "../lib",
    "eq_src_dotdot": "doc/../src", "above_src_symlink": "../lnk",
}
REFUSING = {"eq_src", "above_src", "above_all", "eq_src_symlink", "above_src2", "eq_src_dotdot", "above_src_symlink"}
G_PLACEMENTS = {"none": None, "plain": "./graphs", "missing": "gr/a/b", "sibling": "../gout", "absolute": "{W}/elsewhere/g",
                "symlink": "../lnk/g", "inside": "{O}/graphs", "dotdot": "src/../g2", "exists": "./gexist", "shared_media": "./media"}


def build_sandbox(sb: Path, scn: dict) -> dict:
    """Lay the scenario out under sb; returns paths."""
    # directory names are user input too: `deco` is appended to the name of the directory everything lives in, so that
    # every absolute path of the run (output, graph, source, page directories) contains it (see NAME_DECOS)
    W = sb / ("work" + scn.get("deco", ""))
    proj = W / "proj"
    for d in (proj, W / "lib", W / "elsewhere", W / "real", W / "victim" / "inner", proj / "media" / "m2", proj / "images", proj / "gexist",
              W / "shared_pages" / "inner", sb / "far" / "lib2" / "sub"):
        d.mkdir(parents=True, exist_ok=True)
    (W / "lib" / "c_lib.f90").write_text("subroutine libsub()\nend subroutine\n")
    # a source directory two levels above the project file, with file names that occur more than once (also in ./src)
    (sb / "far" / "lib2" / "util.f90").write_text("subroutine far_util()\nend subroutine\n")
    (sb / "far" / "lib2" / "sub" / "util.f90").write_text("subroutine far_sub_util()\nend subroutine\n")
    (sb / "far" / "lib2" / "a.f90").write_text("subroutine far_a()\nend subroutine\n")
    (sb / "far" / "lib2" / "sub" / "only.f90").write_text("subroutine far_only()\nend subroutine\n")
    # a documentation section shared between projects (input: must stay as it is)
    (W / "shared_pages" / "index.md").write_text("---\ntitle: Shared guide\n---\nshared\n")
    (W / "shared_pages" / "install.md").write_text("---\ntitle: Installing\n---\nhow\n")
    (W / "shared_pages" / "data.txt").write_text("data\n")
    (W / "shared_pages" / "inner" / "index.md").write_text("---\ntitle: Inner\n---\ninner\n")
    (W / "shared_pages" / "inner" / "pic.png").write_text("png")
    (W / "victim" / "important.txt").write_text("do not touch\n")
    (W / "victim" / "inner" / "deep.txt").write_text("deep\n")
    (W / "real" / "keep.txt").write_text("keep\n")
    (W / "elsewhere" / "other.txt").write_text("other\n")
    (proj / "gexist" / "old.svg").write_text("<svg/>")
    (proj / "images" / "pic.png").write_text("pic")
    (proj / "media" / "m.txt").write_text("m")
    (proj / "media" / "logo.svg").write_text("<svg>logo</svg>")
    (proj / "media" / "arch.gv").write_text("digraph{a->b}")
    (proj / "gexist" / "notes.gv").write_text("digraph{}")
    (proj / "media" / "m2" / "n.txt").write_text("n")
    (proj / "my.css").write_text("body{}")
    (proj / "mj.js").write_text("//mj")
    (proj / "fav.png").write_bytes(b"\x89PNG")
    os.symlink("real", W / "lnk")
    (W / "real" / "o2" / "olddir").mkdir(parents=True)
    (W / "real" / "o2" / "old.html").write_text("old")
    os.symlink("../real/o2", proj / "outlink")
    (W / "real" / "rsrc").mkdir()
    (W / "real" / "rsrc" / "r.f90").write_text("subroutine rr()\nend subroutine\n")
    os.symlink("../real/rsrc", proj / "srclink")
    for rel, body in SRCSETS[scn["srcset"]].items():
        p = proj / "src" / rel
        p.parent.mkdir(parents=True, exist_ok=True)
        p.write_text(body)
    out_raw = OUT_PLACEMENTS[scn["out"]].replace("{W}", str(W))
    O = Path(os.path.realpath(proj / out_raw))
    pages = pageset(scn, O)
    opts = {"src_dir": scn["src"], "preprocess": "false", "parallel": "0", "project": "sandbox",
            "graph": "true" if scn["graph"] else "false", "search": "true" if scn["search"] else "false",
            "incl_src": "true" if scn["incl_src"] else "false",
            "externalize": "true" if scn["externalize"] else "false"}
    opts["output_dir"] = out_raw
    if scn["gdir"] != "none":
        opts["graph_dir"] = G_PLACEMENTS[scn["gdir"]].replace("{W}", str(W)).replace("{O}", out_raw.rstrip("/"))
    if scn["media"]:
        opts["media_dir"] = "./media" if scn["media"] == 1 else "./nomedia"
    if scn["css"]:
        opts["css"] = "./my.css"
    if scn["mathjax"]:
        opts["mathjax_config"] = "sub/../mj.js" if scn["mathjax"] == 2 else "./mj.js"
    if scn["favicon"]:
        opts["favicon"] = "./fav.png"
    if pages is not None:
        opts["page_dir"] = "./pages"
        (proj / "pages").mkdir(parents=True, exist_ok=True)
        pdir = os.path.realpath(proj / "pages")
        for rel, body in pages.items():
            p = proj / "pages" / rel
            p.parent.mkdir(parents=True, exist_ok=True)
            if isinstance(body, tuple):
                os.symlink(body[1], p)
            else:
                p.write_bytes(body if isinstance(body, bytes) else body.replace("{P}", pdir).replace("{W}", str(W)).encode())
        if scn["pages"] == "proj_copy":
            opts["copy_subdir"] = ["img", "nosuchdir"]
        if scn["pages"] == "near_miss":
            # page_dir = proj/pages, so `<page_dir>/../../<x>` is <work>/<x>
            for pat in NEAR_SOURCES:
                d = W / near_fill(pat, O)
                if not under(str(d), O) and not os.path.lexists(d):
                    d.mkdir(parents=True)
                    (d / "pic.svg").write_text("<svg/>")
    # symbolic links inside the trees that FORD copies verbatim (media_dir, copy_subdir directories, page files):
    # 1 = links to existing files / directories outside the project, inside the tree; 2 = dangling links as well
    if scn.get("links", 0):
        victim = W / "victim"
        made = []

        def link(target, at: Path):
            if at.parent.is_dir() and not os.path.lexists(at):
                os.symlink(target, at)
                made.append(str(at))

        link(str(victim / "important.txt"), proj / "media" / "ext_abs.txt")
        link("../../../victim/inner/deep.txt", proj / "media" / "m2" / "ext_rel.txt")
        link("../../victim/inner", proj / "media" / "ext_dir")
        link("m.txt", proj / "media" / "self.txt")
        link(str(victim / "important.txt"), proj / "pages" / "img" / "ext.txt")
        link("../../../victim/inner", proj / "pages" / "img" / "extdir")
        link("../../victim/important.txt", proj / "pages" / "linked.txt")
        if scn["links"] == 2:
            link("../../victim/gone.png", proj / "media" / "gone.png")
            link(str(W / "elsewhere" / "nothing"), proj / "media" / "m2" / "gone_abs")
            link("../../../victim/gone2.png", proj / "pages" / "img" / "gone")
    # pre-existing output
    if scn["out"] not in REFUSING:
        if scn["pre_out"] == "file":
            O.parent.mkdir(parents=True, exist_ok=True)
            if O.is_dir():
                shutil.rmtree(O)
            O.write_text("a file where the output directory goes")
        elif scn["pre_out"] == "dir":
            (O / "lists").mkdir(parents=True, exist_ok=True)
            (O / "stale.html").write_text("stale")
            (O / "lists" / "x.html").write_text("x")
            if scn["out"] == "in_src":
                (O / "old.f90").write_text("module shadow\nend module\n")
            if scn.get("links", 0):
                # stale links in the old output: the wipe must remove the links, not what they point to
                os.symlink(str(W / "victim"), O / "oldlink")
                os.symlink(os.path.relpath(W / "victim" / "important.txt", O / "lists"), O / "lists" / "l.txt")
    lines = ["---"]
    for k, v in opts.items():
        if isinstance(v, list):
            lines.append(f"{k}: {v[0]}")
            lines += [f"    {x}" for x in v[1:]]
        else:
            lines.append(f"{k}: {v}")
    lines += ["---", "", "Project text.", ""]
    (proj / "proj.md").write_text("\n".join(lines))
    G = Path(os.path.realpath(proj / opts["graph_dir"])) if "graph_dir" in opts else None
    return {"W": W, "proj": proj, "O": O, "G": G, "opts": opts, "out_raw": out_raw,
            "srcs": [Path(os.path.realpath(proj / s)) for s in scn["src"]]}


def stale_plan(O: Path, spec: dict) -> list:
    """Which entries of the (already generated) output directory are replaced by symbolic links that point
    outside it.  Derived from what the directory really contains - no list of names is built in:
      (the harness also sweeps over *every* top-level entry alone: explicit `plan` = [[name, d|f]])
      some : every top-level entry with probability 0.35, every second-level entry with probability 0.12
      all  : every top-level entry;   deep : second-level entries only (probability 0.4)"""
    mode = spec["mode"]
    rng = random.Random(spec.get("seed", 0))
    top, deep = [], []
    if O.is_dir() and not O.is_symlink():
        for e in sorted(os.scandir(O), key=lambda e: e.name):
            if e.name.startswith(".") or e.is_symlink():
                continue
            top.append((e.name, "d" if e.is_dir() else "f"))
            if e.is_dir():
                for e2 in sorted(os.scandir(e.path), key=lambda e: e.name):
                    if not e2.is_symlink():
                        deep.append((e.name + "/" + e2.name, "d" if e2.is_dir() else "f"))
    if mode == "all":
        return top
    if mode == "deep":
        return [x for x in deep if rng.random() < 0.4]
    chosen = [x for x in top if rng.random() < 0.35]
    names = {c[0] for c in chosen}
    return chosen + [x for x in deep if x[0].split("/")[0] not in names and rng.random() < 0.12]


def mutate_output(lay: dict, spec: dict) -> list[str]:
    """The user's doings between two runs: entries of the output directory (which belongs to FORD: anything may be
    left in it) are replaced by symbolic links to directories / files *outside* it (`work/published/pub<n>/...`, an
    older published copy), dot-entries are added, files of the graph directory are replaced by links.  The plan
    is computed once from what the directories contain and stored in the spec (`plan`, `gplan`), so that the
    mutation can be re-applied before fault runs and in replays."""
    O, W = lay["O"], lay["W"]
    pub = W / "published" / f"pub{spec.get('n', 0)}"
    made = []
    # start from the complete output of the ordinary run (kept aside outside the sandbox), whatever earlier
    # regenerations / fault runs in this sandbox have left: every regeneration is an experiment of its own
    if O.is_file() or O.is_symlink():
        O.unlink()
    elif O.is_dir():
        shutil.rmtree(O)
    if lay.get("pristine") and Path(lay["pristine"]).is_dir():
        shutil.copytree(lay["pristine"], O, symlinks=True)
    else:
        O.mkdir(parents=True, exist_ok=True)
    if "plan" not in spec:
        spec["plan"] = [list(x) for x in stale_plan(O, spec)]
    for i, (rel, kind) in enumerate(spec["plan"]):
        at = O / rel
        if at.is_symlink() or at.is_file():
            at.unlink()
        elif at.is_dir():
            shutil.rmtree(at)
        at.parent.mkdir(parents=True, exist_ok=True)
        tgt = pub / (kind + "_" + rel.replace("/", "__"))
        if kind == "d":
            (tgt / "sub").mkdir(parents=True, exist_ok=True)
            for n, body in (("keep.txt", "do not touch\n"), ("index.html", "<html>published last year</html>\n"),
                            ("sub/index.html", "<html>sub</html>\n")):
                if not (tgt / n).exists():
                    (tgt / n).write_text(body)
        else:
            tgt.parent.mkdir(parents=True, exist_ok=True)
            if not tgt.exists():
                tgt.write_text("published file\n")
        os.symlink(str(tgt) if (i + spec.get("seed", 0)) % 2 == 0 else os.path.relpath(tgt, at.parent), at)
        made.append(rel)
    G = lay.get("G0")
    if spec.get("gdir") and G is not None and G.is_dir() and not under(str(G), O):
        # the graph directory is never cleaned: links left in it, under the names of the files found there
        # (`<graph>.svg`, `<graph>.gv`, and `<graph>` itself, the name graphviz writes the source to)
        if "gplan" not in spec:
            rng = random.Random(spec.get("seed", 0))
            names = sorted(n for n in os.listdir(G) if not os.path.islink(G / n) and (G / n).is_file())
            spec["gplan"] = [os.path.splitext(n)[0] if rng.random() < 0.34 else n
                             for n in rng.sample(names, min(len(names), spec["gdir"]))]
        for n in spec["gplan"]:
            at = G / n
            tgt = pub / ("g_" + n)
            tgt.parent.mkdir(parents=True, exist_ok=True)
            if not tgt.exists():
                tgt.write_text("precious\n")
            if at.is_file() or at.is_symlink():
                at.unlink()
            os.symlink(str(tgt), at)
            made.append("G:" + n)
    if spec.get("dots"):
        (pub / "gitdir").mkdir(parents=True, exist_ok=True)
        if not (pub / "gitdir" / "HEAD").exists():
            (pub / "gitdir" / "HEAD").write_text("ref: refs/heads/gh-pages\n")
        for name, make in ((".git", lambda p: os.symlink(str(pub / "gitdir"), p)), (".nojekyll", lambda p: p.write_text("")),
                           (".cache", lambda p: (p.mkdir(), os.symlink(str(pub / "gitdir" / "HEAD"), p / "head"))),
                           (".lnk.txt", lambda p: os.symlink(str(pub / "gitdir" / "HEAD"), p))):
            if not os.path.lexists(O / name):
                make(O / name)
                made.append(name)
    return made


def snapshot(root: Path) -> dict:
    out = {}
    for dirpath, dirnames, filenames in os.walk(root, followlinks=False):
        for n in dirnames + filenames:
            p = os.path.join(dirpath, n)
            st = os.lstat(p)
            if stat.S_ISLNK(st.st_mode):
                out[p] = ("l", os.readlink(p))
            elif stat.S_ISDIR(st.st_mode):
                out[p] = ("d", stat.S_IMODE(st.st_mode))
            else:
                with open(p, "rb") as fh:
                    h = hashlib.sha1(fh.read()).hexdigest()
                out[p] = ("f", h, st.st_mtime_ns, stat.S_IMODE(st.st_mode), st.st_size)
    return out


def under(p: str, root) -> bool:
    root = str(root)
    return p == root or p.startswith(root.rstrip("/") + "/")


RS = "\x1e"


def walk_listing(src: Path) -> list[str] | None:
    """Tokens of the source tree in shutil.copytree order; None when unreadable.
    0 file, 1/2 enter/leave directory (symbolic links listed as what they point to), 3 dangling link,
    T entries of the copy in rglob order, L symbolic link entries with the physical path they point to."""
    toks: list[str] = []
    rels: list[str] = []
    links: list[str] = []

    def rec(d: Path, rel: str):
        with os.scandir(d) as it:
            entries = list(it)
        for e in entries:
            r = f"{rel}/{e.name}" if rel else e.name
            if e.is_symlink():
                links.append("L" + r + RS + os.path.realpath(e.path))
                if not os.path.exists(e.path):
                    toks.append("3" + r)
                    continue
            if e.is_dir():
                toks.append("1" + r)
                rels.append(r)
                rec(Path(e.path), r)
                toks.append("2" + r)
            else:
                toks.append("0" + r)
                rels.append(r)

    try:
        rec(src, "")
    except OSError:
        return None
    return toks + ["T" + r for r in sorted(rels)] + links


# ----------------------------------------------------------------------------------------------
# the page tree as *input*: what lies on disk and what the metadata says (no FORD page object involved)
# ----------------------------------------------------------------------------------------------


def md_meta(path: str):
    """(ok, ordered_subpage entries, copy_subdir items) of a file read the way `PageNode.__init__` reads it:
    FORD's own metadata reader (C15/C17 territory), nothing of the page tree."""
    from textwrap import dedent

    common.import_ford()
    from ford.settings import EntitySettings
    from ford.utils import meta_preprocessor

    try:
        with common.quiet():
            meta, _text = meta_preprocessor(dedent(Path(path).read_text("utf-8")))
            m = EntitySettings.from_markdown_metadata(meta, Path(path).stem)
        return (m.title is not None, [str(x) for x in m.ordered_subpage], [str(x) for x in m.copy_subdir])
    except Exception:
        return (False, [], [])


_PROJ_COPY_ABS = None


def proj_copy_is_absolute() -> bool:
    """does `ProjectSettings.normalise_paths` turn a project-wide `copy_subdir` name into an absolute path?"""
    global _PROJ_COPY_ABS
    if _PROJ_COPY_ABS is None:
        common.import_ford()
        from ford.settings import ProjectSettings
        st = ProjectSettings(copy_subdir=["zz"])
        st.normalise_paths("/nonexistent-ford-verif")
        _PROJ_COPY_ABS = os.path.isabs(str(st.copy_subdir[0]))
    return _PROJ_COPY_ABS


def page_input(root: Path, page_dir: str, proj_copy: list[str], skip: list[str]) -> tuple[list[str], list]:
    """Fields describing everything below `root` (physical paths; sub-trees in `skip` left out) as the model's
    `PageIn`: directories with their sorted listing, regular files (with metadata when they can be pages),
    symbolic links with the physical path they point to; the ancestors of `root` as bare directories.
    Also returns [(directory of an index.md, its ordered_subpage entries)] for the classification."""
    root = str(root)
    f = [US.join(["pdir", page_dir]), US.join(["pproj"] + proj_copy)]
    orders = []
    anc = os.path.dirname(root)
    while True:
        f.append(US.join(["pnode", anc, "d"]))
        if anc == "/":
            break
        anc = os.path.dirname(anc)
    as_page = set()  # regular files reached under an `.md` name through a link
    links = []
    for dirpath, dirnames, filenames in os.walk(root, followlinks=False):
        dirnames[:] = [d for d in dirnames if not any(under(os.path.join(dirpath, d), k) for k in skip)]
        for n in dirnames + filenames:
            p = os.path.join(dirpath, n)
            if os.path.islink(p):
                t = os.path.realpath(p)
                links.append((p, t))
                if n.endswith(".md") and os.path.isfile(t):
                    as_page.add(t)
    for dirpath, dirnames, filenames in os.walk(root, followlinks=False):
        dirnames[:] = [d for d in dirnames if not any(under(os.path.join(dirpath, d), k) for k in skip)]
        f.append(US.join(["pnode", dirpath, "d"] + sorted(os.listdir(dirpath))))
        for n in filenames:
            p = os.path.join(dirpath, n)
            if os.path.islink(p):
                continue
            if n.endswith(".md") or p in as_page:
                ok, ordered, copy = md_meta(p)
                f.append(US.join(["pnode", p, "m", "1" if ok else "0", str(len(ordered))] + ordered + copy))
                if n == "index.md" and ordered:
                    orders.append((dirpath, ordered))
            else:
                f.append(US.join(["pnode", p, "f"]))
    for p, t in links:
        f.append(US.join(["plink", p, t]))
    return f, orders


def subpage_escape_regions(orders: list, page_dir: str, O) -> list[str]:
    """The known class C19-ordered-subpage-escape, decided from the input: an `ordered_subpage` entry of an
    index.md that, joined lexically to the directory of that file, normalises to a path outside the page
    directory; the page (and everything below it) is then placed at <O>/page/<relpath(.., page_dir)>."""
    res = []
    for d, ordered in orders:
        for e in ordered:
            if e[:1] == "." or e[-1:] == "~":
                continue
            t = os.path.normpath(os.path.join(d, e))
            if under(t, page_dir):
                continue
            loc = t if os.path.isdir(t) else os.path.dirname(t)
            res.append(os.path.normpath(os.path.join(str(O), "page", os.path.relpath(loc, page_dir))))
    return res


# ----------------------------------------------------------------------------------------------
# running the real code
# ----------------------------------------------------------------------------------------------


def run_ford(proj_file: Path, rec: Recorder):
    """load_settings + parse_arguments + main, in-process, with the recorder active only around them."""
    ford = common.import_ford()
    import ford.fortran_project  # noqa
    import ford.output as fo

    e2e.reset_global_state(ford)
    captured = {}
    orig = fo.Documentation.writeout

    def spy(self):
        captured["docs"] = self
        captured["site"] = extract_site(self)
        captured["pages"] = real_pages(self)
        return orig(self)

    res = {"rc": None, "exc": None, "settings": None, "phase": "settings"}
    cwd = os.getcwd()
    fo.Documentation.writeout = spy
    try:
        with common.quiet() as buf:
            try:
                _STATE["rec"] = rec
                text = proj_file.read_text()
                proj_docs, proj_data = ford.load_settings(text, proj_file.parent, proj_file.name)
                proj_data, proj_docs = ford.parse_arguments({"project_file": e2e._Named(proj_file)}, proj_docs, proj_data, proj_file.parent)
                res["settings"] = proj_data
                res["phase"] = "main"
                res["rc"] = ford.main(proj_data, proj_docs)
            except SystemExit as e:
                res["rc"] = e.code if isinstance(e.code, int) else 1
                res["exc"] = f"SystemExit: {e.code}"
            except BaseException as e:  # noqa
                res["rc"] = 99
                res["exc"] = f"{type(e).__name__}: {e}"
                res["trace"] = traceback.format_exc()[-1500:]
            finally:
                _STATE["rec"] = None
        res["log"] = buf.getvalue()[-1500:]
    finally:
        fo.Documentation.writeout = orig
        os.chdir(cwd)
    res["site"] = captured.get("site")
    res["pages"] = captured.get("pages")
    return res


def loc_key(location) -> str:
    """`PageNode.location` as components joined by `/` (`.` is the empty string)"""
    return "/".join(Path(location).parts)


def real_pages(docs) -> list[list]:
    """The page tree the real run works with: (location, output stem, copy_subdir, files) per node, in order."""
    return [[loc_key(p.obj.location), p.obj.filename.stem, [str(x) for x in p.obj.copy_subdir], [str(x) for x in p.obj.files]]
            for p in docs.pagetree]


def extract_site(docs) -> list[str]:
    """Abstract the Documentation object (before write-out) into the model's Site fields."""
    import ford.output as fo

    f: list[str] = []
    data = docs.data
    project = docs.project
    for page in docs.docs:
        obj = page.obj
        ident = obj.ident
        m = re.fullmatch(r"(.*)~(\d+)", ident)
        num = int(m.group(2)) if m else 1
        f.append(US.join(["doc", str(obj.get_dir()), obj.name, str(num)]))
    for page in docs.lists:
        f.append(US.join(["list", page.out_page]))
    if data["incl_src"]:
        for src in project.allfiles:
            f.append(US.join(["srcfile", str(src.path)]))  # where the file is; the name of the copy is the model's business
    seen = set()
    for page in docs.pagetree:
        # listings of the directories that `copy_subdir` items name (by location and item); which pages there are,
        # where they go and which files they copy is computed by the model from the page directory itself
        node = page.obj
        from_path = data["page_dir"] / node.location
        for item in node.copy_subdir:
            key = (loc_key(node.location), str(item))
            if key in seen:
                continue
            seen.add(key)
            toks = walk_listing(from_path / item)
            f.append(US.join(["ptree", key[0], key[1], "0" if toks is None else "1"] + (toks or [])))
    gm = docs.graphs
    if data["graph"] and gm.save_graphs and fo.graphviz_installed:
        names: list[str] = []

        def add(g):
            if len(g.added) > len(g.root):
                names.append(g.imgfile)

        for m_ in gm.modules:
            add(m_.usesgraph), add(m_.usedbygraph)
        for t in gm.types:
            add(t.inhergraph), add(t.inherbygraph)
        for p in gm.procedures:
            add(p.callsgraph), add(p.calledbygraph)
        for p in gm.programs:
            add(p.callsgraph), add(p.usesgraph)
        for s in gm.sourcefiles:
            add(s.afferentgraph), add(s.efferentgraph)
        for b in gm.blockdata:
            add(b.usesgraph)
        for g in (gm.usegraph, gm.typegraph, gm.callgraph, gm.filegraph):
            if g:
                add(g)
        for n in names:
            f.append(US.join(["graphfile", n]))
    return f


# ----------------------------------------------------------------------------------------------
# model request / canonical traces
# ----------------------------------------------------------------------------------------------


def canon_real(events: list[dict]) -> list[str]:
    out: list[tuple[str, str]] = []
    wipe = None
    for e in events:
        k, p = e["kind"], e["path"]
        if k == "spawn":
            out.append(("spawn", " ".join(e["raw"][1:4])))
            wipe = None
            continue
        if wipe is not None and k in ("rm", "rmdir") and under(p, wipe):
            continue
        wipe = p if k == "rmtree" else None
        if k == "spawnwr":
            k = "wr"
        out.append((k, p))
    return sort_utime_runs([f"{k} {p}" for k, p in out])


def sort_utime_runs(prims: list[str]) -> list[str]:
    res: list[str] = []
    run: list[str] = []
    for p in prims:
        if p.startswith("utime "):
            run.append(p)
        else:
            res += sorted(run)
            run = []
            res.append(p)
    return res + sorted(run)


def _prim(prim: str):
    k, _, p = prim.partition(" ")
    return k, p


def dependent(a: str, b: str) -> bool:
    """Two attempts whose order matters: one path is the other or an ancestor of it (attempts in different
    sub-trees commute; so do two `utime`s wherever they are; a spawned process is ordered with everything)."""
    ka, pa = _prim(a)
    kb, pb = _prim(b)
    if ka == "spawn" or kb == "spawn":
        return True
    if ka == "utime" and kb == "utime":
        return False
    A, B = pa.split("/"), pb.split("/")
    n = min(len(A), len(B))
    return A[:n] == B[:n]


def canon_order(prims: list[str]) -> list[str]:
    """The attempt sequence up to the order of independent attempts (`dependent`): its Foata normal form - every
    attempt gets the level 1 + the highest level of an earlier attempt it depends on, the result is sorted by
    (level, kind, path).  Two sequences have the same normal form iff one can be turned into the other by swapping
    adjacent independent attempts: re-ordering independent statements of the write-out (the user style sheet before the
    favicon, one table of names in another order) is not a difference, re-ordering attempts on the same path or on a
    directory and something below it is.  Subsumes the sorting of `utime` runs (`Path.rglob` order)."""
    own: dict = {}  # path -> (highest level of a non-utime attempt, of any attempt) exactly there
    sub: dict = {}  # ... there or below
    out = []
    top = barrier = 0
    for prim in prims:
        k, p = _prim(prim)
        parts = None if k == "spawn" else tuple(p.split("/"))
        ut = k == "utime"
        if parts is None:
            lvl = top
        else:
            lvl = barrier
            for i in range(1, len(parts) + 1):
                o = own.get(parts[:i])
                if o:
                    lvl = max(lvl, o[0] if ut else o[1])
            s_ = sub.get(parts)
            if s_:
                lvl = max(lvl, s_[0] if ut else s_[1])
        lvl += 1
        top = max(top, lvl)
        if parts is None:
            barrier = lvl
        else:
            o = own.get(parts, (0, 0))
            own[parts] = (o[0] if ut else max(o[0], lvl), max(o[1], lvl))
            for i in range(1, len(parts) + 1):
                s_ = sub.get(parts[:i], (0, 0))
                sub[parts[:i]] = (s_[0] if ut else max(s_[0], lvl), max(s_[1], lvl))
        out.append((lvl, k, p))
    return [f"{k} {p}" for _l, k, p in sorted(out)]


def trace_prefix(real: list[str], model: list[str]) -> bool:
    """is `real` the beginning of a sequence that equals `model` up to the order of independent attempts?"""
    rem = list(model)
    for r in real:
        j = next((j for j, m in enumerate(rem) if m == r), None)
        if j is None or any(dependent(rem[i], r) for i in range(j)):
            return False
        del rem[j]
    return True


# ----------------------------------------------------------------------------------------------
# oracle (defined from the property statement, not from the model)
# ----------------------------------------------------------------------------------------------


def oracle(scn, lay, rec: Recorder, before: dict, after: dict, res: dict) -> list[dict]:
    """Returns the list of property failures of this run."""
    O, G = str(lay["O"]), (str(lay["G"]) if lay["G"] is not None else None)
    fails = []
    refuse = any(under(str(s), O) for s in lay["srcs"])

    if refuse:
        muts = [e for e in rec.events if e["kind"] != "spawn"]
        if muts or rec.outside:
            fails.append({"why": "a source directory lies inside the output directory but the run performed file-system "
                                 "changes instead of refusing first", "first": (muts + rec.outside)[0]})
        if res["exc"] is None:
            fails.append({"why": "a source directory lies inside the output directory and the run did not refuse"})
        changed = diff_snap(before, after, None, None)
        if changed:
            fails.append({"why": "refused run changed the file system", "changed": changed[:8]})
        return fails
    for e in rec.outside:
        fails.append({"why": "mutating attempt outside the sandbox (blocked)", "event": e})
    for e in rec.events:
        k, p = e["kind"], e["path"]
        if k == "spawn":
            continue
        if under(p, O):
            continue
        if G is not None and under(p, G):
            # the graph directory is only ever added to: nothing that existed there may be removed or renamed
            # away, and only files FORD names itself (`<kind>~~<name>~~<Graph>`) may be rewritten
            if p in before and (k in ("rm", "rmdir", "rmtree") or
                                (k in ("wr", "mvfrom", "mvto", "truncate") and "~~" not in os.path.basename(p))):
                fails.append({"why": f"pre-existing entry of graph_dir removed/overwritten: {k} {p}", "event": e})
            continue
        if k == "mk" and (under(O, p) or (G is not None and under(G, p))):
            continue  # creating a missing ancestor of O / G
        if k == "mk" and e["existed"]:
            continue  # mkdir of something that exists cannot have an effect
        fails.append({"why": f"mutating attempt outside output_dir/graph_dir: {k} {p}", "event": e})
    changed = diff_snap(before, after, O, G)
    if changed:
        fails.append({"why": "file system outside output_dir/graph_dir differs after the run", "changed": changed[:8]})
    if G is not None and not under(G, O):
        lost = [{"path": p, "before": v, "after": after.get(p)} for p, v in sorted(before.items())
                if under(p, G) and not under(p, O) and p != G and "~~" not in os.path.basename(p)
                and (p not in after or (v[0] == "f" and after[p] != v))]
        if lost:
            fails.append({"why": "pre-existing content of graph_dir (which may coincide with an input directory) was "
                                 "deleted or modified", "changed": lost[:8]})
    return fails


def diff_snap(before, after, O, G):
    def skip(p):
        return (O is not None and under(p, O)) or (G is not None and under(p, G))

    changed = []
    for p in sorted(set(before) | set(after)):
        if skip(p):
            continue
        a, b = before.get(p), after.get(p)
        if a == b:
            continue
        if a is None and b[0] == "d" and ((O and under(O, p)) or (G and under(G, p))):
            continue  # new ancestor directory of O / G
        changed.append({"path": p, "before": a, "after": b})
    return changed


def escape_targets(scn, lay) -> list[str]:
    """Lexical targets of page-level copy_subdir items that leave the output directory (the known class)."""
    pages = pageset(scn, lay["O"]) or {}
    res = []
    for rel, body in pages.items():
        if not rel.endswith(".md") or not isinstance(body, str):
            continue
        m = re.search(r"^copy_subdir:(.*(?:\n    .*)*)", body, re.M)
        if not m:
            continue
        loc = os.path.dirname(rel)
        for item in m.group(1).split():
            t = os.path.normpath(os.path.join(str(lay["O"]), "page", loc, item))
            if not under(t, lay["O"]):
                res.append(t)
    return res


def fail_paths(f: dict) -> list[str]:
    paths = []
    if "event" in f:
        paths.append(f["event"]["path"])
    for c in f.get("changed", []):
        paths.append(c["path"])
    return paths


def classify_one(scn, lay, r, f) -> str | None:
    """The known class (known_findings/C19.json) a single failure of the oracle falls into, or None."""
    paths = fail_paths(f)
    if not paths or "refus" in f["why"]:
        return None
    O, G = lay["O"], lay["G"]
    # a symbolic link left in the (never cleaned) graph directory under the name of a file FORD writes for a graph
    # it saves in this run: <graph_dir>/<imgfile> or <graph_dir>/<imgfile>.svg
    if G is not None and not under(str(G), O):
        saved = {x.split(US)[1] for x in (r["res"].get("site") or []) if x.startswith("graphfile" + US)}
        written = {os.path.join(str(G), n) for n in saved} | {os.path.join(str(G), n + ".svg") for n in saved}
        gl = {t for at, t, _d, _k in r["oldlinks"] if at in written}
        if gl and all(p in gl for p in paths):
            return FINDING_GLINK
    # fault run: the attempt that failed was the removal of a symbolic link of the old output directory (during
    # the clean-up, the only time FORD removes anything), and the objected paths lie under what that link points to
    fe = r["rec"].fault_event
    if fe is not None and fe["kind"] == "rm":
        kept = [t for at, t, _d, k in r["oldlinks"] if k and under(at, O)]
        if kept and all(any(under(p, t) for t in kept) for p in paths):
            return FINDING_WIPE
    # a page-level copy_subdir item whose lexical target leaves the output directory
    targets = escape_targets(scn, lay)
    if targets and all(any(under(p, t) for t in targets) for p in paths):
        return FINDING_ESCAPE
    # an `ordered_subpage` entry that leaves the page directory: the page and what is below it are placed outside
    regions = [t for t in subpage_escape_regions(lay.get("orders") or [], lay.get("page_dir") or "/", O) if not under(t, O)]
    if regions and all(any(under(p, t) for t in regions) for p in paths):
        return FINDING_SUBPAGE
    return None


def classify(scn, lay, r, fails) -> dict:
    """Partition the failures of one run by known class (None = not a known finding)."""
    parts: dict = {}
    for f in fails:
        # a snapshot difference lists several paths: each one is classified on its own
        singles = [dict(f, changed=[c]) for c in f["changed"]] if len(f.get("changed", [])) > 1 and "event" not in f else [f]
        for g in singles:
            parts.setdefault(classify_one(scn, lay, r, g), []).append(g)
    return parts


# ----------------------------------------------------------------------------------------------
# scenario generation
# ----------------------------------------------------------------------------------------------


# what a directory name may look like besides letters: every character except `/` and NUL is legal.  The ones below are
# the ones some layer of FORD could give a meaning to: shell-style pattern characters (`fnmatch` is used by the source
# search), blanks, quotes, format / template / regular-expression characters, a leading dash, non-ASCII, a trailing dot.
NAME_DECOS = ["", " [v2]", "[1]", "*", " [!w]", "?x", "[a-z]k", "]", "[", " {1}", "%s", "(x)+", "'q\"", " -o", "\u00e9\u4e2d", "^$", "#1", "~", "[[]", "&;"]


def gen_scenarios(rng: random.Random, n: int) -> list[dict]:
    outs = list(OUT_PLACEMENTS)
    gs = list(G_PLACEMENTS)
    pages = PAGESET_NAMES
    scns = []
    k = 0
    # every output placement, every graph placement and every page set appears at least once
    while len(scns) < n:
        if k < len(outs):
            out = outs[k]
        else:
            out = rng.choice([o for o in outs if o not in REFUSING]) if rng.random() < 0.85 else rng.choice(sorted(REFUSING))
        src = ["./src"]
        if out == "eq_src_symlink":
            src = ["./srclink"]
        elif out == "above_src2":
            src = ["./src", "../lib"]
        elif out == "above_src_symlink":
            src = ["../lnk/rsrc"]
        elif k >= len(outs) and rng.random() < 0.4:
            # several source directories; one two levels above the project file, holding file names that occur
            # twice in it and once more in ./src
            far = rng.choice([["./src", "../lib"], ["./src", "../../far/lib2"], ["../../far/lib2"], ["../../far/lib2/sub", "./src"]])
            # not for the refusing placements: without `./src` the run is not refused and the output directory is the
            # project directory (or above it) - page_dir and the project file inside the output directory, which the
            # property excludes ("provided the inputs are not themselves placed inside the output directory"; met in
            # the thorough tier in round 5: the model, which does not read inputs below O, had no pages)
            if out not in REFUSING:
                src = far
        graph = rng.random() < 0.6
        scn = {
            "id": k, "out": out, "src": src,
            "gdir": gs[(k * 5 + 1) % len(gs)] if k < 2 * len(gs) else rng.choice(gs),
            "graph": graph, "search": rng.random() < 0.35, "incl_src": rng.random() < 0.7,
            "externalize": rng.random() < 0.5, "media": rng.choice([0, 1, 1, 2]), "css": rng.random() < 0.5,
            "mathjax": rng.choice([0, 1, 2]), "favicon": rng.random() < 0.4,
            "pages": pages[(k * 5 + 3) % len(pages)] if k < 2 * len(pages) else rng.choice(pages),
            "pre_out": rng.choice(["absent", "dir", "dir", "file"]), "srcset": rng.randrange(len(SRCSETS)),
            "links": (1, 2, 0)[k % 3] if k < 12 else rng.choice([0, 1, 1, 2]),
        }
        if k >= len(outs) and k % 9 == 2:
            scn["pages"] = "near_miss"
        if scn["links"] and k < 12 and k % 2 == 0:
            scn["media"] = 1
        if out == "symlink_self":
            scn["pre_out"] = "dir"
        scns.append(scn)
        k += 1
    # the naming of the directories (drawn after everything else, so that the rest of the stream is as before): every
    # placement of the first round alternates between a plain name and a decorated one from seed to seed; later
    # scenarios are decorated with probability 1/2
    off = rng.randrange(len(NAME_DECOS))
    first = [s_ for s_ in scns if s_["id"] < len(outs)]
    for scn in scns:
        if scn["id"] < len(outs):
            scn["deco"] = NAME_DECOS[1 + (scn["id"] * 7 + off) % (len(NAME_DECOS) - 1)] if (scn["id"] + off) % 2 == 0 else ""
        else:
            scn["deco"] = rng.choice(NAME_DECOS[1:]) if rng.random() < 0.5 else ""
    # ... and every refusing placement once more under two further names (a refused run costs a few milliseconds): the
    # refusal has to hold whatever the directories are called
    for j, scn in enumerate([s_ for s_ in first if s_["out"] in REFUSING] * 2):
        deco = NAME_DECOS[1 + (j * 3 + off) % (len(NAME_DECOS) - 1)]
        scns.append(dict(scn, id=len(scns), deco=deco if deco != scn["deco"] else NAME_DECOS[1 + (j * 3 + off + 1) % (len(NAME_DECOS) - 1)]))
    return scns


def run_scenario(scn: dict, base: Path, tables: dict, fault_at: int | None = None, reuse: dict | None = None):
    """One real run.  Returns everything needed for comparison."""
    if reuse is None:
        sb = base / f"s{scn['id']}"
        sb.mkdir(parents=True)
        lay = build_sandbox(sb, scn)
        lay["sb"] = sb
        if scn.get("regen"):
            # a regeneration: there has been an ordinary run before (replay path; otherwise the sandbox of that
            # run is reused)
            run_ford(lay["proj"] / "proj.md", Recorder(sb))
    else:
        lay = reuse
        sb = lay["sb"]
    if scn.get("regen") and "pristine" not in lay:
        # the output directory as the ordinary run has just produced it
        keep = sb.parent / f"pristine-{sb.name}"
        if lay["O"].is_dir() and not keep.exists():
            shutil.copytree(lay["O"], keep, symlinks=True)
        lay["pristine"] = str(keep)
    lay = dict(lay)
    lay.setdefault("G0", lay["G"])
    stale = mutate_output(lay, scn["regen"]) if scn.get("regen") else []
    # the graph directory is what the configured path physically names when the run starts (an entry of the old
    # output directory may have been replaced by a link)
    if "graph_dir" in lay["opts"]:
        lay["G"] = Path(os.path.realpath(lay["proj"] / lay["opts"]["graph_dir"]))
    before = snapshot(sb)
    O, G = lay["O"], lay["G"]
    pin, orders, page_dir = None, [], None
    if "page_dir" in lay["opts"]:
        page_dir = os.path.realpath(lay["proj"] / lay["opts"]["page_dir"])
        # what the settings hand to the page tree for the project-wide `copy_subdir`: absolute paths (as found:
        # normalise_paths treats it like src_dir) or the names as written (repair b049850) - decided from the code
        proj_copy = [os.path.realpath(lay["proj"] / x) if proj_copy_is_absolute() else str(x)
                     for x in lay["opts"].get("copy_subdir", [])]
        # inputs do not change between the runs of one sandbox (if a run changes them the oracle objects)
        cache = reuse.setdefault("pin_cache", {}) if reuse is not None else {}
        if "pin" not in cache:
            cache["pin"] = page_input(sb, page_dir, proj_copy, [str(O), str(lay["W"] / "published")])
        pin, orders = cache["pin"]
        lay["pin_cache"] = cache
    lay["page_dir"], lay["orders"] = page_dir, orders
    rec = Recorder(sb, fault_at)
    res = run_ford(lay["proj"] / "proj.md", rec)
    after = snapshot(sb)
    # symbolic links lying in the old output directory / the graph directory: where, physical target, is that a
    # directory, did the attempt to remove it fail (injected fault)
    fe = rec.fault_event
    oldlinks = [(p, os.path.realpath(os.path.join(os.path.dirname(p), v[1])), None,
                 bool(fe and fe["kind"] == "rm" and fe["path"] == p))
                for p, v in sorted(before.items())
                if v[0] == "l" and ((under(p, O) and p != str(O)) or (G is not None and under(p, G) and p != str(G)))]
    fs = SnapFS(before)
    oldlinks = [(p, t, fs.kind(t) == "d" or (not under(t, sb) and os.path.isdir(t)), k) for p, t, _d, k in oldlinks]
    reqs = [model_request(v, scn, lay, before, res["site"], tables, oldlinks, pin) for v in VARIANTS]
    return {"scn": scn, "lay": lay, "rec": rec, "res": res, "before": before, "after": after, "reqs": reqs,
            "stale": stale, "oldlinks": oldlinks}


# model_request looks at the live tree for outkind / missing ancestors; it must therefore be
# evaluated from the *snapshot*.  These helpers answer from a snapshot.
class SnapFS:
    def __init__(self, snap):
        self.snap = snap

    def kind(self, p):
        e = self.snap.get(str(p))
        if e is None:
            return None
        if e[0] == "l":
            return self.kind(os.path.normpath(os.path.join(os.path.dirname(str(p)), e[1])))
        return e[0]


# (page-level copy_subdir guard, ordered_subpage guard of get_page_tree): the code with both repairs, with the first
# only, with neither - which one the implementation is, is decided at run time from its behaviour
VARIANTS = [("repaired", "guard"), ("repaired", "asIs"), ("asIs", "asIs")]
VARIANT_NAMES = ["copy_subdir-guard+ordered_subpage-guard", "copy_subdir-guard", "unguarded"]


def model_request(variant, scn, lay, pre, site, tables, oldlinks=(), pin=None):
    W, proj, O, G = lay["W"], lay["proj"], lay["O"], lay["G"]
    fs = SnapFS(pre)
    sb = str(lay["sb"])

    def exists(p):
        p = str(p)
        return fs.kind(p) is not None or not under(p, sb) or p == sb

    def missing(p: Path) -> int:
        k, q = 0, p.parent
        while not exists(q) and q != q.parent:
            k, q = k + 1, q.parent
        return k

    opts = lay["opts"]
    f = ["c19.run", US.join(["var", variant[0], variant[1]]), US.join(["dir", str(proj)])]
    for link, target in (("lnk", "real"), ("proj/outlink", "real/o2"), ("proj/srclink", "real/rsrc")):
        f.append(US.join(["link", str(W / link), str(W / target)]))
    f.append(US.join(["out", opts["output_dir"]]))
    if "graph_dir" in opts:
        f.append(US.join(["gdir", opts["graph_dir"]]))
    if "mathjax_config" in opts:
        f.append(US.join(["mathjax", opts["mathjax_config"]]))
    for s in scn["src"]:
        f.append(US.join(["src", s]))
    for n, k in (("graph", "graph"), ("search", "search"), ("inclsrc", "incl_src"), ("externalize", "externalize"), ("css", "css")):
        f.append(US.join(["flag", n, "1" if scn[k] else "0"]))
    ko = fs.kind(O)
    f.append(US.join(["outkind", {"f": "1", "d": "2"}.get(ko, "0")]))
    f.append(US.join(["outmissing", str(missing(O))]))
    if G is not None:
        if under(str(G), O):
            rel = os.path.relpath(G, O)
            gm = 0 if rel == "." else len(Path(rel).parts) - 1
        else:
            gm = missing(G)
        f.append(US.join(["gmissing", str(gm)]))
    for p in sorted(pre):
        if not under(p, O):
            f.append(US.join(["pre", p]))
    for at, target, isdir, kept in oldlinks:
        f.append(US.join(["old", at, target, "1" if isdir else "0", "1" if kept else "0"]))
    ford_dir = common.REPO / "ford"
    for d in tables["libDirs"]:
        f.append(US.join(["lib"] + (walk_listing(ford_dir / d) or [])))
    f.append(US.join(["searchtree"] + (walk_listing(ford_dir / "search") or [])))
    if "media_dir" in opts:
        toks = walk_listing(Path(os.path.realpath(proj / opts["media_dir"])))
        if toks is not None:
            f.append(US.join(["media"] + toks))
    f += site or []
    f += pin or []
    return f


# ----------------------------------------------------------------------------------------------
# micro streams
# ----------------------------------------------------------------------------------------------


def micro(ford, drv, rng, n, rep):
    import ford.sourceform as sf

    segs = ["a", "b", "..", ".", "", "cc", "d.e", "..."]
    reqs, exp = [], []
    for _ in range(n):
        p = "/" + "/".join(rng.choice(segs) for _ in range(rng.randint(0, 7)))
        reqs.append(["c19.norm", p])
        e = os.path.normpath(p)
        exp.append(["ok", "/" + e.lstrip("/")])
        q = "/" + os.path.normpath(p).lstrip("/")
        reqs.append(["c19.parents", q])
        exp.append(["ok"] + [str(x) for x in Path(q).parents])
        name = "".join(rng.choice("aB_/<>*~.(x)") for _ in range(rng.randint(0, 6)))
        num = rng.choice([1, 1, 2, 3, 11])

        class Ent(sf.FortranBase):
            def __init__(self, nm):
                self.name = nm

            def get_dir(self):
                return "proc"

            def __hash__(self):
                return id(self)

            def __eq__(self, o):
                return self is o

        sel = sf.NameSelector()
        ident = None
        for _k in range(num):
            ident = sel.get_name(Ent(name))
        reqs.append(["c19.ident", name, str(num)])
        exp.append(["ok", ident + ".html"])
    got = drv.batch(reqs)
    bad = 0
    for r, e, g in zip(reqs, exp, got):
        if e != g:
            bad += 1
            rep.tie_broken(f"correspondence micro/{r[0]}: model {g} vs implementation {e} on {r[1:]!r}",
                           {"stream": "micro", "request": r, "impl": e, "model": g})
    return len(reqs), bad


def micro_guard(ford, drv, rng, n, rep):
    """The containment decision of `PagetreePage.writeout` for page-level `copy_subdir` items, in isolation:
    the real method runs on a stub page (rendering and `copytree` replaced by recorders, nothing touches the
    disk) for random output directories, page locations and items - many of them *near misses* (siblings of
    the output directory whose names extend or truncate its name, the directory itself, its ancestors, the
    same name elsewhere, absolute items).
      correspondence : the (accepted?, target) pairs equal the model's `guardAccepts` / `norm (joinRaw ..)`;
      oracle         : (from the property statement) every directory handed to `copytree` is the output
                       directory or lies below it, component by component."""
    import types

    import ford.output as fo

    names = ["doc", "docs", "doc-assets", "doc.old", "do", "d", "page", "pages", "out", "o", "a", "b", "x"]

    def seg_list(k):
        return [rng.choice(names) for _ in range(k)]

    cases = []
    for _ in range(n):
        O = "/" + "/".join(seg_list(rng.randint(1, 4)))
        oname = O.rsplit("/", 1)[1]
        loc_parts = seg_list(rng.choice([0, 0, 1, 1, 2, 3]))
        loc = "/".join(loc_parts) if loc_parts else "."
        items = []
        for _ in range(rng.randint(1, 5)):
            r = rng.random()
            ups = [".."] * rng.randint(0, len(loc_parts) + 3)
            near = rng.choice([oname + "s", oname + "-assets", oname[:-1] or "q", oname, oname + "/sub", oname + ".old",
                               "page", oname.upper(), oname + "/", oname + "//x", "./" + oname])
            if r < 0.45:
                it = "/".join(ups + [near])
            elif r < 0.65:
                it = "/".join(ups + seg_list(rng.randint(0, 2))) or "."
            elif r < 0.8:
                it = rng.choice([O, O + "s", O + "/page/img", O + "/..", os.path.dirname(O) or "/", O + "-assets/x", "/" + oname])
            else:
                it = "/".join(rng.choice(names + ["..", "..", ".", ""]) for _ in range(rng.randint(1, 5))) or "."
            if it not in items:
                items.append(it)
        cases.append((O, loc, items))

    calls: list = []
    saved = (fo.BasePage.writeout, fo.copytree, fo.warn)
    real: list = []
    err = None
    try:
        fo.BasePage.writeout = lambda self: None
        fo.copytree = lambda src, dst: calls.append((str(src), str(dst)))
        fo.warn = lambda *a, **k: None
        for O, loc, items in cases:
            page = fo.PagetreePage.__new__(fo.PagetreePage)
            page.data = {"page_dir": Path("/srcpages"), "output_dir": Path(O)}
            page.out_dir = Path(O)
            page.page_dir = Path(O) / "page"
            page.obj = types.SimpleNamespace(filename=Path("/srcpages") / loc / "note.md", location=Path(loc),
                                             path=Path(loc) / "note.html", copy_subdir=list(items), files=[])
            del calls[:]
            page.writeout()
            real.append(list(calls))
    except Exception as e:  # the method no longer has the shape the stub assumes
        err = f"{type(e).__name__}: {e}"
    finally:
        fo.BasePage.writeout, fo.copytree, fo.warn = saved
    if err is not None:
        rep.tie_broken(f"micro/guard: PagetreePage.writeout could not be driven on a stub page ({err})")
        return 0, 1, 0
    got = drv.batch([["c19.guard", O, loc] + items for O, loc, items in cases])
    bad = fails = 0
    for (O, loc, items), calls_, g in zip(cases, real, got):
        impl = [os.path.normpath(dst) for _src, dst in calls_]
        impl = ["/" + d.lstrip("/") for d in impl]
        model = [x[2:] for x in g[1:] if x.startswith("1 ")] if g and g[0] == "ok" else None
        case = {"stream": "micro/guard", "output_dir": O, "page_location": loc, "copy_subdir": items,
                "copytree_targets": [d for _s, d in calls_]}
        if model != impl:
            bad += 1
            if bad <= 3:
                rep.tie_broken(f"correspondence micro/guard: output_dir {O}, page location {loc}, copy_subdir {items}: "
                               f"implementation copies to {impl}, model to {model}", dict(case, model=g))
        outside = [d for d in impl if d != O and Path(O) not in Path(d).parents]
        if outside:
            fails += 1
            if fails <= 3:
                rep.failing_input(dict(case, failures=[{"why": f"copy_subdir item copied to {d}, which is not below the output "
                                                               f"directory {O}"} for d in outside[:4]]), None)
    return len(cases), bad, fails


# ----------------------------------------------------------------------------------------------
# micro/pagetree: the real get_page_tree on generated page directories
# ----------------------------------------------------------------------------------------------

PT_DIRS = ["sub", "img", "deep", "a.b", "x", "notes"]
PT_PAGES = ["q.md", "note.md", "a.b.md", "z.md", "old.md~", ".hidden.md", "UP.md"]
PT_FILES = ["r.txt", "data.bin", "pic.png", "readme", "t.md.bak"]


def gen_pagetree_case(rng: random.Random, root: Path) -> dict:
    """A page directory <root>/p/pages on disk, with directories outside it (<root>/p/shared, <root>/ext: sections that
    do not belong to it), symbolic links (to directories and page files outside / inside, dangling) and `ordered_subpage`
    entries that are *paths*: names of the listing, nested `a/b`, `a/b.md`, with `..` staying inside, with `..` leaving
    the page directory by one or more levels (naming directories, page files and plain files there), absolute paths
    (inside and outside), entries going through a link, trailing `/`, `./x`, missing ones, duplicates, `index.md`.
    Entries never name an ancestor of the directory that lists them and name a directory outside the own sub-tree only
    if nothing below it has entries of its own (so that the recursion of get_page_tree ends)."""
    pd = root / "p" / "pages"
    outside = [root / "p" / "shared", root / "ext", root / "p" / "shared" / "inner"]
    for d in outside:
        d.mkdir(parents=True, exist_ok=True)
        (d / "index.md").write_text(f"---\ntitle: {d.name}\n---\nx\n" if rng.random() < 0.9 else "no metadata\n")
        (d / "install.md").write_text("---\ntitle: I\n---\nx\n")
        (d / "data.txt").write_text("d")
    dirs: list[tuple[Path, bool]] = []  # (directory, has entries of its own)

    def make(d: Path, depth: int):
        d.mkdir(parents=True, exist_ok=True)
        orderer = rng.random() < (0.85 if depth == 0 else 0.45)
        dirs.append((d, orderer))
        for n in rng.sample(PT_PAGES, rng.randint(0, 3)):
            (d / n).write_text(f"---\ntitle: {n}\n---\nx\n" if rng.random() < 0.9 else "---\nauthor: nobody\n---\nx\n")
        for n in rng.sample(PT_FILES, rng.randint(0, 2)):
            (d / n).write_text("f")
        if depth < 2:
            for n in rng.sample(PT_DIRS, rng.randint(0, 2 if depth else 3)):
                make(d / n, depth + 1)
        r = rng.random()
        if r < 0.35:
            t = rng.choice(outside)
            os.symlink(os.path.relpath(t, d) if rng.random() < 0.5 else str(t), d / rng.choice(["guide", "lnk", "common.d"]))
        if rng.random() < 0.2:
            os.symlink(os.path.relpath(rng.choice(outside) / "install.md", d), d / "linked.md")
        if rng.random() < 0.1:
            os.symlink("nowhere/at/all", d / rng.choice(["gone", "gone.md"]))

    make(pd, 0)
    plain_ok = {str(d) for d, _o in dirs if not any(o2 for d2, o2 in dirs if under(str(d2), d))} | {str(d) for d in outside}
    metas = {}
    for d, orderer in dirs:
        children = sorted(os.listdir(d))
        subdirs = [c for c in children if (d / c).is_dir()]
        entries: list[str] = []
        if orderer:
            cands = list(children) + ["index.md", "nosuch", "nosuch.md", "./" + (children[0] if children else "x")]
            for c in subdirs:
                sub = sorted(os.listdir(d / c))
                cands += [c + "/" + x for x in sub] + [c + "/", c + "//" + (sub[0] if sub else "index.md")]
                # `..` that stays inside / leaves this directory / leaves the page directory
                for t, _o in dirs:
                    cands.append(c + "/../" + os.path.relpath(t, d))
                for t in outside:
                    rel = os.path.relpath(t, d)
                    cands += [c + "/../" + rel, c + "/../" + rel + "/install.md", c + "/../" + rel + "/data.txt"]
            for t in outside:
                cands += [str(t), str(t / "install.md")]
            cands += [str(rng.choice(dirs)[0]), str(pd / "nosuch")]
            for _ in range(rng.randint(1, 5)):
                e = rng.choice(cands)
                t = os.path.realpath(os.path.join(d, e))
                if os.path.isdir(t):
                    if under(os.path.realpath(d), t):
                        continue  # an ancestor (or the directory itself): get_page_tree would not terminate
                    if not under(t, os.path.realpath(d)) and t not in plain_ok:
                        continue
                entries.append(e)
        copy = [rng.choice(subdirs + ["img", "nosuchdir"])] if rng.random() < 0.3 else []
        metas[str(d)] = (entries, copy)
        idx = d / "index.md"
        if d == pd or rng.random() < 0.9:
            lines = ["---", "title: " + d.name]
            if entries:
                lines.append("ordered_subpage: " + entries[0])
                lines += ["    " + e for e in entries[1:]]
            if copy:
                lines.append("copy_subdir: " + copy[0])
            idx.write_text("\n".join(lines + ["---", "text", ""]))
    return {"page_dir": str(pd), "out_dir": str(root / "p" / "out" / "doc"), "entries": {k: v[0] for k, v in metas.items() if v[0]}}


def micro_pagetree(ford, drv, rng, n, rep, hist):
    """The page tree in isolation: the real `get_page_tree` (real `PageNode`s, real Markdown reader) on generated page
    directories whose `ordered_subpage` entries are paths and which contain symbolic links.
      correspondence : (location, output stem, copy_subdir, files) of every node, in order == the model's `pageTree`
                       computed from the directory (variant decided by which of the two the code agrees with);
      oracle         : (from the property statement) every page is placed inside the output directory:
                       <output_dir>/page/<location> normalises to a path below <output_dir>."""
    import ford.pagetree as pt
    from ford._markdown import MetaMarkdown

    bad = fails = evals = 0
    reqs, cases = [], []
    reported: dict = {}
    with common.scratch_dir("ford-c19-pt-") as base:
        base = Path(os.path.realpath(base))
        md = MetaMarkdown(".", base_url="..")
        for k in range(n):
            root = base / f"c{k}"
            case = gen_pagetree_case(random.Random(rng.randrange(1 << 30)), root)
            pd, O = case["page_dir"], case["out_dir"]
            proj_copy = [str(root / "p" / "media")] if k % 5 == 0 else []
            fields, orders = page_input(root, pd, proj_copy, [])
            try:
                with common.quiet():
                    tree = pt.get_page_tree(Path(pd), [Path(x) for x in proj_copy], Path(O), md)
                nodes = [] if tree is None else [[loc_key(x.location), x.filename.stem, [str(c) for c in x.copy_subdir], [str(f) for f in x.files]]
                                                 for x in tree]
            except RecursionError:
                continue
            except Exception as e:  # noqa
                rep.tie_broken(f"micro/pagetree: get_page_tree raised {type(e).__name__}: {e}", case)
                bad += 1
                continue
            case["listing"] = sorted(os.path.relpath(os.path.join(dp, f), root) + (" -> " + os.readlink(os.path.join(dp, f)) if os.path.islink(os.path.join(dp, f)) else "")
                                     for dp, dn, fn in os.walk(root) for f in dn + fn)[:80]
            case["orders"] = orders
            reqs.append(["c19.pages"] + fields)
            cases.append((case, nodes))
        got = drv.batch(reqs)
    for (case, nodes), g in zip(cases, got):
        evals += 1
        impl = [US.join([a, b, RS.join(c), RS.join(d)]) for a, b, c, d in nodes]
        cut = g.index("--") if "--" in g else len(g)
        as_is, guarded = g[1:cut], g[cut + 1:]
        case = dict(case, stream="micro/pagetree", pages=[[a, b] for a, b, _c, _d in nodes])
        nent = sum(len(v) for v in case["entries"].values())
        hist["pagetree: entries " + ("0" if nent == 0 else "1-3" if nent <= 3 else "4+")] = hist.get("pagetree: entries " + ("0" if nent == 0 else "1-3" if nent <= 3 else "4+"), 0) + 1
        if impl == guarded and guarded != as_is:
            hist["pagetree: variant guarded"] = hist.get("pagetree: variant guarded", 0) + 1
        elif impl == as_is and guarded != as_is:
            hist["pagetree: variant unguarded"] = hist.get("pagetree: variant unguarded", 0) + 1
        elif impl != as_is:
            bad += 1
            if bad <= 3:
                dif = next((i for i, (a, b) in enumerate(zip(impl, as_is)) if a != b), min(len(impl), len(as_is)))
                rep.tie_broken(f"correspondence micro/pagetree: page tree differs at node {dif}: implementation "
                               f"{[x.split(US) for x in impl[dif:dif + 2]]} vs model {[x.split(US) for x in as_is[dif:dif + 2]]} "
                               f"(page_dir {case['page_dir']}, entries {case['entries']})", dict(case, impl=impl, model=as_is))
        O, pd = case["out_dir"], case["page_dir"]
        regions = subpage_escape_regions(case["orders"], pd, O)
        outside = [(loc, stem) for loc, stem, _c, _f in nodes if not under(os.path.normpath(os.path.join(O, "page", loc)), O)]
        if outside:
            fails += 1
            hist["pagetree: page placed outside"] = hist.get("pagetree: page placed outside", 0) + 1
            by_cls: dict = {}
            for loc, stem in outside:
                t = os.path.normpath(os.path.join(O, "page", loc))
                cls = FINDING_SUBPAGE if any(under(t, r) for r in regions) else None
                by_cls.setdefault(cls, []).append({"why": f"page {stem!r} with location {loc!r} is written to {t}, outside the output directory {O}"})
            for cls, fs_ in by_cls.items():
                reported[cls] = reported.get(cls, 0) + 1
                if reported[cls] <= 3:  # leave room in the replay file for the scenario runs
                    rep.failing_input(dict(case, failures=fs_[:5]), cls)
    return evals, bad, fails


# ----------------------------------------------------------------------------------------------
# main
# ----------------------------------------------------------------------------------------------


def slim(scn, lay, extra=None):
    d = {"scenario": scn, "project_options": lay["opts"], "output_dir": str(lay["O"]),
         "graph_dir": str(lay["G"]) if lay["G"] else None,
         "sandbox_layout": "see harness/c19.py build_sandbox (work/proj, work/lib, work/victim, work/real, work/lnk -> real)"}
    d.update(extra or {})
    return d


def run(tier: str, seed: int, replay: str | None = None) -> int:
    from translate import c19 as tr

    rep = Report(PROP, tier, seed)
    tables: dict = {}

    def translate():
        tables.update(tr.generate())

    lean = lean_prove(PROP, translate=translate, thorough=(tier == "thorough"))
    for b in lean.broken():
        rep.tie_broken("proof: " + b)
    if not tables:
        try:
            tables.update(tr.extract())
        except Exception:
            tables.update({"libDirs": ["css", "js", "webfonts"]})
    ford = common.import_ford()
    install_hook()
    rng = random.Random(seed * 7919 + 19)
    drv = Driver()
    n_micro = 600 if tier == "quick" else 6000
    n_scn = 42 if tier == "quick" else 400
    ev_micro, bad_micro = micro(ford, drv, rng, n_micro, rep)
    ev_guard, bad_guard, fail_guard = micro_guard(ford, drv, random.Random(seed * 104729 + 7), 400 if tier == "quick" else 6000, rep)
    ev_micro += ev_guard
    bad_micro += bad_guard
    pt_hist: dict = {}
    ev_pt, bad_pt, fail_pt = micro_pagetree(ford, drv, random.Random(seed * 15485863 + 3), 80 if tier == "quick" else 3000, rep, pt_hist)
    ev_micro += ev_pt
    bad_micro += bad_pt
    # directory names as user input: fnmatch, the refusal and the source search on names with pattern characters
    from . import c19_names as names
    nq = tier == "quick"
    ev_fn, bad_fn, fn_hist = names.micro_fnmatch(ford, drv, random.Random(seed * 611953 + 11), 1500 if nq else 30000, rep)
    ev_rf, bad_rf, fail_rf, rf_hist = names.micro_refusal(ford, drv, random.Random(seed * 32452843 + 13), 250 if nq else 5000, rep)
    ev_sr, bad_sr, fail_sr, sr_hist = names.micro_sources(ford, drv, random.Random(seed * 49979687 + 17), 60 if nq else 1500, rep,
                                                          bool(tables.get("excludeOutputByPath", False)))
    ev_micro += ev_fn + ev_rf + ev_sr
    bad_micro += bad_fn + bad_rf + bad_sr

    if replay:
        data = json.loads(Path(replay).read_text())
        scns = [c["scenario"] for c in data.get("cases", []) + data.get("first_disagreements", []) if "scenario" in c]
        for i, s in enumerate(scns):
            s["id"] = i
    else:
        scns = gen_scenarios(rng, n_scn)

    hist = {"out": {}, "gdir": {}, "pages": {}, "pre_out": {}, "links": {}, "deco": {}, "regen": {}, "stale_links": {}, "flags": {},
            "prim_kinds": {}, "outcome": {}}
    samples = []
    distinct = set()
    n_corr_bad = n_oracle_fail = n_runs = n_fault_runs = 0
    variant_seen = set()
    t_start = time.time()
    phase: dict = {}
    with common.scratch_dir("ford-c19-") as base:
        base = Path(os.path.realpath(base)) / "x" / "y"
        base.mkdir(parents=True)
        runs = [run_scenario(s, base, tables) for s in scns]
        phase["scenarios"] = round(time.time() - t_start, 1)
        # ---- regenerations: the output directory exists from an earlier run and the user has left things in it
        #      (entries replaced by symbolic links to outside, dot-entries); links in the graph directory.
        #      thorough: every top-level entry on its own
        regen_runs = []
        if not replay:
            rrng = random.Random(seed * 31337 + 5)
            ok = [r for r in runs if r["scn"]["out"] not in REFUSING and r["res"]["exc"] is None]
            # (1) one scenario that creates as many kinds of output entries as the options allow; then every
            #     top-level entry of its output directory, one at a time, is what was left behind as a link
            sweep = {"id": len(scns), "out": rrng.choice([o for o in OUT_PLACEMENTS if o not in REFUSING and o != "in_src"]),
                     "src": ["./src"], "gdir": "none", "graph": False, "search": True, "incl_src": True, "externalize": True,
                     "media": 1, "css": True, "mathjax": 1, "favicon": True,
                     "pages": rrng.choice(["simple", "collide", "dotdot_inside"]), "pre_out": "absent",
                     "srcset": rrng.choice([0, 2]), "links": 0}
            sweep["deco"] = rrng.choice(NAME_DECOS)
            sr = run_scenario(sweep, base, tables)
            runs.append(sr)
            if sr["res"]["exc"] is None:
                O_ = str(sr["lay"]["O"])
                top = sorted((os.path.basename(p), "d" if v[0] == "d" else "f") for p, v in sr["after"].items()
                             if os.path.dirname(p) == O_ and v[0] in ("d", "f"))
                plans = [[[name, kind]] for name, kind in top]
                if tier == "quick":
                    # one run for the regular files (a surviving link to a file cannot make the run stop early, so it
                    # cannot hide what another one does) and one for the sub-directories that the source creates in
                    # one and the same loop (generated table outDirs); every other directory on its own
                    files = [[n, k] for n, k in top if k == "f"]
                    loop = [[n, k] for n, k in top if k == "d" and n in tables.get("outDirs", [])]
                    plans = [[[n, k]] for n, k in top if k == "d" and [n, k] not in loop] + [pl for pl in (loop, files) if pl]
                for j, plan in enumerate(plans):
                    spec = {"mode": "one", "plan": plan, "n": j, "seed": j, "dots": j % 5 == 0}
                    regen_runs.append(run_scenario(dict(sweep, regen=spec), base, tables, reuse=sr["lay"]))
                # ... and all of them at once (this is also the run whose removals are made to fail one by one)
                spec = {"mode": "all", "n": len(top), "seed": rrng.randrange(1000), "dots": True}
                regen_runs.append(run_scenario(dict(sweep, regen=spec), base, tables, reuse=sr["lay"]))
            # (2) random subsets (top level and one level down, everything, dot-entries) on other scenarios;
            #     (3) links in a graph directory that is not inside the output directory
            n_other = 3 if tier == "quick" else 40
            withg = [r for r in ok if r["scn"]["graph"] and r["lay"]["G"] is not None and not under(str(r["lay"]["G"]), r["lay"]["O"])
                     and any(x.startswith("graphfile" + US) for x in (r["res"]["site"] or []))]
            picks_g = rrng.sample(withg, min(len(withg), 1 if tier == "quick" else 12))
            rest = [r for r in ok if r not in picks_g]
            picks_o = rrng.sample(rest, min(len(rest), n_other))
            for j, r in enumerate(picks_o + picks_g):
                spec = {"mode": "some" if r in picks_g else ("some", "all", "deep", "some")[j % 4], "n": 100 + j,
                        "seed": rrng.randrange(1000), "dots": j % 2 == 0, "gdir": 3 if r in picks_g else 0}
                regen_runs.append(run_scenario(dict(r["scn"], regen=spec), base, tables, reuse=r["lay"]))
                for n in spec.get("gplan", []):  # the sandbox is used again (fault runs): take the links in G away
                    if (r["lay"]["G"] / n).is_symlink():
                        (r["lay"]["G"] / n).unlink()
        runs += regen_runs
        n_runs = len(runs)
        phase["regenerations"] = round(time.time() - t_start, 1)
        # ---- fault injection on a few scenarios: same sandbox, n-th attempt raises
        fault_runs = []
        cands = [r for r in runs if not r["scn"].get("regen") and r["scn"]["out"] not in REFUSING and r["res"]["exc"] is None]
        cands.sort(key=lambda r: -len(r["rec"].events))
        budget_s = 15 if tier == "quick" else 900
        t_f = time.time()
        picks = cands[:1] + [c for c in cands if c["scn"]["pages"] in ("escape", "simple")][:2] if cands else []
        seen_ids = set()
        for r in picks:
            if r["scn"]["id"] in seen_ids:
                continue
            seen_ids.add(r["scn"]["id"])
            total = r["rec"].count
            if tier == "quick":
                idx = sorted(set(list(range(1, 7)) + [rng.randint(1, total) for _ in range(14)] + [total]))
            else:
                idx = list(range(1, total + 1))
            for n in idx:
                if time.time() - t_f > budget_s:
                    break
                fr = run_scenario(r["scn"], base, tables, fault_at=n, reuse=r["lay"])
                fr["fault_at"] = n
                fault_runs.append(fr)
        # ---- a failure of each removal of the clean-up: the regeneration in which *every* top-level entry of the old
        #      output directory is a link (the removals are then one `unlink` per link)
        allr = next((r for r in regen_runs if r["scn"]["regen"]["mode"] == "all" and r["res"]["exc"] is None), None)
        if allr is not None:
            evs = allr["rec"].events
            n_rm = next((i for i, e in enumerate(evs) if e["kind"] not in ("rmtree", "rm", "rmdir")), len(evs))
            idx = list(range(2, n_rm + 1))
            rng.shuffle(idx)  # quick tier: as many as fit into the budget, a different selection per seed
            t_f = time.time()
            for n in idx:
                if time.time() - t_f > (6 if tier == "quick" else 300):
                    break
                fr = run_scenario(allr["scn"], base, tables, fault_at=n, reuse=allr["lay"])
                fr["fault_at"] = n
                fault_runs.append(fr)
        n_fault_runs = len(fault_runs)
        phase["faults"] = round(time.time() - t_start, 1)
        # ---- model
        allruns = runs + fault_runs
        answers = drv.batch([q for r in allruns for q in r["reqs"]])
        nv = len(VARIANTS)
        for i, r in enumerate(allruns):
            r["model"] = answers[nv * i:nv * i + nv]
        phase["model"] = round(time.time() - t_start, 1)
        # ---- compare + oracle
        for r in allruns:
            scn, lay, rec, res = r["scn"], r["lay"], r["rec"], r["res"]
            is_fault = "fault_at" in r
            real = canon_real(rec.events)
            for p in real:
                k = p.split(" ", 1)[0]
                hist["prim_kinds"][k] = hist["prim_kinds"].get(k, 0) + 1
            if not is_fault:
                for key in ("out", "gdir", "pages", "pre_out", "links", "deco"):
                    hist[key][str(scn.get(key, 0))] = hist[key].get(str(scn.get(key, 0)), 0) + 1
                rg = scn["regen"]["mode"] if scn.get("regen") else "first-run"
                hist["regen"][rg] = hist["regen"].get(rg, 0) + 1
                nl = "0" if not r["oldlinks"] else ("1-3" if len(r["oldlinks"]) <= 3 else "4+")
                hist["stale_links"][nl] = hist["stale_links"].get(nl, 0) + 1
                for key in ("graph", "search", "incl_src", "externalize", "media", "css", "mathjax", "favicon"):
                    if scn[key]:
                        hist["flags"][key] = hist["flags"].get(key, 0) + 1
                oc = "refused" if res["exc"] and not rec.events else ("ok" if res["exc"] is None else "error")
                hist["outcome"][oc] = hist["outcome"].get(oc, 0) + 1
                if len(real) > 0:
                    distinct.add(common.digest([scn["out"], scn["gdir"], scn["pages"], scn.get("regen", {}).get("plan"), real and [x.replace(str(lay["sb"]), "") for x in real]]))
            case = slim(scn, lay, {"fault_at": r.get("fault_at"), "exception": res["exc"]})
            # (a) correspondence
            models = r["model"]
            m_asis = models[-1]  # no guard at all: its attempts include those of the other variants
            mO, mG = m_asis[1], m_asis[2]
            if mO != str(lay["O"]) or (mG if mG != "-" else None) != (str(lay["G"]) if lay["G"] else None):
                n_corr_bad += 1
                rep.tie_broken(f"correspondence: model output/graph dir {mO} {mG} vs realpath {lay['O']} {lay['G']}", case)
            st = res["settings"]
            if st is not None and (str(st.output_dir) != str(lay["O"]) or (str(st.graph_dir) if st.graph_dir else None) != (str(lay["G"]) if lay["G"] else None)):
                n_corr_bad += 1
                rep.tie_broken(f"normalise_paths: output_dir={st.output_dir} graph_dir={st.graph_dir} differ from the physical "
                               f"paths {lay['O']} {lay['G']}", case)
            if st is not None and lay.get("page_dir") and str(st.page_dir) != lay["page_dir"]:
                n_corr_bad += 1
                rep.tie_broken(f"normalise_paths: page_dir={st.page_dir} differs from the physical path {lay['page_dir']}", case)
            if not is_fault:
                refused_real = res["exc"] is not None and res["phase"] == "settings"
                if (m_asis[0] == "refused") != refused_real:
                    n_corr_bad += 1
                    rep.tie_broken(f"correspondence refusal: model {m_asis[0]} vs implementation exc={res['exc']}", case)
                if res["exc"] is not None and not refused_real:
                    # an unexpected crash of the real run: not a model question, report for the oracle below
                    case["unexpected_exception"] = res.get("trace", res["exc"])
                mps = [sort_utime_runs(m[4:]) for m in models]
                crashed = res["exc"] is not None and not refused_real
                # compared up to the order of independent attempts (canon_order); a run that ends with an exception
                # inside the write-out (e.g. `mkdir` of a page directory whose parent has not been created) must have
                # made a prefix of the attempts of the model's run
                if crashed:
                    hit = [i for i, mp in enumerate(mps) if real == mp[:len(real)]
                           or (not os.environ.get("C19_EXACT_ORDER") and trace_prefix(real, mp))]
                else:
                    hit = [i for i, mp in enumerate(mps) if real == mp]
                    if not hit and not os.environ.get("C19_EXACT_ORDER"):  # (debugging aid: insist on the model's order)
                        creal, seen_mp = canon_order(real), {}
                        for i, mp in enumerate(mps):
                            key = id(mp) if len(real) != len(mp) else tuple(mp)
                            if key not in seen_mp:
                                seen_mp[key] = len(real) == len(mp) and creal == canon_order(mp)
                            if seen_mp[key]:
                                hit.append(i)
                    if hit and all(real != mps[i] for i in hit):
                        hist["outcome"]["ok: attempts equal the model's up to the order of independent ones"] = \
                            hist["outcome"].get("ok: attempts equal the model's up to the order of independent ones", 0) + 1
                if hit:
                    if crashed:
                        hist["outcome"]["error: attempts are a prefix of the model's"] = \
                            hist["outcome"].get("error: attempts are a prefix of the model's", 0) + 1
                    else:
                        if mps[1] != mps[2]:
                            variant_seen.add("copy_subdir: " + ("unguarded" if 2 in hit else "guarded"))
                        if mps[0] != mps[1]:
                            variant_seen.add("ordered_subpage: " + ("guarded" if 0 in hit else "unguarded"))
                else:
                    n_corr_bad += 1
                    mp = mps[1] if len(mps) > 1 else mps[0]
                    dif = next((i for i, (a, b) in enumerate(zip(real, mp)) if a != b), min(len(real), len(mp)))
                    from collections import Counter
                    cr, cm = Counter(real), Counter(mp)
                    rep.tie_broken(f"correspondence trace: scenario {scn['id']} differs at attempt {dif}: implementation "
                                   f"{real[dif:dif + 2]} vs model {mp[dif:dif + 2]} (lengths {len(real)}/{len(mp)}; not a mere "
                                   f"re-ordering of independent attempts)",
                                   dict(case, impl=real[max(0, dif - 3):dif + 4], model=mp[max(0, dif - 3):dif + 4],
                                        only_impl=sorted((cr - cm).elements())[:6], only_model=sorted((cm - cr).elements())[:6],
                                        pages_of_the_run=res.get("pages")))
                if len(samples) < 3 and scn["pages"] != "none" and real:
                    samples.append({"scenario": scn, "n_attempts": len(real), "first": real[:4], "last": real[-3:]})
            else:
                # attempts under a fault are among those of the fault-free model run (as a set: pathlib's
                # touch() falls back to open(O_CREAT) when utime fails, repeating an earlier `wr`)
                pool = set(m_asis[4:])
                # pathlib's Path.touch() is `utime`, falling back to open(O_CREAT|O_WRONLY) on the same path
                extra = [p for p in real if p not in pool and not (p.startswith("wr ") and "utime " + p[3:] in pool)]
                if extra:
                    n_corr_bad += 1
                    rep.tie_broken(f"fault run (n={r['fault_at']}) of scenario {scn['id']} performed attempts that the fault-free "
                                   f"model run does not contain: {extra[:3]}", dict(case, extra=extra[:10]))
            # (b) property oracle on the real run
            fails = oracle(scn, lay, rec, r["before"], r["after"], res)
            if fails:
                n_oracle_fail += 1
                for cls, fs_ in classify(scn, lay, r, fails).items():
                    rep.failing_input(dict(case, failures=fs_[:6], attempts=len(rec.events)), cls)
    drv.close()
    phase["compare"] = round(time.time() - t_start, 1)
    rep.coverage.update(
        evaluations=ev_micro + n_runs + n_fault_runs,
        distinct_nontrivial=len(distinct),
        rule="one evaluation = one in-process FORD run in a fresh sandbox (or one micro comparison); non-trivial = the run "
             "performed at least one mutating attempt; distinct by digest of (placements, page set, canonical attempt list)",
        samples=samples,
        traces_validated_against_impl=n_runs + n_fault_runs + ev_micro,
        correspondence_disagreements=n_corr_bad + bad_micro,
        oracle_failures=n_oracle_fail + fail_guard + fail_pt + fail_rf + fail_sr,
        names_micro={"fnmatch": {"cases": ev_fn, "histogram": fn_hist}, "refusal": {"cases": ev_rf, "histogram": rf_hist},
                     "sources": {"cases": ev_sr, "histogram": sr_hist}},
        guard_micro_cases=ev_guard,
        pagetree_micro_cases=ev_pt, pagetree_micro_histogram=pt_hist,
        scenario_runs=n_runs, fault_injection_runs=n_fault_runs,
        variant_decided=sorted(variant_seen),
        phase_seconds_cumulative=phase,
        placement_histogram=hist,
        generated_tables=tables,
    )
    rep.assumptions += [
        "symbolic links inside copied trees (media_dir, copy_subdir directories, page files, the old output directory) are "
        "generated and modelled as dereferenced by the copy (generated constant copytreeSymlinks); symbolic links left in the "
        "output directory of an earlier run (every top-level entry in turn, subsets, second level) and in the graph directory "
        "(under the names of graph files) are generated and modelled (Cfg.old / survivors / runPhys); link loops, links to "
        "directories inside graph_dir and links created by a third party during the run are not",
        "graphviz `dot -O` is modelled by its documented effect (writes <file>.svg next to <file>); worker processes "
        "(parallel > 0) are not observed by the in-process hook: scenarios use parallel: 0",
        "creation of missing ancestor directories of output_dir/graph_dir (mkdir parents=True) and a mkdir attempt on a path "
        "that already exists are not counted as touching something outside",
        "environment variable expansion in paths (os.path.expandvars) is not modelled; generated paths contain no `$`",
    ]
    return rep.finish(lean)
