"""C17 - static pages mirror the page directory, in the documented order.

Streams
  micro  : sorted() / OrderedDict merge / pathlib name arithmetic / os.path.relpath /
           RelativeLinksTreeProcessor._fix_attrib against their Lean mirrors (exact).
  tree   : generated page directories (index / no index / untitled index, nested, hidden and
           backup names, other files, ordered_subpage valid / partial / duplicated / dangling,
           copy_subdir valid / dangling / colliding with deeper names, |page| |media| |url|
           and relative links, [[entity]] links; project `encoding` utf-8 / iso-8859-1 / cp1252 / gbk / ...
           with non-ASCII titles and text at every depth, files not decodable in the project's encoding)
           -> real `get_page_tree` + `PagetreePage.writeout`
           with the MetaMarkdown / Documentation objects captured from one real `ford.main` run;
           (a) correspondence: PageNode tree, files below <out>/page, sidebar / breadcrumb / body
               hrefs of every page equal to the Lean model's;
           (b) property oracle (from the statement, independent of the model) on the real output.
           (c) multiplicity on the real code: one PageNode per titled Markdown file, no two files written
               to the same PagetreePage.outfile.
  project: every tree runs in one of several PROJECT CONFIGURATIONS (round 4): media_dir absent / called
           `media` / called anything else / nested, with files at several depths; output_dir `doc`, nested, or
           called `page` / `media`.  One real `ford.main` run per configuration supplies the aliases (as main
           builds them) and the copied media directory (as Documentation.writeout leaves it); pages link to
           media files with `|media|` (links and images), to their own assets, to the rest of the
           documentation with `|url|`.  Oracle: every such link resolves to the intended file AND that file
           exists with the content of its source; the navigation bar of every page leads to the top page.
  round 5: links are written in many Markdown contexts (list items, indented continuation paragraphs, nested
           lists, tabs, quotes, headings); entries of the page directory may be symbolic links (outside target /
           sibling / nothing; the page directory itself); `AliasPreprocessor.run` vs the Lean text-level model.
  e2e    : a few complete `ford.main` runs (page dir handling inside main / Documentation),
           project-level copy_subdir and absolute project_url probes; oracle only.
"""
from __future__ import annotations

import contextlib
import os
import random
import re
import shutil
from collections import OrderedDict
from pathlib import Path
from urllib.parse import urljoin

from . import common, e2e
from .common import Driver, Report, lean_prove

PROP = "C17"
US, RS, GS = "\x1f", "\x1e", "\x1d"

F_MISSING = "C17-missing-ordered-subpage-aborts"
F_DOTTED = "C17-dotted-stem-truncated"
F_GRANDPARENT = "C17-copy-subdir-checked-on-grandparent"
F_PROJCOPY = "C17-project-copy-subdir-never-copied"
F_ABSURL = "C17-absolute-project-url-breaks-page-links"

# --------------------------------------------------------------------------
# abstract page directories
# --------------------------------------------------------------------------
# entry = {"k": "D", "name": str, "ch": [entry]} | {"k": "F", "name": str, "meta": meta | None, "style": int}
# meta  = {"title": str | None, "ordered": [str], "copy": [str], "links": [(alias, rest)], "entity": bool}

MD_STEMS = ["a", "b", "c", "m", "z", "A", "B", "Z", "_x", "10", "9", "2", "a-b", "ab", "index2", "readme", "Zeta", "b1"]
DOTTED_STEMS = ["v1.2", "v1.3", "a.b", "rel.1.0"]  # v1.2 / v1.3 and a / a.b are written to the same page
DIR_NAMES = ["sub", "img", "d1", "d2", "media", "Sub", "x1", "deep"]
OTHER_NAMES = ["data.txt", "img.png", "README", "plot.svg", "Makefile", "a.mdx", "notes.markdown", "b.MD"]
HIDDEN_NAMES = [".hidden", ".hid.md", "x.md~", "old.txt~", ".git"]
HIDDEN_DIRS = [".cache", "bak~"]

# project configurations: where the media directory is (any name is allowed for `media_dir`; it is always
# placed at <output>/media), what is in it, and where the output goes
MEDIA_DIR_NAMES = ["media", "figures", "images", "img", "assets/media", "media/img", "Media", "media2",
                   "doc-media", "static/figs", "page"]
OUTPUT_DIRS = ["doc", "doc", "out/html", "page", "media", "docs/api", "doc/media"]
MEDIA_FILE_POOL = ["x.png", "logo.png", "fig/y.svg", "data/table.csv", "fig/deep/z.png", "media/m.png",
                   "page/p.png", "index.html", "notes.txt", "figures/f.svg"]
URL_TARGETS = ["index.html", "lists/modules.html", "module/foo.html"]  # files every run of the test project writes
# user-defined aliases of the project file (`alias: name = text`); "three aliases are pre-defined": a project
# that also defines one of these names itself still gets the documented meaning of |page| |media| |url|
USER_ALIASES = ["docs = https://example.org/docs", "media = https://example.org/elsewhere", "page = ../wiki",
                "url = https://example.org", "Media = x"]
# project-level `copy_subdir` (round 6): "first priority is the option in the *.md file, if this option is not set in the
# file fall back to the global project settings"; the names are tried next to EVERY page that sets none itself, so most
# of them exist next to some pages only (a list whose first names are missing next to a page is the normal case)
PROJ_COPY_LISTS = [["media"], ["img"], ["nodir", "media"], ["figures", "img", "d1"], ["missing", "sub", "media"],
                   ["d2", "deep"], ["media", "img", "x1"], ["Sub", "nodir2", "d1", "img"]]
DEFAULT_CFG = {"media_dir": None, "media_files": [], "output_dir": "doc", "alias": [], "copy_subdir": []}

# where in the Markdown text of a page a link is written (round 5).  Every one of these is rendered as a link by
# Python-Markdown; `{L}` is the link (or image).  An alias is documented to work anywhere in the text, so the
# oracle expects the same target whatever the surrounding block is.
LINK_CONTEXTS = OrderedDict([
    ("para", "{L}"),
    ("indent3", "   text indented by three blanks {L}"),
    ("li", "- item {L}"),
    ("li-cont", "- item\n\n    continuation paragraph of the item {L}"),
    ("li-cont-tab", "- item\n\n\tcontinuation paragraph after a tab {L}"),
    ("li-nested", "- outer\n    - inner {L}"),
    ("li-nested-tab", "- outer\n\t- inner {L}"),
    ("li-deep", "- a\n    - b\n        - c {L}"),
    ("ol-cont", "1. first\n\n    more about the first {L}\n\n2. second"),
    ("quote", "> quoted {L}"),
    ("quote-li", "> - quoted item {L}"),
    ("heading", "### Heading {L}"),
    ("emph", "*see {L} here*"),
    ("after-text", "Some words, then (see {L}), and more words."),
    # {T} = the text part of the link (`[l0]` / `![l0]`), {U} = its destination, {I} = its number
    ("angle", "{T}(<{U}>)"),
    ("titled", "{T}({U} \"a title\")"),
    ("reference", "see {T}[ref{I}] in the text\n\n[ref{I}]: {U}"),
    ("reference-indented", "- item with {T}[ref{I}]\n\n   [ref{I}]: {U}"),
])
INDENTED_CONTEXTS = {"li-cont", "li-cont-tab", "li-nested", "li-nested-tab", "li-deep", "ol-cont"}


def media_bytes(rel):
    return b"media " + rel.encode() + b"\n\x89PNG\xff\x00\x81\n"


def cfg_ok(cfg):
    md, od = cfg["media_dir"], cfg["output_dir"]
    tops = {"src", "pages", "pages.real", "linked"}
    if od.split("/")[0] in tops:
        return False
    if md is None:
        return True
    # the output directory is removed at the start of every run: the media directory is not inside it (nor around it)
    return md.split("/")[0] not in tops | {od.split("/")[0]}


def gen_configs(rng, n):
    """the first is the plain project (no media_dir), the second calls it `media`, the third anything but
    `media`; the others are drawn freely"""
    cfgs = [dict(DEFAULT_CFG)]
    while len(cfgs) < n:
        k = len(cfgs)
        if k == 1:
            md = "media"
        elif k == 2:
            md = rng.choice([m for m in MEDIA_DIR_NAMES if m.split("/")[-1] != "media"])
        elif k == 3:
            md = rng.choice([m for m in MEDIA_DIR_NAMES if "/" in m])
        else:
            md = rng.choice(MEDIA_DIR_NAMES + [None])
        files = sorted(rng.sample(MEDIA_FILE_POOL, rng.randint(1, 5))) if md else []
        od = "doc" if k == 1 else rng.choice([o for o in OUTPUT_DIRS if k % 2 or o != "doc"])
        al = []
        if k >= 3 and (k == 4 or rng.random() < 0.4):
            al = sorted(rng.sample(USER_ALIASES, rng.randint(1, 2)))
        pc = []
        if k in (2, 4) or (k > 4 and rng.random() < 0.4):
            pc = list(rng.choice(PROJ_COPY_LISTS))
        cfg = {"media_dir": md, "media_files": files, "output_dir": od, "alias": al, "copy_subdir": pc}
        if cfg_ok(cfg) and not any(c["media_dir"] == md and c["output_dir"] == od for c in cfgs):
            cfgs.append(cfg)
    return cfgs


def cfg_options(cfg):
    o = {"output_dir": "./" + cfg["output_dir"]}
    if cfg["media_dir"] is not None:
        o["media_dir"] = "./" + cfg["media_dir"]
    if cfg.get("alias"):
        o["alias"] = list(cfg["alias"])
    if cfg.get("copy_subdir"):
        o["copy_subdir"] = list(cfg["copy_subdir"])
    return o


def write_media(root: Path, cfg):
    if cfg["media_dir"] is None:
        return
    base = root / cfg["media_dir"]
    shutil.rmtree(base, ignore_errors=True)
    base.mkdir(parents=True)
    for rel in cfg["media_files"]:
        (base / rel).parent.mkdir(parents=True, exist_ok=True)
        (base / rel).write_bytes(media_bytes(rel))


def media_entries(files):
    """the media directory as an abstract directory (for the model)"""
    top: dict = {}
    for rel in files:
        d = top
        parts = rel.split("/")
        for x in parts[:-1]:
            d = d.setdefault(x, {})
        d[parts[-1]] = None

    def conv(d):
        return [{"k": "D", "name": k, "ch": conv(v)} if isinstance(v, dict) else
                {"k": "F", "name": k, "meta": None, "style": 0} for k, v in d.items()]
    return conv(top)


def cfg_label(cfg):
    md = cfg["media_dir"]
    kind = "none" if md is None else ("named-media" if md == "media" else
                                      ("nested-basename-media" if md.endswith("/media") else "other-name"))
    return f"media_dir-{kind}"


def media_oracle(cfg, out: Path):
    """`media_dir`: "This will be placed at the root of your documentation file-tree, with the name 'media'"
    (whatever the directory itself is called).  List of failures."""
    fails = []
    for rel in cfg["media_files"]:
        f = out / "media" / rel
        if not f.is_file():
            fails.append(f"media file {rel} of media_dir ./{cfg['media_dir']} is not at <output>/media/{rel}")
        elif f.read_bytes() != media_bytes(rel):
            fails.append(f"<output>/media/{rel} differs from its source in ./{cfg['media_dir']}")
    return fails

# project encodings and, for each, text that can be written in it.  For every encoding other than
# utf-8 the encoded text is NOT valid UTF-8 (checked below), so "read with the wrong encoding" is an
# error and never silently another text; a utf-8 project may contain files written in FOREIGN ones.
UTF8 = "utf-8"
NONASCII = {
    "utf-8": ["caf\u00e9", "\u03a9mega", "\u4e2d\u6587", "na\u00efve \u2192 x"],
    "iso-8859-1": ["caf\u00e9", "\u00c0 la carte", "gr\u00fc\u00df"],
    "cp1252": ["caf\u00e9", "\u0153uvre \u20ac5", "\u201cq\u201d"],
    "gbk": ["\u4e2d\u6587", "\u6587\u6863 x"],
    "shift_jis": ["\u65e5\u672c\u8a9e", "\u30c6\u30b9\u30c8 1"],
    "koi8-r": ["\u0434\u043e\u043a", "\u0442\u0435\u0441\u0442 2"],
}
FOREIGN = ["iso-8859-1", "gbk", "koi8-r"]


def _check_pools():
    for enc, pool in NONASCII.items():
        for t in pool:
            b = ("title: T " + t + "\n").encode(enc)
            if enc != UTF8:
                try:
                    b.decode("utf-8")
                except UnicodeDecodeError:
                    continue
                raise AssertionError(f"{t!r} in {enc} is valid UTF-8")


_check_pools()


def readable(m, enc):
    """the file's bytes decode in `enc` (pure ASCII files decode in every encoding used here)"""
    w = (m or {}).get("wenc") or ""
    return w == "" or w == enc


def seen_title(e, enc):
    """the title a reader using `enc` sees in the file, or None"""
    m = e["meta"]
    if m is None or m["title"] is None or not readable(m, enc):
        return None
    return m["title"]


def is_hidden(name):
    return name[0] == "." or name[-1] == "~"


def is_md(name):
    return name.endswith(".md") and len(name) > 3 and not name.startswith(".")


def gen_dir(rng, depth, maxdepth, counter, force_index=False, budget=None):
    """children of one directory"""
    ch = []
    used = set()

    def fresh(pool):
        c = [n for n in pool if n not in used]
        if not c:
            return None
        n = rng.choice(c)
        used.add(n)
        return n

    r = rng.random()
    index_state = "titled" if (force_index or r < 0.8) else ("untitled" if r < 0.9 else "absent")
    n_md = rng.choice([0, 1, 1, 2, 2, 3, 4])
    n_dir = 0 if depth >= maxdepth else rng.choice([0, 0, 1, 1, 2, 3])
    n_other = rng.choice([0, 0, 1, 1, 2])
    n_hidden = rng.choice([0, 0, 0, 1, 2])
    for _ in range(n_md):
        dotted = rng.random() < 0.015
        st = fresh(DOTTED_STEMS if dotted else MD_STEMS)
        if st is None:
            continue
        titled = rng.random() < 0.8
        counter[0] += 1
        ch.append({"k": "F", "name": st + ".md", "meta": {"title": f"T{counter[0]}" if titled else None,
                                                          "ordered": [], "copy": [], "links": [], "entity": False},
                   "style": rng.randrange(3)})
    for _ in range(n_dir):
        nm = fresh(DIR_NAMES)
        if nm is None:
            continue
        ch.append({"k": "D", "name": nm, "ch": gen_dir(rng, depth + 1, maxdepth, counter)})
    for _ in range(n_other):
        nm = fresh(OTHER_NAMES)
        if nm:
            ch.append({"k": "F", "name": nm, "meta": None, "style": 0})
    for _ in range(n_hidden):
        if rng.random() < 0.25 and depth < maxdepth:
            nm = fresh(HIDDEN_DIRS)
            if nm:
                ch.append({"k": "D", "name": nm, "ch": gen_dir(rng, depth + 1, maxdepth, counter, force_index=True)})
        else:
            nm = fresh(HIDDEN_NAMES)
            if nm:
                counter[0] += 1
                meta = {"title": f"T{counter[0]}", "ordered": [], "copy": [], "links": [], "entity": False} \
                    if nm.endswith(".md") or nm.endswith(".md~") else None
                ch.append({"k": "F", "name": nm, "meta": meta, "style": 0})
    if index_state != "absent":
        counter[0] += 1
        ch.append({"k": "F", "name": "index.md",
                   "meta": {"title": f"T{counter[0]}" if index_state == "titled" else None,
                            "ordered": [], "copy": [], "links": [], "entity": False},
                   "style": rng.randrange(3)})
    rng.shuffle(ch)
    return ch


def encode_tree(rng, ch, enc, feat, depth=0):
    """decide what every page file contains besides ASCII: text of the project's encoding (title and/or
    body), or - in a utf-8 project - bytes of a foreign encoding (an undecodable, i.e. bad, page)"""
    p_na = 0.25 if enc == UTF8 else 0.45
    for e in ch:
        if e["k"] == "D":
            encode_tree(rng, e["ch"], enc, feat, depth + 1)
            continue
        m = e["meta"]
        if m is None:
            continue
        r = rng.random()
        if r < p_na:
            t = rng.choice(NONASCII[enc])
            where = rng.choice(["title", "body", "both"])
            if where != "body" and m["title"] is not None:
                m["title"] = m["title"] + " " + t
            else:
                where = "body"
            if where != "title":
                m["na"] = t
            m["wenc"] = enc
            feat.add("nonascii-top" if depth == 0 else "nonascii-below-top")
            if enc != UTF8:
                feat.add("nonascii-non-utf8-top" if depth == 0 else "nonascii-non-utf8-below-top")
        elif enc == UTF8 and r < p_na + 0.03:
            w = rng.choice(FOREIGN)
            m["na"] = rng.choice(NONASCII[w])
            m["wenc"] = w
            feat.add("undecodable-page" + ("-index" if e["name"] == "index.md" else ""))


def all_dir_names(ch, acc):
    for e in ch:
        if e["k"] == "D":
            acc.add(e["name"])
            all_dir_names(e["ch"], acc)
    return acc


def decorate(rng, ch, feat, deeper_names, p_dangling, enc=UTF8):
    """fill ordered_subpage / copy_subdir of the pages of one directory (recursively)"""
    names = [e["name"] for e in ch]
    sub_dirs = [e for e in ch if e["k"] == "D"]
    for e in ch:
        if e["k"] == "D":
            decorate(rng, e["ch"], feat, deeper_names, p_dangling, enc)
            continue
        m = e["meta"]
        if m is None or not e["name"].endswith(".md"):
            continue
        if e["name"] == "index.md":
            r = rng.random()
            cands = [n for n in names if n != "index.md"]
            if r < 0.55 and cands:
                k = rng.randint(1, len(cands))
                m["ordered"] = rng.sample(cands, k)
                feat.add("ordered-full" if k == len(cands) else "ordered-partial")
                if rng.random() < 0.15:
                    m["ordered"].insert(rng.randrange(len(m["ordered"]) + 1), rng.choice(m["ordered"]))
                    feat.add("ordered-duplicate")
                if rng.random() < 0.12:
                    m["ordered"].insert(rng.randrange(len(m["ordered"]) + 1), "index.md")
                    feat.add("ordered-names-index")
            elif r < 0.6:
                m["ordered"] = ["index.md"]
                feat.add("ordered-only-index")
            if rng.random() < p_dangling:
                m["ordered"].insert(rng.randrange(len(m["ordered"]) + 1), rng.choice(["gone.md", "nodir", "Gone.md"]))
                feat.add("ordered-dangling")
            if rng.random() < 0.03:
                m["ordered"].append(rng.choice([".nothere", "gone~"]))
                feat.add("ordered-dangling-hidden-name")
            # copy_subdir
            r = rng.random()
            if r < 0.45:
                pool = [d["name"] for d in sub_dirs]
                pick = []
                if pool:
                    pick += rng.sample(pool, rng.randint(1, len(pool)))
                if rng.random() < 0.25:
                    pick.append(rng.choice(["nodir", "missing"]))
                    feat.add("copy-dangling")
                if rng.random() < 0.2 and deeper_names:
                    pick.append(rng.choice(sorted(deeper_names)))
                    feat.add("copy-names-deeper-dir")
                if rng.random() < 0.1:
                    fl = [n for n in names if n != "index.md" and n not in pool]
                    if fl:
                        pick.append(rng.choice(fl))
                        feat.add("copy-names-file")
                rng.shuffle(pick)
                m["copy"] = list(OrderedDict.fromkeys(pick))
                if m["copy"]:
                    feat.add("copy-subdir")
        else:
            # leaf page: copy_subdir only of directories that do not become pages (see notes/C17.md)
            if rng.random() < 0.12:
                pool = [d["name"] for d in sub_dirs if not has_titled_index(d["ch"], enc)] + ["nodir"]
                m["copy"] = [rng.choice(pool)]
                feat.add("copy-subdir-on-leaf")
            if rng.random() < 0.05:
                m["ordered"] = [rng.choice(names)]  # ignored for leaf pages
                feat.add("ordered-on-leaf")


def find_file(ch, name):
    for e in ch:
        if e["name"] == name:
            return e
    return None


def has_titled_index(ch, enc=UTF8):
    e = find_file(ch, "index.md")
    return e is not None and e["k"] == "F" and seen_title(e, enc) is not None


# ---- the property's own reading of the page directory (NOT the model) ----

def spec_stem(name):
    return name[:-3]


def eff_copy(m, pcs):
    """the documented rule: the page's own `copy_subdir` if it sets one, the project's otherwise"""
    return list(m["copy"]) if m["copy"] else list(pcs)


def spec_tree(ch, loc=(), enc=UTF8, pcs=()):
    """Expected page tree per the property statement: a directory with a titled index.md is a
    sub-tree; every titled, visible *.md in it is one page at the same relative path; children
    ordered by ordered_subpage first (first occurrences, only names that exist), the rest
    alphabetically (code-point order of sorted()); visible non-Markdown files are assets.
    The files are files of the project, i.e. text in the project's `encoding` (`enc`) at every
    depth; a file that is not text in that encoding shows no title.
    `copy` of a page: its own `copy_subdir`, or else the project's (`pcs`).
    Returns None or dict(path, title, src, subs, files, loc, copy)."""
    if not has_titled_index(ch, enc):
        return None
    idx = find_file(ch, "index.md")["meta"]
    names = sorted(e["name"] for e in ch if e["name"] != "index.md")
    order = [n for n in OrderedDict.fromkeys(idx["ordered"]) if n in names] + \
            [n for n in names if n not in idx["ordered"]]
    node = {"path": "/".join(loc + ("index.html",)), "title": idx["title"], "loc": loc, "subs": [], "files": [],
            "copy": eff_copy(idx, pcs), "links": idx["links"], "entity": idx["entity"], "src": loc + ("index.md",),
            "na": idx.get("na")}
    for n in order:
        if is_hidden(n):
            continue
        e = find_file(ch, n)
        if e.get("link") == "dangling":
            continue  # a link to nothing is neither a file nor a directory
        if e["k"] == "D":
            sub = spec_tree(e["ch"], loc + (n,), enc, pcs)
            if sub is not None:
                node["subs"].append(sub)
        elif is_md(n):
            if seen_title(e, enc) is not None:
                node["subs"].append({"path": "/".join(loc + (spec_stem(n) + ".html",)), "title": e["meta"]["title"],
                                     "loc": loc, "subs": [], "files": [], "copy": eff_copy(e["meta"], pcs),
                                     "links": e["meta"]["links"], "entity": e["meta"]["entity"], "src": loc + (n,),
                                     "na": e["meta"].get("na")})
        else:
            node["files"].append(n)
    return node


def spec_preorder(node):
    out = [node]
    for s in node["subs"]:
        out += spec_preorder(s)
    return out


def listing_of(e, prefix):
    """everything below directory entry `e` (as it looks through links), itself included: [(path tuple, is_dir)]"""
    out = [(prefix + (e["name"],), True)]
    for c in e["ch"]:
        if c.get("link") == "dangling":
            continue
        if c["k"] == "D":
            out += listing_of(c, prefix + (e["name"],))
        else:
            out.append((prefix + (e["name"], c["name"]), False))
    return out


def dir_entry(ch, name):
    e = find_file(ch, name)
    if e is not None and e["k"] == "D" and e.get("link") != "dangling":
        return e
    return None


def spec_assets(ch, enc=UTF8, pcs=()):
    """what the statement expects below <output>/page besides the pages: every visible other file next to its page,
    every directory named by a page's `copy_subdir` (own, or else the project's) with everything in it.
    Set of (path, is_dir)."""
    out = set()

    def walk(ch, loc):
        if not has_titled_index(ch, enc):
            return
        for e in ch:
            if is_hidden(e["name"]) or e.get("link") == "dangling":
                continue
            if e["k"] == "D":
                walk(e["ch"], loc + (e["name"],))
            elif is_md(e["name"]):
                if seen_title(e, enc) is not None:
                    for item in eff_copy(e["meta"], pcs):
                        d = dir_entry(ch, item)
                        if d is not None:
                            out.update(("/".join(p), isd) for p, isd in listing_of(d, loc))
            else:
                out.add(("/".join(loc + (e["name"],)), False))

    walk(ch, ())
    return out


def avoid_late_copies(ch, pcs, enc, feat):
    """generator scope (see notes/C17.md): a page other than index.md names, through the project's list, a directory
    that becomes a sub-tree only when the index page of its directory names it too (then the directory is copied before
    its pages are written; a copy into the already written sub-tree fails with `File exists`)"""
    if not pcs:
        return
    idx = find_file(ch, "index.md")
    if idx is not None and idx["k"] == "F" and idx["meta"] is not None and idx["meta"]["copy"]:
        leafs = [e for e in ch if e["k"] == "F" and e["name"] != "index.md" and is_md(e["name"]) and e["meta"] is not None
                 and not e["meta"]["copy"]]
        if leafs:
            for x in pcs:
                d = dir_entry(ch, x)
                if d is not None and x not in idx["meta"]["copy"] and has_titled_index(d["ch"], enc):
                    idx["meta"]["copy"].append(x)
                    feat.add("index-names-the-project-directory-too")
    for e in ch:
        if e["k"] == "D":
            avoid_late_copies(e["ch"], pcs, enc, feat)


def copy_features(ch, enc, pcs, feat, stats):
    """which situations of the hand-down / of the copy loops the expected pages of this directory contain"""
    st = spec_tree(ch, enc=enc, pcs=pcs)
    if st is None:
        return

    def walk(node, ch, overridden_above):
        own = bool(find_file(ch, node["src"][-1])["meta"]["copy"])
        if pcs and not own:
            stats["pages_falling_back_to_the_project_list"] += 1
            feat.add("project-copy-falls-back")
            if overridden_above:
                stats["fallback_pages_below_an_index_with_its_own_list"] += 1
                feat.add("project-copy-falls-back-below-an-overriding-index")
        seen_failed = False
        for item in node["copy"]:
            if dir_entry(ch, item) is None:
                seen_failed = True
            else:
                stats["copy_items_that_are_directories"] += 1
                if seen_failed:
                    stats["copy_items_behind_an_item_that_cannot_be_copied"] += 1
                    feat.add("copy-item-behind-a-failing-item")
        is_index = node["src"][-1] == "index.md"
        for sub in node["subs"]:
            if sub["src"][-1] == "index.md":
                d = dir_entry(ch, sub["src"][-2])
                walk(sub, d["ch"], overridden_above or (is_index and own))
            else:
                walk(sub, ch, overridden_above or (is_index and own))

    walk(st, ch, False)


def is_image(rest):
    return rest.endswith((".png", ".svg"))


def add_links(rng, ch, feat, top_spec, loc=(), cfg=DEFAULT_CFG):
    """give the pages links to each other (|page| alias and plain relative links), to media files (links and
    images), to the rest of the documentation (|url|) and to the other files of their own directory"""
    targets = [n["path"] for n in spec_preorder(top_spec)] if top_spec else ["index.html"]
    assets = [e["name"] for e in ch if e["k"] == "F" and not is_md(e["name"]) and not is_hidden(e["name"])]
    for e in ch:
        if e["k"] == "D":
            add_links(rng, e["ch"], feat, top_spec, loc + (e["name"],), cfg)
            continue
        m = e["meta"]
        if m is None or not is_md(e["name"]):
            continue
        k = rng.choice([0, 1, 2, 3, 4])
        for _ in range(k):
            r = rng.random()
            t = rng.choice(targets)
            if r < 0.35:
                m["links"].append(("page", "/" + t))
                feat.add("link-page-alias")
            elif r < 0.5:
                if cfg["media_files"] and rng.random() < 0.85:
                    mf = rng.choice(cfg["media_files"])
                    feat.add("link-media-alias-existing-file")
                else:
                    mf = rng.choice(["x.png", "fig/y.svg", "nothere.pdf"])
                m["links"].append(("media", "/" + mf))
                feat.add("link-media-alias")
                if is_image(mf):
                    feat.add("image-media-alias")
            elif r < 0.6:
                m["links"].append(("url", "/" + rng.choice(URL_TARGETS)))
                feat.add("link-url-alias")
            elif r < 0.67 and assets:
                m["links"].append(("", rng.choice(assets)))
                feat.add("link-relative-own-asset")
            elif r < 0.95:
                rel = os.path.relpath("/" + t, "/" + "/".join(loc)) if loc else t
                m["links"].append(("", rel))
                feat.add("link-relative-up" if rel.startswith("..") else "link-relative-down")
            else:
                m["links"].append(("", rng.choice(["https://example.org/x", "#top", "mailto:a@b.c"])))
                feat.add("link-external")
        if m["links"] and rng.random() < 0.45:
            # where the links are written: list items, continuation paragraphs, nested lists, quotes, ...
            m["ctx"] = [rng.choice(list(LINK_CONTEXTS)) if rng.random() < 0.7 else "para" for _ in m["links"]]
            for (a, _), c in zip(m["links"], m["ctx"]):
                if c != "para":
                    feat.add("link-context-" + c)
                if c in INDENTED_CONTEXTS and a:
                    feat.add("alias-on-indented-line")
        if rng.random() < 0.15:
            m["entity"] = True
            feat.add("link-entity")


# ---- symbolic links inside the page directory (round 5) ----
# An entry of the page directory may be a symbolic link: `pages/changelog.md -> ../CHANGELOG.md`, a shared asset,
# a documentation folder kept elsewhere, or a second name for a sibling.  os.listdir / exists / is_dir / read_text /
# copy all follow links, so the page directory "is" what it looks like through the links: an entry carries its
# logical content (meta / children) and `link` says how it is put on disk:
#   "out" / "out-abs"  the content lives outside the page directory (<root>/linked/...), relative / absolute target
#   "sib:<name>"       a link to the sibling entry <name> of the same directory (same content)
#   "dangling"         a link to nothing: not a file, not a directory - nothing is expected of it
SIB_MD_STEMS = ["changelog", "news", "alias1", "copyof"]
SIB_OTHER = ["logo2.txt", "shared.dat"]
SIB_DIRS = ["theory", "mirror", "again"]
DANGLING_NAMES = ["broken.md", "lost.md", "ghost", "ghost.txt"]
ALLOW_DANGLING = [True]  # a dangling link aborts the run of a FORD that still raises on a missing entry


def _is_sib(e):
    return (e.get("link") or "").startswith("sib:")


def sync_sibs(ch):
    """give every `sib:` entry the content of the sibling it points to; False when a target is gone"""
    import copy

    for e in ch:
        if e["k"] == "D" and not _is_sib(e):
            if not sync_sibs(e["ch"]):
                return False
    for e in ch:
        if _is_sib(e):
            t = find_file(ch, e["link"][4:])
            if t is None or t is e or t["k"] != e["k"] or (t.get("link") or "").startswith(("sib:", "dangling")):
                return False
            if e["k"] == "D":
                e["ch"] = copy.deepcopy(t["ch"])
            else:
                e["meta"] = copy.deepcopy(t["meta"])
                e["style"] = t.get("style", 0)
    return True


def unlink_entry(c, i):
    """(shrinker) make entry i of directory c a regular file / directory again; False if that is not possible"""
    e = c[i]
    if e.get("link") == "dangling":
        return False
    e.pop("link", None)
    return True


def has_links(ch):
    return any(e.get("link") or (e["k"] == "D" and has_links(e["ch"])) for e in ch)


def links_in(ch, prefix=""):
    out = {}
    for e in ch:
        if e.get("link"):
            out[prefix + e["name"]] = e["link"]
        if e["k"] == "D":
            out.update(links_in(e["ch"], prefix + e["name"] + "/"))
    return out


def add_symlinks(rng, ch, feat, p_entry, depth=0):
    used = {e["name"] for e in ch}
    for e in list(ch):
        if e["k"] == "D":
            add_symlinks(rng, e["ch"], feat, p_entry, depth + 1)
        if rng.random() < p_entry:
            e["link"] = "out" if rng.random() < 0.75 else "out-abs"
            kind = "dir" if e["k"] == "D" else ("page" if is_md(e["name"]) else "file")
            if e["name"] == "index.md":
                kind = "index"
            feat.add("symlink-outside-" + kind)
            if depth:
                feat.add("symlink-below-top")
    if rng.random() < 2 * p_entry:
        cands = [e for e in ch if e["name"] != "index.md" and not is_hidden(e["name"])
                 and not (e["k"] == "D" and count_files(e["ch"]) > 6)]
        if cands:
            t = rng.choice(cands)
            pool = SIB_DIRS if t["k"] == "D" else ([x + ".md" for x in SIB_MD_STEMS] if is_md(t["name"]) else SIB_OTHER)
            free = [n for n in pool if n not in used]
            if free:
                n = rng.choice(free)
                used.add(n)
                ne = {"k": t["k"], "name": n, "link": "sib:" + t["name"]}
                if t["k"] == "D":
                    ne["ch"] = []
                else:
                    ne.update(meta=None, style=0)
                ch.insert(rng.randrange(len(ch) + 1), ne)
                feat.add("symlink-to-sibling-" + ("dir" if t["k"] == "D" else ("page" if is_md(n) else "file")))
    if ALLOW_DANGLING[0] and rng.random() < p_entry:
        free = [n for n in DANGLING_NAMES if n not in used]
        if free:
            ch.append({"k": "F", "name": rng.choice(free), "meta": None, "style": 0, "link": "dangling"})
            feat.add("symlink-dangling")


def count_files(ch):
    return sum(1 + (count_files(e["ch"]) if e["k"] == "D" else 0) for e in ch)


def page_dir_is_link(ch):
    return any(e.get("top_link") for e in ch)


def gen_tree(rng, k, feat, cfgs=(DEFAULT_CFG,)):
    """-> (directory, project encoding, index of the project configuration it runs in)"""
    ci = rng.randrange(len(cfgs))
    feat.add(cfg_label(cfgs[ci]))
    if any(a.split(" = ")[0] in ("page", "media", "url") for a in cfgs[ci].get("alias", [])):
        feat.add("user-alias-named-like-a-predefined-one")
    feat.add("output_dir-" + cfgs[ci]["output_dir"])
    counter = [0]
    maxdepth = rng.choice([1, 2, 2, 3, 3, 4])
    ch = gen_dir(rng, 0, maxdepth, counter, force_index=(rng.random() < 0.95))
    enc = UTF8 if rng.random() < 0.6 else rng.choice([e for e in NONASCII if e != UTF8])
    feat.add("encoding-" + enc)
    encode_tree(rng, ch, enc, feat)
    deeper = all_dir_names(ch, set())
    decorate(rng, ch, feat, deeper, p_dangling=0.02, enc=enc)
    pcs = cfgs[ci].get("copy_subdir") or []
    if pcs:
        feat.add("project-copy-subdir")
        avoid_late_copies(ch, pcs, enc, feat)
    add_links(rng, ch, feat, spec_tree(ch, enc=enc), cfg=cfgs[ci])
    if rng.random() < 0.3:
        add_symlinks(rng, ch, feat, p_entry=rng.choice([0.08, 0.2, 0.4]))
        if not sync_sibs(ch):
            raise AssertionError("generator: sibling link without target")
        if has_links(ch):
            feat.add("symlinks-in-page-dir")
    if rng.random() < 0.08:
        for e in ch:
            if e["name"] == "index.md":
                e["top_link"] = True
                feat.add("page-dir-is-a-symlink")
    return ch, enc, ci


# ---- writing it to disk ----

def md_text(e):
    m = e["meta"]
    lines = []
    if m["title"] is not None:
        lines.append(f"title: {m['title']}")
    ordl = [f"ordered_subpage: {x}" for x in m["ordered"]]
    cpl = [f"copy_subdir: {x}" for x in m["copy"]]
    style = e.get("style", 0)
    # the relative order of the items of one key is significant; the keys may be interleaved
    meta_extra = (cpl + ordl) if style == 1 else (ordl + cpl)
    if style == 2 and m["title"] is not None:
        lines = ["author: An Author"] + meta_extra + lines + ["date: 2020-01-01"]
    elif style == 2 and meta_extra:
        lines = ["author: someone"] + meta_extra
    else:
        lines = lines + meta_extra
    body = ["BODYSTART", ""]
    if m["links"]:
        body += link_blocks(m)
    body += ["BODYEND", ""]
    if m.get("na"):
        body += [f"NASTART {m['na']} NAEND", ""]
    if m["entity"]:
        body += ["ENTSTART [[foo]] ENTEND", ""]
    if lines:
        if style == 0:
            head = ["---"] + lines + ["---", ""]
        else:
            head = lines + [""]
    else:
        head = []
        body = ["Just text without any metadata.", ""] + body
    return "\n".join(head + body)


def link_text(i, a, r):
    return f"{'!' if is_image(r) else ''}[l{i}]({('|' + a + '|') if a else ''}{r})"


def link_ctx(m, i):
    c = (m.get("ctx") or [])
    return c[i] if i < len(c) and c[i] in LINK_CONTEXTS else "para"


def link_blocks(m):
    """the lines of the body that hold the links, in the order of `m["links"]`: consecutive links of a plain
    paragraph share one line (as before round 5), every other link is a block of its own, blocks are separated
    by a plain paragraph so that every list / quote ends before the next block begins"""
    out, para = [], []

    def flush():
        if para:
            out.extend([" ".join(para), ""])
            para.clear()

    for i, (a, r) in enumerate(m["links"]):
        c = link_ctx(m, i)
        if c == "para":
            para.append(link_text(i, a, r))
            continue
        flush()
        full = link_text(i, a, r)
        text, dest = full[:full.index("]") + 1], full[full.index("](") + 2:-1]
        out.extend(LINK_CONTEXTS[c].replace("{L}", full).replace("{T}", text).replace("{U}", dest)
                   .replace("{I}", str(i)).split("\n"))
        out.extend(["", "separator.", ""])
    flush()
    return out


def other_bytes(name):
    """content of a non-page file: not text in any particular encoding"""
    return b"content of " + name.encode() + b"\n\xff\xe9\x00\x81\n"


def write_tree(root: Path, ch, ext=None, state=None, force_abs=False):
    """`root` must be a real directory (no link above it); link targets outside the page directory go to `ext`
    (default <root>/../linked, emptied first)"""
    if ext is None:
        ext = root.parent / "linked"
        shutil.rmtree(ext, ignore_errors=True)
    if state is None:
        state = [0]
    root.mkdir(parents=True, exist_ok=True)
    for e in ch:
        p = root / e["name"]
        lk = e.get("link") or ""
        if lk == "dangling":
            os.symlink("nowhere/" + e["name"], p)
            continue
        if lk.startswith("sib:"):
            os.symlink(lk[4:], p)  # the content is the sibling's
            continue
        dest = p
        if lk in ("out", "out-abs"):
            state[0] += 1
            # the target has its own name (pages/changelog.md -> ../CHANGELOG.md): what counts is the link's name
            dest = ext / f"t{state[0]}" / (e["name"] if state[0] % 2 else "TARGET_" + e["name"].upper() + ".orig")
            dest.parent.mkdir(parents=True, exist_ok=True)
            os.symlink(str(dest) if (force_abs or lk == "out-abs") else os.path.relpath(dest, root), p)
        if e["k"] == "D":
            write_tree(dest, e["ch"], ext, state, force_abs or bool(lk))
        elif e["meta"] is not None:
            dest.write_bytes(md_text(e).encode(e["meta"].get("wenc") or "ascii"))
        else:
            dest.write_bytes(other_bytes(e["name"]))


def tokens(ch):
    """the directory as it looks through its links (a link to nothing is no entry at all)"""
    out = []
    for e in ch:
        if e.get("link") == "dangling":
            continue
        if e["k"] == "D":
            out.append("D" + US + e["name"])
            out += tokens(e["ch"])
            out.append("E")
        else:
            m = e["meta"] or {"title": None, "ordered": [], "copy": [], "links": []}
            out.append(US.join(["F", e["name"], "t" if m["title"] is not None else "n", m["title"] or "",
                                RS.join(m["ordered"]), RS.join(m["copy"]),
                                RS.join(a + GS + r for a, r in m["links"]), m.get("wenc") or ""]))
    return out


# --------------------------------------------------------------------------
# the real code
# --------------------------------------------------------------------------

class Impl:
    """One real `ford.main` run on a minimal project; its MetaMarkdown (aliases as built by main),
    project and Documentation.data are captured and reused for the direct runs."""

    def __init__(self, ford, root: Path, cfg=None):
        import ford.output
        import ford.pagetree

        self.ford = ford
        self.root = root
        self.cfg = cfg = dict(cfg or DEFAULT_CFG)
        self.pages = root / "pages"
        cap = {}
        orig_gpt = ford.get_page_tree
        orig_doc = ford.output.Documentation

        def wrap(*a, **k):
            cap["gpt"] = (a, k)
            return orig_gpt(*a, **k)

        class Doc(orig_doc):
            def __init__(s, *a, **k):
                super().__init__(*a, **k)
                cap["docs"] = s

        pf = e2e.write_project(root, {"a.f90": "module foo\nend module foo\n"},
                               pages={"index.md": "title: Top\n\nhello\n"}, options=cfg_options(cfg))
        write_media(root, cfg)
        ford.get_page_tree = wrap
        ford.output.Documentation = Doc
        try:
            res = e2e.run_inprocess(pf)
        finally:
            ford.get_page_tree = orig_gpt
            ford.output.Documentation = orig_doc
        if res["rc"] != 0 or "gpt" not in cap or "docs" not in cap:
            raise common.Infra(f"capture run of ford.main failed: rc={res['rc']} {res['exc']} {res['log'][-300:]}")
        (a, k) = cap["gpt"]
        self.page_dir, self.proj_copy, self.out, self.md = a[0], a[1], Path(a[2]), a[3]
        self.encoding = k.get("encoding", "utf-8")
        self.docs = cap["docs"]
        # the names of the entity pages ([[foo]] -> module/foo.html) are handed out by a process-wide
        # NameSelector that every ford.main run replaces: each captured project keeps the one of its own run
        import ford.sourceform as sf

        self.namelist = sf.namelist
        self.get_page_tree = ford.pagetree.get_page_tree
        self.PagetreePage = ford.output.PagetreePage
        self.out = Path(os.path.realpath(self.out))

    @contextlib.contextmanager
    def recording_sources(self):
        """every PageNode made during the walk remembers the Markdown file it was made from"""
        import ford.pagetree as pt

        orig = pt.PageNode

        class Recording(orig):
            def __init__(s, md, path, *a, **k):
                s._c17_src = Path(path)
                super().__init__(md, path, *a, **k)

        pt.PageNode = Recording
        try:
            yield
        finally:
            pt.PageNode = orig

    def source_of(self, n):
        src = getattr(n, "_c17_src", None)
        if src is None:  # (a node that was not made through ford.pagetree.PageNode)
            return os.path.normpath(os.path.join(str(n.location), str(n.filename) + ".md"))
        # (lexically: the page belongs to the NAME in the page directory, also when that name is a link)
        return os.path.relpath(os.path.abspath(src), os.path.abspath(self.page_dir))

    def run(self, ch, enc=UTF8):
        """get_page_tree (with the project's encoding `enc`, the way ford.main calls it) +
        PagetreePage.writeout for every node; returns the observation"""
        real = self.root / "pages.real"
        for p in (self.pages, real):
            if p.is_symlink():
                p.unlink()
            else:
                shutil.rmtree(p, ignore_errors=True)
        shutil.rmtree(self.out / "page", ignore_errors=True)
        (self.out / "page").mkdir(parents=True)
        if page_dir_is_link(ch):
            # the page directory itself is reached through a link
            write_tree(real, ch)
            os.symlink("pages.real", self.pages)
        else:
            write_tree(self.pages, ch)
        obs = {"status": "ok", "nodes": [], "pages": {}, "out": [], "log": ""}
        import ford.sourceform as sf

        sf.namelist = self.namelist
        with common.quiet() as buf:
            try:
                with self.recording_sources():
                    tree = self.get_page_tree(self.page_dir, self.proj_copy, self.out, self.md, encoding=enc)
            except ValueError as e:
                msg = str(e)
                m = re.match(r"Requested page file '(.*)' does not exist", msg)
                if m:
                    obs["status"] = "abort"
                    obs["abort"] = os.path.relpath(m.group(1), self.page_dir)
                else:
                    obs["status"] = "error:" + msg[:80]
                return obs
            except Exception as e:  # noqa
                obs["status"] = f"error:{type(e).__name__}:{str(e)[:80]}"
                return obs
            if tree is None:
                obs["status"] = "none"
                return obs
            self.docs.data["pages"] = tree
            nodes = list(tree)
            outfiles = []
            try:
                for n in nodes:
                    pg = self.PagetreePage(self.docs.data, self.docs.project, n)
                    pg.writeout()
                    outfiles.append(os.path.relpath(os.path.realpath(pg.outfile), self.out / "page"))
            except Exception as e:  # noqa
                obs["status"] = f"write-error:{type(e).__name__}:{str(e)[:80]}"
                return obs
        obs["log"] = buf.getvalue()
        # which Markdown file became which output file (for the multiplicity part of the oracle)
        obs["written"] = [[self.source_of(n), o] for n, o in zip(nodes, outfiles)]
        for n in nodes:
            obs["nodes"].append([str(n.path), n.title, [str(h.path) for h in n.hierarchy],
                                 [str(f) for f in n.files], [str(c) for c in n.copy_subdir]])
            f = self.out / "page" / n.path
            obs["pages"][str(n.path)] = read_page(f) if f.exists() else None
        obs["out"] = list_out(self.out / "page")
        return obs


NAV_RE = re.compile(r'<a class="nav-link[^"]*" href="([^"]*)">')
HREF_RE = re.compile(r"""(?:href|src)=["']([^"']*)["']""")


def read_page(f: Path):
    t = f.read_bytes().decode("utf-8", errors="replace")  # FORD writes its pages in UTF-8
    nav = []
    i = t.find('id="sidebar-toc"')
    j = t.find("id='text'")
    if i >= 0 and j > i:
        nav = NAV_RE.findall(t[i:j])
    crumbs = []
    i = t.find('<ol class="breadcrumb')
    if i >= 0:
        crumbs = HREF_RE.findall(t[i:t.find("</ol>", i)])
    body = []
    i, j2 = t.find("BODYSTART"), t.find("BODYEND")
    if i >= 0 and j2 > i:
        body = HREF_RE.findall(t[i:j2])
    ent = None
    i, j3 = t.find("ENTSTART"), t.find("ENTEND")
    if i >= 0 and j3 > i:
        ent = HREF_RE.findall(t[i:j3])
    na = None
    i, j4 = t.find("NASTART"), t.find("NAEND")
    if i >= 0 and j4 > i:
        na = t[i + len("NASTART"):j4].strip()
    return {"nav": nav, "crumbs": crumbs, "body": body, "entity": ent, "has_sidebar": 'id="sidebar-toc"' in t,
            "na": na, "top": read_navbar(t)}


BRAND_RE = re.compile(r'<a class="navbar-brand" href="([^"]*)"')


def read_navbar(t: str):
    """hrefs of the fixed navigation bar at the top of every page: the project link, then the entries
    (static pages first)"""
    i = t.find('id="navbar"')
    j = t.find("</ul>", i) if i >= 0 else -1
    items = HREF_RE.findall(t[i:j]) if j > i >= 0 else []
    return BRAND_RE.findall(t[:i if i >= 0 else len(t)])[:1] + items


def list_out(root: Path):
    out = []
    for d, dirs, files in os.walk(root):
        rel = os.path.relpath(d, root)
        for x in dirs:
            out.append(os.path.normpath(os.path.join(rel, x)) + "/")
        for x in files:
            out.append(os.path.normpath(os.path.join(rel, x)))
    return sorted(out)


def parse_model(resp):
    st = resp[0]
    if st == "abort":
        return {"status": "abort", "abort": resp[1]}
    if st != "ok":
        return {"status": st}
    k = resp.index("--")
    nodes, pages = [], {}

    def lst(s):
        return s.split(RS) if s else []

    for f in resp[1:k]:
        path, title, hier, files, copy, nav, crumbs, body, topnav = f.split(US)
        nodes.append([path, title, lst(hier), lst(files), lst(copy)])
        pages[path] = {"nav": lst(nav), "crumbs": lst(crumbs), "body": lst(body), "topnav": topnav}
    return {"status": "ok", "nodes": nodes, "pages": pages, "out": sorted(resp[k + 1:])}


def compare(im, mo):
    """first difference between implementation and model observation, or None"""
    if im["status"] != mo["status"]:
        return f"status: impl {im['status']} model {mo['status']}"
    if im["status"] == "abort":
        return None if im["abort"] == mo["abort"] else f"abort path: impl {im['abort']} model {mo['abort']}"
    if im["status"] != "ok":
        return None
    if im["nodes"] != mo["nodes"]:
        for a, b in zip(im["nodes"], mo["nodes"]):
            if a != b:
                return f"node: impl {a} model {b}"
        return f"node count: impl {len(im['nodes'])} model {len(mo['nodes'])}"
    if im["out"] != mo["out"]:
        return f"output files: impl-only {sorted(set(im['out']) - set(mo['out']))[:5]} model-only {sorted(set(mo['out']) - set(im['out']))[:5]}"
    for p, pg in im["pages"].items():
        if pg is None:
            return f"page {p} not written"
        mp = mo["pages"][p]
        for key in ("nav", "crumbs", "body"):
            if pg[key] != mp[key]:
                return f"page {p} {key}: impl {pg[key]} model {mp[key]}"
        # the entry of the navigation bar that follows the project link is the link to the top page
        if pg["top"][1:2] != [mp["topnav"]]:
            return f"page {p} navigation bar: impl {pg['top'][:3]} model top-page link {mp['topnav']}"
    return None


# --------------------------------------------------------------------------
# property oracle (on the real output only)
# --------------------------------------------------------------------------

def resolve_href(page_rel: str, href: str) -> str:
    """where a browser goes from <out>/page/<page_rel> following href; result relative to <out>"""
    return resolve_from("page/" + page_rel, href)


def resolve_from(file_rel: str, href: str) -> str:
    """where a browser goes from <out>/<file_rel> following href; result relative to <out>"""
    u = urljoin("http://h/" + file_rel, href)
    return u[len("http://h/"):] if u.startswith("http://h/") else u


def navbar_fails(file_rel: str, top: list, out: Path, want_pages: bool = True):
    """the fixed navigation bar of <out>/<file_rel>: exactly one entry leads to the top static page (a file that
    exists), and the project link leads to the front page.  (Where the other entries - source files, lists -
    lead is not part of this property; in the per-tree runs their names also depend on process-wide state.)"""
    fails = []
    if not top:
        return [f"{file_rel} has no navigation bar"]
    got = [resolve_from(file_rel, h) for h in top]
    if want_pages and got[1:].count("page/index.html") != 1:
        fails.append(f"navigation bar of {file_rel}: entries {top[1:]} resolve to {got[1:]}, expected exactly one "
                     f"to be the top static page page/index.html")
    if got[0] != "index.html":
        fails.append(f"navigation bar of {file_rel}: project link {top[0]} resolves to {got[0]}, expected index.html")
    for h, g in zip(top, got):
        if (g == "index.html" or g.startswith("page/")) and not (out / g).is_file():
            fails.append(f"navigation bar of {file_rel}: {h} resolves to {g}, which is not a file of the documentation")
    return fails


def link_target(node, alias, rest):
    """intended target of a body link, relative to <out> (None = leave alone)"""
    if alias == "page":
        return "page" + rest
    if alias == "media":
        return "media" + rest
    if alias == "url":
        return rest.lstrip("/")
    if "://" in rest or rest.startswith("#") or rest.startswith("mailto:"):
        return None
    # plain relative link: written as if between the Markdown files -> same relation in the output
    return os.path.normpath(os.path.join("page", *node["loc"], rest))


def defect_classes(ch, enc=UTF8, pcs=()):
    """Decidable description of the known-defect classes present in an input.
    Returns dict class -> set of affected things."""
    cls = {F_MISSING: [], F_DOTTED: [], F_GRANDPARENT: []}

    def walk(ch, loc, parent_copy, own_reachable):
        if not has_titled_index(ch, enc) or not own_reachable:
            return
        idx = find_file(ch, "index.md")["meta"]
        names = [e["name"] for e in ch]
        for o in idx["ordered"]:
            if o != "index.md" and not is_hidden(o) and o not in names:
                cls[F_MISSING].append("/".join(loc + (o,)))
        for e in ch:
            if is_hidden(e["name"]):
                continue
            if e["k"] == "F" and is_md(e["name"]) and e["name"] != "index.md" and seen_title(e, enc) is not None:
                st = e["name"][:-3]
                if "." in st[1:-1] or (len(st) > 1 and "." in st[1:] and not st.endswith(".")):
                    cls[F_DOTTED].append("/".join(loc + (e["name"],)))
            if e["k"] == "D":
                if parent_copy is not None and e["name"] in parent_copy:
                    if spec_tree(e["ch"], loc + (e["name"],), enc) is not None:
                        cls[F_GRANDPARENT].append("/".join(loc + (e["name"],)))
                # (the list in effect for the index page: its own, or else the project's)
                walk(e["ch"], loc + (e["name"],), eff_copy(idx, pcs), True)

    walk(ch, (), None, True)
    return {k: v for k, v in cls.items() if v}


def oracle(ch, im, src_root: Path, out: Path, enc=UTF8, cfg=DEFAULT_CFG):
    """List of (why, finding id or None).  Empty = the property holds on this input.
    `cfg` = the project configuration the pages were built in (media directory, output directory)."""
    fails = []
    pcs = cfg.get("copy_subdir") or []
    exp = spec_tree(ch, enc=enc, pcs=pcs)
    classes = defect_classes(ch, enc, pcs)
    if im["status"] == "abort":
        fails.append((f"run aborted: requested page file {im['abort']} does not exist; no page is produced",
                      F_MISSING if im["abort"] in classes.get(F_MISSING, []) else None))
        return fails
    if im["status"].startswith("error") or im["status"].startswith("write-error"):
        fails.append((f"page processing raised: {im['status']}", None))
        return fails
    if exp is None:
        if im["status"] != "none":
            fails.append(("top directory without titled index.md produced pages", None))
        return fails
    if im["status"] == "none":
        fails.append(("titled top index.md but no page tree", None))
        return fails
    exp_nodes = spec_preorder(exp)
    exp_paths = [n["path"] for n in exp_nodes]
    got_paths = [n[0] for n in im["nodes"]]

    def explain_missing(p):
        # a dotted stem is written elsewhere; a page below a directory named in the grandparent's copy_subdir is skipped
        for src in classes.get(F_DOTTED, []):
            if src[:-3] + ".html" == p:
                return F_DOTTED
        for d in classes.get(F_GRANDPARENT, []):
            if p.startswith(d + "/"):
                return F_GRANDPARENT
        return None

    def explain_extra(p):
        for src in classes.get(F_DOTTED, []):
            stem = src[:-3]
            if stem[:stem.rfind(".")] + ".html" == p:
                return F_DOTTED
        return None

    # mirror: exactly one page per titled Markdown file, at the same relative path
    seen = set()
    for p in got_paths:
        if p in seen:
            fails.append((f"two pages at {p}", explain_extra(p)))
        seen.add(p)
    for p in exp_paths:
        if p not in seen:
            fails.append((f"titled page {p} missing", explain_missing(p)))
        elif not (out / "page" / p).is_file():
            fails.append((f"page file {p} not written", None))
    for p in got_paths:
        if p not in exp_paths:
            fails.append((f"unexpected page {p}", explain_extra(p)))
    # multiplicity, on the files: every titled Markdown file is the source of exactly one page, and no two
    # Markdown files are written to the same output file (one would overwrite the other)
    by_src, by_out = {}, {}
    for src, outp in im.get("written", []):
        by_src.setdefault(src, []).append(outp)
        by_out.setdefault(outp, []).append(src)
    for n in exp_nodes:
        src = "/".join(n["src"])
        if len(by_src.get(src, [])) > 1:
            fails.append((f"titled file {src} is turned into {len(by_src[src])} pages: {by_src[src]}", None))
    for outp, srcs in by_out.items():
        if len(set(srcs)) > 1:
            fails.append((f"{len(set(srcs))} Markdown files {sorted(set(srcs))} are written to the same page "
                          f"{outp} (one overwrites the other)", explain_extra(outp)))
    if fails:
        return fails
    # order: depth-first sequence of pages = documented order
    if got_paths != exp_paths:
        fails.append((f"page order {got_paths} differs from the documented order {exp_paths}", None))
        return fails
    # titles / hierarchy
    for n, g in zip(exp_nodes, im["nodes"]):
        if g[1] != n["title"]:
            fails.append((f"page {n['path']} has title {g[1]!r}, expected {n['title']!r}", None))
    # navigation, breadcrumbs, links from every nesting depth
    has_subs = bool(exp["subs"])
    for n in exp_nodes:
        pg = im["pages"].get(n["path"])
        if pg is None:
            fails.append((f"page {n['path']} not written", None))
            continue
        nav = [resolve_href(n["path"], h) for h in pg["nav"]]
        want = ["page/" + p for p in exp_paths] if has_subs else []
        if nav != want:
            fails.append((f"navigation on {n['path']} resolves to {nav}, expected {want}", None))
        crumbs = [resolve_href(n["path"], h) for h in pg["crumbs"]]
        anc = []
        loc = n["loc"] if n["path"].endswith("/index.html") or n["path"] == "index.html" else n["loc"] + ("",)
        for k in range(len(loc)):
            anc.append("/".join(("page",) + tuple(n["loc"][:k]) + ("index.html",)))
        if n["src"][-1] == "index.md":
            anc = ["/".join(("page",) + tuple(n["loc"][:k]) + ("index.html",)) for k in range(len(n["loc"]))]
        else:
            anc = ["/".join(("page",) + tuple(n["loc"][:k]) + ("index.html",)) for k in range(len(n["loc"]) + 1)]
        if crumbs != anc:
            fails.append((f"breadcrumb on {n['path']} resolves to {crumbs}, expected {anc}", None))
        if len(pg["body"]) != len(n["links"]):
            fails.append((f"page {n['path']}: {len(pg['body'])} links rendered for {len(n['links'])} written", None))
        else:
            for (a, r), h in zip(n["links"], pg["body"]):
                t = link_target(n, a, r)
                if t is None:
                    if h != r:
                        fails.append((f"external link {r} on {n['path']} rewritten to {h}", None))
                elif resolve_href(n["path"], h) != t:
                    fails.append((f"link {'|' + a + '|' if a else ''}{r} on {n['path']} resolves to "
                                  f"{resolve_href(n['path'], h)}, expected {t}", None))
                else:
                    # ... and the aliased place is where that part of the documentation really is: the file
                    # of the media directory, the page of the rest of the documentation
                    rel = r.lstrip("/")
                    if a == "media" and rel in cfg["media_files"]:
                        f = out / "media" / rel
                        if not f.is_file() or f.read_bytes() != media_bytes(rel):
                            fails.append((f"link |media|{r} on {n['path']} resolves to {t}, but the file {rel} of the "
                                          f"media directory ./{cfg['media_dir']} is not there", None))
                    elif a == "url" and rel in URL_TARGETS and not (out / rel).is_file():
                        fails.append((f"link |url|{r} on {n['path']} resolves to {t}, which does not exist", None))
        for w in navbar_fails("page/" + n["path"], pg.get("top") or [], out):
            fails.append((w, None))
        if n.get("na") is not None and pg.get("na") != n["na"]:
            fails.append((f"text {n['na']!r} of {'/'.join(n['src'])} (project encoding {enc}) appears as "
                          f"{pg.get('na')!r} on {n['path']}", None))
        if n["entity"]:
            got = [resolve_href(n["path"], h) for h in (pg["entity"] or [])]
            if got != ["module/foo.html"]:
                fails.append((f"[[foo]] on {n['path']} resolves to {got}, expected module/foo.html", None))
    # assets next to their pages
    for n in exp_nodes:
        for f in n["files"]:
            s, d = src_root.joinpath(*n["loc"], f), out.joinpath("page", *n["loc"], f)
            if not d.is_file() or d.read_bytes() != s.read_bytes():
                fails.append((f"file {'/'.join(n['loc'] + (f,))} not copied next to its page", None))
        for item in n["copy"]:
            s = src_root.joinpath(*n["loc"], item)
            if "/" in item or not s.is_dir():
                continue
            for dp, dn, fn in os.walk(s, followlinks=True):
                for x in fn:
                    sp = Path(dp) / x
                    if not sp.exists():
                        continue  # a link to nothing cannot be copied
                    dpth = out.joinpath("page", *n["loc"]) / sp.relative_to(src_root.joinpath(*n["loc"]))
                    if not dpth.is_file() or dpth.read_bytes() != sp.read_bytes():
                        fails.append((f"copy_subdir {item} of {n['path']}: {sp.relative_to(src_root)} not copied", None))
    # ... and the mirror read the other way round (round 6): nothing is below <output>/page but the pages, the
    # directories that hold them, the other files and the directories named by the copy_subdir IN EFFECT for a page
    # (the page's own list or else the project's - not both, not an ancestor's)
    allowed = {p for p, _ in spec_assets(ch, enc, pcs)} | set(exp_paths)
    for p in exp_paths:
        parts = p.split("/")[:-1]
        allowed.update("/".join(parts[:k]) for k in range(1, len(parts) + 1))
    extra = [x for x in im["out"] if x.rstrip("/") not in allowed]
    for x in extra[:4]:
        fails.append((f"{x} below <output>/page is neither a page, nor a file next to a page, nor part of a directory "
                      f"named by the copy_subdir in effect for a page", None))
    return fails


# --------------------------------------------------------------------------
# micro streams
# --------------------------------------------------------------------------

def micro(ford, drv, rng, n, rep):
    import ford._markdown as M

    alpha = ["a", "b", "B", "Z", "_", "1", "9", "-", ".", "~", "é", "Ω", "z"]
    reqs, exp = [], []

    class StubMd:
        pass

    for _ in range(n):
        names = list({"".join(rng.choice(alpha) for _ in range(rng.randint(1, 4))) for _ in range(rng.randint(0, 6))})
        rng.shuffle(names)
        reqs.append(["c17.sort", *names])
        exp.append(["ok", *sorted(names)])
        names2 = names + ["index.md"]
        rng.shuffle(names2)
        ordered = [rng.choice(names2 + ["gone"]) for _ in range(rng.randint(0, 4))]
        fl = sorted(names2)
        fl.remove("index.md")
        o2 = [x for x in ordered if x != "index.md"]
        merged = list(OrderedDict.fromkeys(o2 + fl)) if o2 else fl
        reqs.append(["c17.merged", RS.join(ordered), RS.join(names2)])
        exp.append(["ok", *merged])
        nm = "".join(rng.choice(["a", "b", ".", "md", ".md", "~", "index", "x"]) for _ in range(rng.randint(1, 4)))
        if nm not in (".", "..") and "/" not in nm:
            p = Path("/t") / nm
            try:
                html = str(Path(p.stem).with_suffix(".html"))
            except ValueError:
                html = None  # pathlib refuses (empty name); such names are hidden and never reach PageNode
            if html is not None:
                reqs.append(["c17.name", nm])
                exp.append(["ok", "1" if p.suffix == ".md" else "0", html,
                            "1" if (nm[0] == "." or nm[-1] == "~") else "0"])
        segs = ["a", "b", "c", "page", "doc"]
        t = "/" + "/".join(rng.choice(segs) for _ in range(rng.randint(0, 5)))
        s = "/" + "/".join(rng.choice(segs) for _ in range(rng.randint(0, 5)))
        reqs.append(["c17.relpath", t, s])
        exp.append(["ok", os.path.relpath(t, s)])
        # _fix_attrib
        base = "/" + "/".join(rng.choice(["o", "doc"]) for _ in range(rng.randint(1, 2)))
        cur = base + "/page" + "".join("/" + rng.choice(segs) for _ in range(rng.randint(0, 3)))
        cwd = rng.choice(["/w", "/o", base, "/w/x"])
        href = rng.choice([base, base + "/page", "", "/other", "x", "../x", cwd]) + \
            "".join("/" + rng.choice(segs + ["..", "."]) for _ in range(rng.randint(0, 4)))
        if href == "":
            href = "x.html"
        md = StubMd()
        md.base_url = Path(base)
        md.current_path = Path(cur)
        try:
            old = os.getcwd()
            proc = M.RelativeLinksTreeProcessor.__new__(M.RelativeLinksTreeProcessor)
            proc.md = md
            proc.base_url = Path(base)
            from xml.etree.ElementTree import Element

            el = Element("a")
            el.attrib["href"] = href
            real_cwd = os.getcwd
            os.getcwd = lambda: cwd  # Path.resolve() of a relative path consults os.getcwd()
            try:
                proc._fix_attrib(el, "href")
            finally:
                os.getcwd = real_cwd
            reqs.append(["c17.fix", base, cur, cwd, href])
            exp.append(["ok", el.attrib["href"]])
        except Exception as e:  # noqa
            rep.tie_broken(f"micro/fix: implementation raised {type(e).__name__}: {e} on {href!r}")
    got = drv.batch(reqs)
    bad = 0
    for r, e, g in zip(reqs, exp, got):
        if e != g:
            bad += 1
            rep.tie_broken(f"correspondence micro/{r[0]}: model {g} vs implementation {e} on {r[1:]!r}",
                           {"stream": "micro", "request": r, "impl": e, "model": g})
    return len(reqs), bad


ALIAS_ALPHA = ["|", "|", "\\", " ", " ", "\t", "a", "b", "page", "url", "media", "x y", "/", "-", "(", ")", "é", "||", "\\|", "| "]
LINE_PREFIXES = ["", "", " ", "   ", "    ", "\t", "        ", "    - ", "\t- ", "> ", "1.  ", "    > ", "\t\t", "  \t"]


def micro_alias(ford, drv, rng, n, rep):
    """`AliasPreprocessor.run` (the real method, on the real class) against the Lean `aliasRun`, exact, on
    random line lists: pipes, backslashes, blanks, tabs, alias names (known / unknown / with blanks), every kind
    of line start (indented by blanks or tabs, list markers, quotes)"""
    import ford._markdown as M

    reqs, exp = [], []
    for _ in range(n):
        al = {"page": "/o/page", "url": "/o", "media": "/o/media"}
        if rng.random() < 0.3:
            al[rng.choice(["a", "x y", "b|", "é", "a b c"])] = rng.choice(["V", "", "|page|", "\\|u|", "w w"])
        lines = []
        for _ in range(rng.randint(1, 4)):
            if rng.random() < 0.5:
                body = "".join(rng.choice(ALIAS_ALPHA) for _ in range(rng.randint(0, 9)))
            else:
                body = "".join(rng.choice(["[l](|page|/a.html)", "|media|/x.png", "\\|url|", "see |url|/i.html", "|nope|",
                                           " and ", "|page||", "||", "| page |"]) for _ in range(rng.randint(1, 3)))
            lines.append(rng.choice(LINE_PREFIXES) + body)
        proc = M.AliasPreprocessor.__new__(M.AliasPreprocessor)
        proc.aliases = dict(al)
        try:
            got = proc.run(list(lines))
        except Exception as e:  # noqa
            rep.tie_broken(f"micro/alias: AliasPreprocessor.run raised {type(e).__name__}: {e} on {lines!r}")
            continue
        reqs.append(["c17.alias", RS.join(k + GS + v for k, v in al.items()), *lines])
        exp.append(["ok", *got])
    bad = 0
    for r, e, g in zip(reqs, exp, drv.batch(reqs)):
        if e != g:
            bad += 1
            rep.tie_broken(f"correspondence micro/alias: AliasPreprocessor.run gives {e[1:]!r}, model {g[1:]!r} on lines {r[2:]!r}",
                           {"stream": "micro-alias", "request": r, "impl": e, "model": g})
    return len(reqs), bad


# --------------------------------------------------------------------------
# variants: which code is this?
# --------------------------------------------------------------------------

def F(name, title=None, ordered=(), copy=(), md=True):
    return {"k": "F", "name": name, "style": 0,
            "meta": {"title": title, "ordered": list(ordered), "copy": list(copy), "links": [], "entity": False} if md else None}


def D(name, *ch):
    return {"k": "D", "name": name, "ch": list(ch)}


WITNESS_MISSING = [F("index.md", "Top", ordered=["gone.md"]), F("a.md", "A")]
WITNESS_GRANDPARENT = [F("index.md", "Top", copy=["img"]),
                       D("sub", F("index.md", "Sub"), D("img", F("index.md", "Img"), F("p.md", "P")))]
WITNESS_DOTTED = [F("index.md", "Top"), F("v1.2.md", "V12")]
# multiplicity: two titled files, one page (Lean: dotted_stem_collision_witness)
WITNESS_COLLIDE = [F("index.md", "Top"), F("v1.2.md", "A"), F("v1.3.md", "B")]
WITNESS_COLLIDE2 = [F("index.md", "Top"), F("v1.md", "A"), F("v1.2.md", "B")]
# multiplicity: names listed twice in ordered_subpage that the directory listing finds as well, index.md listed
# explicitly, hidden / backup names (the non-vacuity example of pages_bijection_partial); the property holds here
WITNESS_LISTED_TWICE = [
    F("z.md", "Z"),
    F("index.md", "T", ordered=["z.md", "index.md", "sub", "z.md", ".h.md", "sub"]),
    F("a.md", "A"), F(".h.md", "H"), F("old.md~", "O"),
    D("sub", F("index.md", "S", ordered=["a.md", "a.md"]), F("a.md", "A"), D("deep", F("index.md", "D")))]


def listed_twice_and_found(ch):
    """some reached index.md lists a name twice in ordered_subpage that is also an entry of its directory"""
    idx = find_file(ch, "index.md")
    if idx is None or idx["k"] != "F" or not idx["meta"]:
        return False
    o = idx["meta"]["ordered"]
    names = {e["name"] for e in ch}
    if any(o.count(x) > 1 and x in names and x != "index.md" for x in o):
        return True
    return any(e["k"] == "D" and listed_twice_and_found(e["ch"]) for e in ch)


def decide_variant(impl):
    a = impl.run(WITNESS_MISSING)
    mo = "raises" if a["status"] == "abort" else "skips"
    b = impl.run(WITNESS_GRANDPARENT)
    paths = [n[0] for n in b.get("nodes", [])]
    cc = "ignored" if "sub/img/index.html" in paths else "asis"
    return f"{cc}-{mo}"


# --------------------------------------------------------------------------
# e2e stream
# --------------------------------------------------------------------------

def pages_dict(ch, prefix=""):
    out = {}
    for e in ch:
        if e["k"] == "D":
            out.update(pages_dict(e["ch"], prefix + e["name"] + "/"))
            if not e["ch"]:
                pass
        elif e.get("link") == "dangling":
            out[prefix + e["name"]] = "(symbolic link to nothing)"
        elif e["meta"] is not None:
            out[prefix + e["name"]] = md_text(e)
        else:
            out[prefix + e["name"]] = "content of " + e["name"] + "\n"
    return out


def written_in(ch, prefix=""):
    """relative path -> encoding, for the page files that are not pure ASCII"""
    out = {}
    for e in ch:
        if e["k"] == "D":
            out.update(written_in(e["ch"], prefix + e["name"] + "/"))
        elif e["meta"] is not None and e["meta"].get("wenc"):
            out[prefix + e["name"]] = e["meta"]["wenc"]
    return out


def e2e_run(root: Path, ch, options=None, enc=UTF8, cfg=None):
    shutil.rmtree(root, ignore_errors=True)
    if enc != UTF8:
        options = dict(options or {}, encoding=enc)
    if cfg is not None:
        options = dict(options or {}, **cfg_options(cfg))
    pf = e2e.write_project(root, {"a.f90": "module foo\nend module foo\n"}, pages={"index.md": "placeholder"},
                           options=options)
    if cfg is not None:
        write_media(root, cfg)
    # the page files are written in their own encodings (and empty directories exist)
    shutil.rmtree(root / "pages", ignore_errors=True)
    write_tree(root / "pages", ch)
    res = e2e.run_inprocess(pf)
    out = Path(os.path.realpath(res["out"])) if res["out"] else root / "doc"
    obs = {"status": "ok", "nodes": [], "pages": {}, "out": [], "rc": res["rc"], "exc": res["exc"]}
    if res["rc"] != 0:
        m = re.search(r"Requested page file '(.*)' does not exist", res["exc"] or "")
        if m:
            obs["status"] = "abort"
            obs["abort"] = os.path.relpath(m.group(1), root / "pages")
        else:
            obs["status"] = f"error:{res['exc']}"
        return obs, out
    pg = out / "page"
    if not pg.is_dir() or not (pg / "index.html").exists():
        obs["status"] = "none"
        return obs, out
    obs["out"] = list_out(pg)
    return obs, out


def e2e_stream(rng, n, rep, scratch: Path, impls, feats_hist):
    """full ford.main runs: the output below <out>/page and every page's links must equal what the
    direct path (captured objects) produced for the same directory, and the oracle must hold"""
    n_fail = 0
    for k in range(n):
        feat = set()
        ch, enc, ci = gen_tree(rng, k, feat, [im.cfg for im in impls])
        direct_impl, cfg = impls[ci], impls[ci].cfg
        for f in feat:
            if f.startswith("encoding-") or f.startswith("media_dir-"):
                feats_hist["e2e-" + f] = feats_hist.get("e2e-" + f, 0) + 1
        d_obs = direct_impl.run(ch, enc)
        d_fails = oracle(ch, d_obs, direct_impl.pages, direct_impl.out, enc, cfg)
        obs, out = e2e_run(scratch / "e2e", ch, enc=enc, cfg=cfg)
        if obs["status"] in ("ok", "none"):
            # the complete run: the media directory is at <output>/media, and the pages outside the page tree
            # lead to the top static page as well
            why = media_oracle(cfg, out)
            if obs["status"] == "ok":
                for f in ("index.html", "module/foo.html"):
                    if (out / f).is_file():
                        why += navbar_fails(f, read_navbar((out / f).read_text(errors="replace")), out)
                    else:
                        why.append(f"{f} was not written")
            if why:
                rep.failing_input({"stream": "e2e", "tree": ch, "encoding": enc, "config": cfg,
                                   "files": pages_dict(ch), "why": why[:6]}, None)
        if obs["status"] != d_obs["status"] or (obs["status"] == "ok" and obs["out"] != d_obs["out"]):
            rep.tie_broken(f"e2e: ford.main and get_page_tree+PagetreePage differ on tree {k}: "
                           f"{obs['status']} / {d_obs['status']}",
                           {"stream": "e2e", "tree": ch, "encoding": enc, "main": obs,
                            "direct": {x: d_obs[x] for x in ('status', 'out')}})
            if not d_fails:
                # the direct run satisfies the property on this directory, the complete run gives other pages
                exp = spec_tree(ch, enc=enc)
                want = sorted(n["path"] for n in spec_preorder(exp)) if exp else []
                got = sorted(x for x in obs.get("out", []) if x.endswith(".html"))
                if obs["status"] in ("ok", "none") and got != want:
                    rep.failing_input({"stream": "e2e", "tree": ch, "encoding": enc, "config": cfg,
                                       "files": pages_dict(ch),
                                       "why": f"complete ford run (encoding: {enc}) wrote pages {got}, expected {want}"},
                                      None)
            continue
        if obs["status"] == "ok":
            for p in d_obs["pages"]:
                if not (out / "page" / p).is_file() or d_obs["pages"][p] is None:
                    rep.failing_input({"stream": "e2e", "tree": ch, "encoding": enc, "config": cfg,
                                       "files": pages_dict(ch),
                                       "why": f"page {p} of the page tree is not written to <output>/page/{p}"}, None)
                    break
                a = read_page(out / "page" / p)
                b = dict(d_obs["pages"][p])
                # (the entity link of the direct run goes through process-wide NameSelector state that the
                #  intervening ford.main runs reset; it is checked against the intended target instead)
                ent = a.pop("entity")
                b.pop("entity")
                # (likewise the entries of the navigation bar after the top-page link name source-file pages)
                a["top"], b["top"] = a["top"][:2], b["top"][:2]
                if ent is not None and [resolve_href(p, h) for h in ent] != ["module/foo.html"]:
                    rep.failing_input({"stream": "e2e", "files": pages_dict(ch),
                                       "why": f"[[foo]] on page {p} resolves to {ent}"}, None)
                if a != b:
                    rep.tie_broken(f"e2e: page {p} differs between ford.main and direct run on tree {k}",
                                   {"stream": "e2e", "tree": ch, "encoding": enc, "config": cfg, "main": a, "direct": b})
                    break
    return n_fail


def probes(rep, scratch: Path):
    """oracle-only probes of two settings outside the tree generator"""
    results = {}
    # project-level copy_subdir (documented: copied for every page that does not set its own)
    ch = [F("index.md", "Top"), D("media", F("x.png", md=False)),
          D("sub", F("index.md", "Sub"), D("media", F("y.png", md=False)))]
    obs, out = e2e_run(scratch / "probe1", ch, options={"copy_subdir": "media"})
    ok = (out / "page" / "media" / "x.png").is_file() and (out / "page" / "sub" / "media" / "y.png").is_file()
    results["project_copy_subdir_copied"] = ok
    if obs["status"] != "ok":
        rep.failing_input({"stream": "probe", "what": "project-level copy_subdir run failed", "obs": obs}, None)
    elif not ok:
        rep.failing_input({"stream": "probe", "tree": pages_dict(ch), "options": {"copy_subdir": "media"},
                           "why": "project-level copy_subdir: media - neither page/media/x.png nor page/sub/media/y.png is copied",
                           "observed_out": obs["out"]}, F_PROJCOPY)
    # absolute project_url
    ch = [F("index.md", "Top"), D("sub", F("index.md", "Sub"), F("a.md", "A"))]
    ch[1]["ch"][1]["meta"]["links"] = [("page", "/index.html")]
    obs, out = e2e_run(scratch / "probe2", ch, options={"project_url": "https://example.com/docs"})
    good = False
    if obs["status"] == "ok" and not (out / "page" / "sub" / "a.html").is_file():
        rep.failing_input({"stream": "probe", "tree": pages_dict(ch), "options": {"project_url": "https://example.com/docs"},
                           "why": "titled page sub/a.md is not written to <output>/page/sub/a.html",
                           "observed_out": obs["out"]}, None)
    elif obs["status"] == "ok":
        pg = read_page(out / "page" / "sub" / "a.html")
        want = "https://example.com/docs/page/index.html"
        good = pg["body"] == [want] and all(h.startswith("https://example.com/docs/page/") for h in pg["nav"])
        results["absolute_url_links"] = {"body": pg["body"], "nav": pg["nav"][:3]}
        if not good:
            rep.failing_input({"stream": "probe", "tree": pages_dict(ch), "options": {"project_url": "https://example.com/docs"},
                               "why": f"with project_url set, |page| alias and sidebar links on page/sub/a.html are {pg['body']} / {pg['nav'][:2]}, expected {want}",
                               }, F_ABSURL)
    else:
        rep.failing_input({"stream": "probe", "what": "absolute project_url run failed", "obs": obs}, None)
    return results


# --------------------------------------------------------------------------


def shrink(ch, still_fails, budget=300):
    """greedy: drop entries (outermost first, so whole sub-trees go early), then metadata items and
    non-ASCII content, while the predicate still holds"""
    import copy

    cur = copy.deepcopy(ch)

    def sites(c, path=()):
        for i, e in enumerate(c):
            yield path + (i,)
            if e["k"] == "D":
                yield from sites(e["ch"], path + (i,))

    def at(tree, site):
        c = tree
        for i in site[:-1]:
            c = c[i]["ch"]
        return c, site[-1]

    def edits(e, site):
        if not (len(site) == 1 and e["name"] == "index.md"):
            yield ("drop", None)
        if e["k"] == "F" and e["meta"]:
            for key in ("links", "ordered", "copy"):
                if e["meta"][key]:
                    yield ("clear", key)
            if e["meta"].get("wenc") and (e["meta"]["title"] is None or e["meta"]["title"].isascii()):
                yield ("ascii", None)
            if any(c != "para" for c in (e["meta"].get("ctx") or [])):
                yield ("plainctx", None)
            if len(e["meta"]["links"]) > 1:
                for j in range(len(e["meta"]["links"])):
                    yield ("droplink", j)
        if e.get("link"):
            yield ("unlink", None)
        if e.get("top_link"):
            yield ("untoplink", None)

    progress = True
    while progress and budget > 0:
        progress = False
        for phase in ("drop", "rest"):
            order = sorted(sites(cur), key=len)
            k = 0
            while k < len(order) and budget > 0:
                site = order[k]
                c, i = at(cur, site)
                done = False
                for what, key in list(edits(c[i], site)):
                    if (what == "drop") != (phase == "drop"):
                        continue
                    cand = copy.deepcopy(cur)
                    c2, _ = at(cand, site)
                    if what == "drop":
                        del c2[i]
                    elif what == "ascii":
                        c2[i]["meta"]["wenc"] = ""
                        c2[i]["meta"]["na"] = None
                    elif what == "plainctx":
                        c2[i]["meta"]["ctx"] = []
                    elif what == "droplink":
                        if key >= len(c2[i]["meta"]["links"]):
                            continue
                        ctx = [link_ctx(c2[i]["meta"], j) for j in range(len(c2[i]["meta"]["links"]))]
                        del c2[i]["meta"]["links"][key]
                        del ctx[key]
                        c2[i]["meta"]["ctx"] = ctx
                    elif what == "unlink":
                        if not unlink_entry(c2, i):
                            continue
                    elif what == "untoplink":
                        c2[i].pop("top_link", None)
                    else:
                        c2[i]["meta"][key] = []
                    budget -= 1
                    if not sync_sibs(cand):
                        continue  # (the target of a sibling link would be gone)
                    if still_fails(cand):
                        cur = cand
                        progress = True
                        done = what == "drop"
                        if done:
                            break
                if done:
                    order = sorted(sites(cur), key=len)  # same k now names the next entry
                else:
                    k += 1
    return cur


def _tables(tr):
    try:
        return tr.extract()
    except Exception as e:  # already reported as a broken tie by lean_prove
        return f"translator failed: {type(e).__name__}: {e}"


def run(tier: str, seed: int, replay: str | None = None) -> int:
    rep = Report(PROP, tier, seed)
    import translate.c17 as tr

    lean = lean_prove(PROP, translate=tr.translate, thorough=(tier == "thorough"))
    for b in lean.broken():
        rep.tie_broken("proof: " + b)
    ford = common.import_ford()
    rng = random.Random(seed * 7919 + 17)
    drv = Driver()
    n_micro = 1500 if tier == "quick" else 20000
    n_tree = 700 if tier == "quick" else 12000
    n_e2e = 12 if tier == "quick" else 150
    n_cfg = 6 if tier == "quick" else 14
    ev_micro, bad_micro = micro(ford, drv, rng, n_micro, rep)
    ev_alias, bad_alias = micro_alias(ford, drv, random.Random(seed * 31337 + 9), 2500 if tier == "quick" else 40000, rep)
    ev_micro, bad_micro = ev_micro + ev_alias, bad_micro + bad_alias

    feats_hist: dict[str, int] = {}
    depth_hist: dict[str, int] = {}
    pages_hist: dict[str, int] = {}
    status_hist: dict[str, int] = {}
    distinct = set()
    samples = []
    n_bad_corr = 0
    n_oracle_fail = 0
    n_shrunk = 0
    copy_stats = {"assets_expected": 0, "pages_falling_back_to_the_project_list": 0,
                  "fallback_pages_below_an_index_with_its_own_list": 0, "copy_items_that_are_directories": 0,
                  "copy_items_behind_an_item_that_cannot_be_copied": 0}
    mult = {"pages_with_source_checked": 0, "trees_with_two_files_on_one_page": 0,
            "trees_with_a_name_listed_twice_and_found": 0}
    with common.scratch_dir() as d:
        d = Path(os.path.realpath(d))
        cfgs = gen_configs(random.Random(seed * 104729 + 5), n_cfg)
        trees = []
        if replay:
            import json

            rp = json.loads(Path(replay).read_text())
            for c in rp.get("cases", []) + rp.get("first_disagreements", []):
                if "tree" in c and isinstance(c["tree"], list):
                    cfg = c.get("config") or DEFAULT_CFG
                    cfg = {k2: cfg.get(k2, DEFAULT_CFG[k2]) for k2 in DEFAULT_CFG}
                    if cfg not in cfgs:
                        cfgs.append(cfg)
                    trees.append((c["tree"], {"replay"}, c.get("encoding") or UTF8, cfgs.index(cfg)))
        # one real ford.main run per project configuration: the aliases as main builds them, the media
        # directory as Documentation.writeout leaves it
        impls = [Impl(ford, d / f"proj{i}", cfg) for i, cfg in enumerate(cfgs)]
        impl = impls[0]
        variant = decide_variant(impl)
        ALLOW_DANGLING[0] = variant.endswith("skips")
        cwd = os.getcwd()
        media_model = drv.batch([["c17.media", "1" if c["media_dir"] is not None else "0",
                                  *tokens(media_entries(c["media_files"]))] for c in cfgs])
        for im_, cfg, mm in zip(impls, cfgs, media_model):
            real = ["media/"] + ["media/" + x for x in list_out(im_.out / "media")] if (im_.out / "media").is_dir() else []
            if mm[0] != "ok" or sorted(mm[1:]) != sorted(real):
                rep.tie_broken(f"correspondence media directory: <output>/media after Documentation.writeout is "
                               f"{sorted(real)}, model {sorted(mm[1:])}",
                               {"stream": "media", "config": cfg, "impl": sorted(real), "model": mm})
            why = media_oracle(cfg, im_.out)
            if why:
                rep.failing_input({"stream": "media", "config": cfg, "why": why[:6],
                                   "observed_output_top": sorted(os.listdir(im_.out))}, None)
        # the witnesses of the known findings are always replayed
        for w in (WITNESS_MISSING, WITNESS_GRANDPARENT, WITNESS_DOTTED, WITNESS_COLLIDE, WITNESS_COLLIDE2,
                  WITNESS_LISTED_TWICE):
            trees.append((w, {"witness"}, UTF8, 0))
        for k in range(n_tree):
            feat: set[str] = set()
            ch, enc, ci = gen_tree(rng, k, feat, cfgs)
            trees.append((ch, feat, enc, ci))
        reqs = [["c17.tree", variant, str(impls[ci].out), cwd, enc, RS.join(str(x) for x in impls[ci].proj_copy),
                 *tokens(ch)] for ch, _, enc, ci in trees]
        model = drv.batch(reqs)
        # the oracle's reading of the statement (spec_tree, Python) and the specification the theorems
        # are stated against (expPages, Lean) must agree on every generated directory
        lean_spec = drv.batch([["c17.spec", enc, *tokens(ch)] for ch, _, enc, _ in trees])
        for (ch, _, enc, _), ls in zip(trees, lean_spec):
            st = spec_tree(ch, enc=enc)
            mine = sorted(n["path"] for n in spec_preorder(st)) if st else []
            if ls[0] != "ok" or sorted(ls[1:]) != mine:
                rep.tie_broken("specification: Lean expPages and the harness oracle's expected pages differ",
                               {"stream": "spec", "files": pages_dict(ch), "encoding": enc, "lean": ls[1:], "oracle": mine})
                break
        # ... and on what is expected next to the pages (spec_assets, Python / expAssets, Lean), for the project's
        # `copy_subdir` as the project file gives it
        lean_assets = drv.batch([["c17.assets", enc, RS.join(cfgs[ci].get("copy_subdir") or []), *tokens(ch)]
                                 for ch, _, enc, ci in trees])
        for (ch, _, enc, ci), la in zip(trees, lean_assets):
            pcs = cfgs[ci].get("copy_subdir") or []
            mine = sorted(p + ("/" if isd else "") for p, isd in spec_assets(ch, enc, pcs))
            if la[0] != "ok" or sorted(set(la[1:])) != mine:
                rep.tie_broken("specification: Lean expAssets and the harness oracle's expected assets differ",
                               {"stream": "spec", "files": pages_dict(ch), "encoding": enc, "project_copy_subdir": pcs,
                                "lean-only": sorted(set(la[1:]) - set(mine))[:6], "oracle-only": sorted(set(mine) - set(la[1:]))[:6]})
                break
            copy_stats["assets_expected"] += len(mine)
        for im_, cfg in zip(impls, cfgs):
            if [str(x) for x in im_.proj_copy] != list(cfg.get("copy_subdir") or []):
                rep.failing_input({"stream": "project", "config": cfg,
                                   "why": f"ford.main starts the page walk with copy_subdir {[str(x) for x in im_.proj_copy]}, "
                                          f"the project file says {cfg.get('copy_subdir') or []}"}, None)

        def check_one(ch, enc, ci=0):
            im = impls[ci].run(ch, enc)
            return im, oracle(ch, im, impls[ci].pages, impls[ci].out, enc, cfgs[ci])

        for k, ((ch, feat, enc, ci), mo_raw) in enumerate(zip(trees, model)):
            im, fails = check_one(ch, enc, ci)
            mo = parse_model(mo_raw)
            wr = im.get("written", [])
            mult["pages_with_source_checked"] += len(wr)
            if len({o for _, o in wr}) < len(wr):
                mult["trees_with_two_files_on_one_page"] += 1
            if im["status"] == "ok" and listed_twice_and_found(ch):
                mult["trees_with_a_name_listed_twice_and_found"] += 1
            status_hist[im["status"].split(":")[0]] = status_hist.get(im["status"].split(":")[0], 0) + 1
            copy_features(ch, enc, cfgs[ci].get("copy_subdir") or [], feat, copy_stats)
            for f in feat:
                feats_hist[f] = feats_hist.get(f, 0) + 1
            if im["status"] == "ok":
                npg = len(im["nodes"])
                pages_hist[str(min(npg, 12))] = pages_hist.get(str(min(npg, 12)), 0) + 1
                dep = max(len(n[2]) for n in im["nodes"])
                depth_hist[str(dep)] = depth_hist.get(str(dep), 0) + 1
                if npg >= 2:
                    distinct.add(common.digest(tokens(ch)))
                if len(samples) < 2 and npg >= 4 and dep >= 2:
                    samples.append({"tree": pages_dict(ch), "pages": [n[0] for n in im["nodes"]]})
            diff = compare(im, mo)
            if diff is not None:
                n_bad_corr += 1
                rep.tie_broken(f"correspondence tree (variant {variant}): {diff}",
                               {"stream": "tree", "tree": ch, "encoding": enc, "config": cfgs[ci],
                                "files": pages_dict(ch), "diff": diff,
                                "impl": {x: im.get(x) for x in ("status", "abort", "nodes", "out")},
                                "model": {x: mo.get(x) for x in ("status", "abort", "nodes", "out")}})
            if fails:
                n_oracle_fail += 1
                ids = {f[1] for f in fails}
                fid = None
                if None not in ids:
                    # every discrepancy is explained by a listed defect class present in the input
                    ids = sorted(ids)
                    fid = ids[0]
                    for other in ids[1:]:
                        rep.failing_input({"stream": "tree", "files": pages_dict(ch), "encoding": enc,
                                           "config": cfgs[ci],
                                           "why": [f[0] for f in fails if f[1] == other][:6]}, other)
                    fails = [f for f in fails if f[1] == fid]
                case_tree = ch
                if fid is None and n_shrunk < 3:
                    n_shrunk += 1
                    # shrink unlisted failures to a small replay
                    def still(c):
                        _, fl = check_one(c, enc, ci)
                        return any(x[1] is None for x in fl)
                    case_tree = shrink(ch, still)
                    im2, fails2 = check_one(case_tree, enc, ci)
                    fails = fails2 or fails
                rep.failing_input({"stream": "tree", "tree": case_tree, "encoding": enc,
                                   "config": cfgs[ci],
                                   "project_options": cfg_options(cfgs[ci]),
                                   "files": pages_dict(case_tree),
                                   "files_written_in": written_in(case_tree),
                                   "symbolic_links": links_in(case_tree),
                                   "page_dir_is_a_symbolic_link": page_dir_is_link(case_tree),
                                   "why": [f[0] for f in fails][:6],
                                   "defect_classes_in_input": {k2: v for k2, v in defect_classes(case_tree, enc, cfgs[ci].get("copy_subdir") or []).items()},
                                   "expected_pages": [n["path"] for n in spec_preorder(spec_tree(case_tree, enc=enc))] if spec_tree(case_tree, enc=enc) else None,
                                   "expected_assets": sorted(p + ("/" if isd else "") for p, isd in spec_assets(case_tree, enc, cfgs[ci].get("copy_subdir") or []))[:40],
                                   "observed_pages": [n[0] for n in im.get("nodes", [])] if case_tree is ch else None},
                                  fid)
        e2e_stream(rng, n_e2e, rep, d, impls, feats_hist)
        probe_results = probes(rep, d)
    drv.close()
    rep.coverage.update(
        evaluations=ev_micro + len(trees) + n_e2e + 2,
        distinct_nontrivial=len(distinct),
        rule="tree cases are generated page directories; non-trivial = the real code produced at least two pages; "
             "distinct by digest of the abstract directory (names, metadata, links)",
        samples=samples,
        traces_validated_against_impl=len(trees) + ev_micro,
        correspondence_disagreements=n_bad_corr + bad_micro,
        oracle_failures=n_oracle_fail,
        variant_decided=variant,
        input_feature_histogram=dict(sorted(feats_hist.items())),
        pages_per_tree_histogram=dict(sorted(pages_hist.items(), key=lambda kv: int(kv[0]))),
        nesting_depth_histogram=dict(sorted(depth_hist.items())),
        status_histogram=status_hist,
        e2e_runs=n_e2e,
        multiplicity=mult,
        copy_subdir=copy_stats,
        alias_line_lists_compared=ev_alias,
        project_configurations=cfgs,
        probes=probe_results,
        generated_tables=_tables(tr),
    )
    rep.assumptions += [
        "Python-Markdown, Jinja2, meta_preprocessor and shutil are on the implementation side only (exercised, not modelled)",
        "codecs are on the implementation side only; the model knows `pure ASCII` / `written in encoding e` per file and "
        "treats reading a non-ASCII file with another encoding as an error (generated: only bytes that are invalid UTF-8 "
        "read as UTF-8, where that is exact); encodings are ASCII-compatible ones",
        "os.path.relpath / Path.resolve are modelled on normalised segment lists; symbolic links in the page directory "
        "(to files, assets and directories kept outside it, to siblings, to nothing, and the page directory itself) are "
        "generated on the implementation side, the model is given the directory as it looks through its links "
        "(os.listdir / exists / is_dir / read_text / copy follow links); no link cycles",
        "the text-level alias model (PageAlias.lean) is compared with AliasPreprocessor.run on random lines over pipes, "
        "backslashes, blanks, tabs, alias names and line starts; lines contain no newline / carriage return",
        "ordered_subpage / copy_subdir items are plain names (no '/' or '..'; C19 covers escaping paths); "
        "a page other than index.md names (itself or through the project's copy_subdir) a directory that becomes a "
        "sub-tree only when the index page of its directory names it too",
        "file contents of copied assets are compared on the implementation side only",
        "the media directory is copied once per project configuration by a complete ford.main run (and again in every "
        "e2e run); the per-tree runs reuse that output directory and rebuild only <output>/page",
    ]
    return rep.finish(lean)
