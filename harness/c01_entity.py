"""C01, streams `entity` and `args`: the name of a declared entity and the matching of dummy arguments.

entity (correspondence) random entity texts as `line_to_variables` hands them to the constructor (blank-free): a name
       from a pool that is dense in keyword-like identifiers, followed by any of an array specification, a coarray
       specification, a character length in either spelling (`x(3)`, `a[*]`, `b(2)[2,*]`, `c*10`, `buf*(*)`, `w(3)*(2*n)`) -
       in the legal order, in any order, 1-2 point mutations (texts that begin with a delimiter, unbalanced ones), junk -
       given to the real `FortranVariable`: (name, dimension) must equal `c01.entity` (FordModel/Entity.lean `mkVar`) EXACTLY.
args   (correspondence) subroutines / functions whose dummy arguments are declared (or not) by statements with one or
       several entities in all those spellings, with other letter case, with local variables in between, read by the
       real FortranSourceFile: the argument list after `_cleanup` (declared: name + dimension of the declaration;
       undeclared: the implicitly typed name) and the remaining variables must equal `c01.args` (`Entity.cleanup`) EXACTLY.
argq   (property oracle, independent of the model) the same procedures judged against what was declared: every dummy
       argument in order with the declared type / length / array specification, every other entity once among the locals,
       nothing else - written in two spellings of the character length (`character(len=L) :: n` and `character :: n*L` /
       `n*(L)`), which must be documented identically.
"""
from __future__ import annotations

import random
import re

from . import common, progen

NAMES = ["buf", "line", "n", "x", "is", "type_t", "end", "data", "c", "a1", "w_2", "Result", "IN", "len", "kind", "star",
         "function_f", "p", "q", "real8", "character_c", "i", "s"]
DIMS = ["(3)", "(:)", "(n)", "(2,3)", "(0:n-1)", "(n*2)", "(*)", "(size(a)*2,*)", "(:,:)"]
CODIMS = ["[*]", "[2,*]", "[n*2,*]", "[0:*]", "[:]"]
LENS = ["10", "80", "*", "n", "2*n", ":", "len(a)*2", "n(1)"]
ALPHA = list("([*])n1,:x")


def len_text(rng, ln):
    if ln.isdigit() and rng.random() < 0.5:
        return "*" + ln
    return "*(" + ln + ")"


def gen_spec(rng):
    parts = []
    if rng.random() < 0.45:
        parts.append(rng.choice(DIMS))
    if rng.random() < 0.25:
        parts.append(rng.choice(CODIMS))
    if rng.random() < 0.5:
        parts.append(len_text(rng, rng.choice(LENS)))
    return parts


def gen_entity_text(rng):
    """(kind, text)"""
    r = rng.random()
    name = rng.choice(NAMES)
    parts = gen_spec(rng)
    if r < 0.6:
        return "legal", name + "".join(parts)
    if r < 0.75:
        rng.shuffle(parts)
        return "any-order", name + "".join(parts)
    if r < 0.93:
        s = name + "".join(parts)
        for _ in range(rng.choice([1, 1, 2])):
            pos = rng.randrange(len(s) + 1)
            m = rng.random()
            if m < 0.45:
                s = s[:pos] + rng.choice(ALPHA) + s[pos:]
            elif m < 0.8 and s:
                pos = min(pos, len(s) - 1)
                s = s[:pos] + s[pos + 1:]
            elif s:
                pos = min(pos, len(s) - 1)
                s = s[:pos] + rng.choice(ALPHA) + s[pos + 1:]
        return "mutated", s
    return "junk", "".join(rng.choice(ALPHA) for _ in range(rng.randrange(0, 9)))


def holder(d):
    import ford.sourceform as sf
    from ford.settings import ProjectSettings

    p = d / "entity_holder.f90"
    p.write_text("module holder\nend module holder\n")
    with common.quiet():
        return sf.FortranSourceFile(str(p), ProjectSettings()).modules[0]


def run_entity(drv, ford, rng, n, rep, d, distinct=None):
    import ford.sourceform as sf

    st = {"cases": 0, "disagree": 0, "kinds": {}, "length_after_name": 0, "star_before_paren": 0, "coarray": 0}
    parent = holder(d)
    cases = [gen_entity_text(rng) for _ in range(n)]
    answers = drv.batch([["c01.entity", s] for _, s in cases])
    for (kind, s), m in zip(cases, answers):
        st["cases"] += 1
        st["kinds"][kind] = st["kinds"].get(kind, 0) + 1
        st["length_after_name"] += "*" in s
        st["star_before_paren"] += bool(re.match(r"^[^(\[]*\*.*[(\[]", s))
        st["coarray"] += "[" in s
        if distinct is not None:
            distinct.add(common.digest(["entity", s]))
        try:
            with common.quiet():
                v = sf.FortranVariable(s, "character", parent)
            im = ["ok", str(v.name), str(v.dimension)]
        except Exception as e:  # noqa
            im = ["exc", type(e).__name__]
        if list(m) != im:
            st["disagree"] += 1
            rep.tie_broken("correspondence entity: FortranVariable.__init__ and the Lean model Entity.mkVar differ on %r" % s,
                           {"stream": "entity", "entity": s, "impl": im, "model": list(m)})
    return st


# ------------------------------------------------------------------ procedures with dummy arguments

TYPES = [("integer", None), ("real", None), ("character", "10"), ("character", "*"), ("character", "n"), ("character", "80"),
         ("logical", None), ("character", "2*n"), ("character", None)]


def implicit_type(name):
    return "integer" if name.lower()[0] in "ijklmn" else "real"


def gen_proc_case(rng):
    """abstract procedure: kind, dummy argument names, entities {name, arg?, type, len, dims, codims} in source order.
    A declared dummy argument never has the type implicit typing would give it, so that "took its declaration" can be
    read off the documented type."""
    pool = list(NAMES)
    rng.shuffle(pool)
    kind = rng.choice(["subroutine", "subroutine", "function"])
    ents, args = [], []
    for _ in range(rng.choice([0, 1, 2, 2, 3, 4])):
        nm = pool.pop()
        args.append(nm)
        if rng.random() < 0.85:
            ents.append({"name": nm, "arg": True})
    for _ in range(rng.choice([0, 1, 1, 2, 3])):
        ents.append({"name": pool.pop(), "arg": False})
    for e in ents:
        while True:
            e["type"], e["len"] = rng.choice(TYPES)
            if not (e["arg"] and e["type"] == implicit_type(e["name"])):
                break
        e["dims"] = rng.choice(DIMS[:5]) if rng.random() < 0.4 else ""
        e["codims"] = rng.choice(CODIMS[:2]) if rng.random() < 0.12 and e["arg"] else ""
        if not e["arg"] and e["dims"] in ("(:)", "(*)", "(:,:)"):
            e["dims"] = "(3)"
        if not e["arg"] and e["len"] == "*":
            e["len"] = "10"
    rng.shuffle(ents)
    return {"kind": kind, "name": "proc_" + rng.choice(["a", "b", "is"]), "args": args, "ents": ents}


def _case(rng, s):
    r = rng.random()
    return s if r < 0.6 else (s.upper() if r < 0.8 else s.capitalize())


def render_proc_case(case, rng, style):
    """style 'type': the character length in the type specification; 'entity': after the name; 'mixed': chosen per
    statement.  Returns (text, [entity text as the constructor of FORD will see it, in source order])."""
    head = _case(rng, case["kind"]) + " " + case["name"]
    if case["args"] or case["kind"] == "function" or rng.random() < 0.5:
        head += rng.choice(["", " "]) + "(" + rng.choice([", ", ","]).join(_case(rng, a) for a in case["args"]) + ")"
    lines = [head]
    seen = []
    ents = list(case["ents"])
    i = 0
    while i < len(ents):
        e = ents[i]
        i += 1
        group = [e]
        on_entity = e["len"] is not None and (style == "entity" or (style == "mixed" and rng.random() < 0.5))
        # several entities of one type in one statement (with the length after each name, they may differ in length)
        while i < len(ents) and ents[i]["type"] == e["type"] and rng.random() < 0.4 and \
                ((on_entity and ents[i]["len"] is not None) or (not on_entity and ents[i]["len"] == e["len"])):
            group.append(ents[i])
            i += 1
        spec = _case(rng, e["type"])
        if e["type"] == "character" and not on_entity and e["len"] is not None:
            if e["len"].isdigit() and rng.random() < 0.3:
                spec += "*" + e["len"]
            else:
                spec += rng.choice(["(%s)", "(len=%s)", "( %s )"]) % e["len"]
        items = []
        for g in group:
            txt = _case(rng, g["name"]) + g["dims"] + g["codims"]
            shown = txt
            if on_entity:
                lt = len_text(rng, g["len"])
                txt, shown = txt + rng.choice(["", "", " "]) + lt, txt + lt
            seen.append(shown.replace(" ", ""))
            items.append(txt)
        lines.append("  " + spec + rng.choice([" :: ", " ", "::"]) + rng.choice([", ", ","]).join(items))
    lines.append(_case(rng, "end") + " " + _case(rng, case["kind"]))
    return "\n".join(lines) + "\n", seen


def impl_proc(ford, path, text, kind):
    from ford.settings import ProjectSettings
    from ford.sourceform import FortranSourceFile

    path.write_text(text)
    with common.quiet() as buf:
        f = FortranSourceFile(str(path), ProjectSettings())
    lst = f.subroutines if kind == "subroutine" else f.functions
    if len(lst) != 1 or len(f.subroutines) + len(f.functions) + len(f.modules) + len(f.programs) != 1:
        raise ValueError("the file is not documented as exactly the one procedure")
    return lst[0], buf.getvalue()


def run_args(drv, ford, rng, n, rep, d, distinct=None):
    st = {"cases": 0, "disagree": 0, "declared_args": 0, "implicit_args": 0, "args_with_length_after_name": 0, "exceptions": 0}
    cases = []
    for k in range(n):
        crng = random.Random(rng.getrandbits(48))
        case = gen_proc_case(crng)
        text, ent_texts = render_proc_case(case, crng, crng.choice(["type", "entity", "mixed", "mixed"]))
        cases.append((case, text, ent_texts))
    answers = drv.batch([["c01.args", str(len(c["args"]))] + list(c["args"]) + ets for c, _, ets in cases])
    for k, ((case, text, ent_texts), m) in enumerate(zip(cases, answers)):
        st["cases"] += 1
        if distinct is not None:
            distinct.add(common.digest(["args", text]))
        try:
            p, _ = impl_proc(ford, d / ("args%d.f90" % (k % 16)), text, case["kind"])
            im = ["ok", str(len(p.args))]
            for a in p.args:
                nm = str(getattr(a, "name", a))
                if getattr(a, "vartype", None) is not None and a.vartype != implicit_type(nm):
                    im += ["d", nm, str(a.dimension)]
                    st["declared_args"] += 1
                    st["args_with_length_after_name"] += "*" in str(a.dimension)
                else:
                    im += ["i", nm, ""]
                    st["implicit_args"] += 1
            for v in p.variables:
                im += [str(v.name), str(v.dimension)]
        except Exception as e:  # noqa
            im = ["exc", type(e).__name__]
            st["exceptions"] += 1
        if _fold(list(m)) != _fold(im):
            st["disagree"] += 1
            rep.tie_broken("correspondence args: the dummy arguments / variables FORD records differ from the Lean model "
                           "Entity.cleanup on case %d" % k, {"stream": "args", "text": text, "impl": im, "model": list(m)})
    return st


def _fold(resp):
    """names compared without regard to letter case (FORD keeps the spelling of the declaration for a declared argument and
    that of the procedure statement for an undeclared one; the model is given the abstract names)"""
    if not resp or resp[0] != "ok":
        return list(resp)
    n = int(resp[1])
    out = ["ok", resp[1]]
    body = resp[2:]
    for j in range(0, 3 * n, 3):
        out += [body[j], body[j + 1].lower(), body[j + 2]]
    rest = body[3 * n:]
    for j in range(0, len(rest), 2):
        out += [rest[j].lower(), rest[j + 1]]
    return out


# ------------------------------------------------------------------ stream argq (property oracle)

def expected_proc(case):
    def var(e):
        return {"name": e["name"].lower(), "vartype": e["type"],
                "strlen": (progen.nsp(e["len"]) or "1") if e["type"] == "character" else None,
                "dims": progen.nsp(e["dims"]) or "", "codims": progen.nsp(e["codims"]) or ""}
    by = {e["name"].lower(): e for e in case["ents"]}
    args = []
    for a in case["args"]:
        e = by.get(a.lower())
        args.append(var(e) if e is not None and e["arg"] else
                    {"name": a.lower(), "vartype": implicit_type(a), "strlen": None, "dims": "", "codims": ""})
    return {"name": case["name"], "args": args,
            "variables": sorted((var(e) for e in case["ents"] if not e["arg"]), key=lambda x: x["name"])}


def observed_proc(p):
    def var(v):
        o = progen.obs_var(v)
        return {k: o.get(k) for k in ("name", "vartype", "strlen", "dims", "codims")} if "vartype" in o else o
    return {"name": p.name.lower(), "args": [var(a) for a in p.args],
            "variables": sorted((var(v) for v in p.variables), key=lambda x: x["name"])}


def run_argq(ford, rng, n, rep, d, distinct=None):
    from harness import c01

    st = {"cases": 0, "spellings": 0, "oracle_fail": 0, "length_after_name_statements": 0}
    for k in range(n):
        crng = random.Random(rng.getrandbits(48))
        case = gen_proc_case(crng)
        exp = expected_proc(case)
        st["cases"] += 1
        for style in ("type", "entity"):
            text, _ = render_proc_case(case, crng, style)
            st["spellings"] += 1
            st["length_after_name_statements"] += len(re.findall(r"(?im)^\s*character\b.*\w\s*(\([^()]*\))?(\[[^\]]*\])?\s*\*\s*[\d(]", text)) if style == "entity" else 0
            if distinct is not None:
                distinct.add(common.digest(["argq", text]))
            feats = c01.file_features(text)
            try:
                p, log = impl_proc(ford, d / ("argq%d.f90" % (k % 16)), text, case["kind"])
                verdicts = c01.judge(exp, observed_proc(p), feats, text)
                if not verdicts and "ERROR in file" in log:
                    verdicts = [("diagnostic on valid input: " + log.strip().splitlines()[0][:120], None)]
            except Exception as e:  # noqa
                why = "FORD failed on valid input: %s: %s" % (type(e).__name__, str(e)[:100])
                verdicts = [(why, c01.classify(why, feats, text))]
            for why, fid in verdicts:
                st["oracle_fail"] += 1
                rep.failing_input({"stream": "argq", "case": k, "spelling": style, "why": why, "features": sorted(feats), "text": text}, fid)
    return st
