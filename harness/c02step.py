"""C02, round 6: the iterator protocol of FortranReader (`__next__` call by call, `pass_back`,
`sourceform.read_docstring`) - streams `step-sweep` (bounded-exhaustive) and `step` (random).

The parser never reads a file with `list(reader)`: after every statement that can carry documentation it
calls `read_docstring`, which takes items while they are doc lines and hands the first other item back with
`reader.pass_back(line)`.  Here the *real* reader object is driven by a schedule of such calls and

  * correspondence: the trace of everything the calls returned (items, doc lists, StopIteration, exception kind)
    must be the trace of the Lean model `PassBack.runOps` (driver command `c02.step`) on the same files and the same
    calls - exact;
  * oracle (from the property statement): what a consumer *receives* (items taken, doc lines collected by
    `read_docstring`; an item that was only looked at and handed back counts once) is the program's statements and doc
    lines, token for token, in order - however the statements are laid out (`;`, continuations, include files) and
    wherever the consumer looks ahead.  Same comparison as the statement oracle of the other streams (`c02.oracle`).

Schedule atoms: `n` take an item; `dn` read_docstring, then take the statement it stopped at; `nun` take an item and,
when it is a statement, hand it back and take it again (a doc line is never handed back: `read_docstring` does not do
that either); `p<text>` pass_back of an arbitrary line (correspondence only: the oracle is not evaluated on such a
case).  After the atoms the reader is drained with `n`.
"""
from __future__ import annotations

import itertools

from . import common

ATOMS = ("n", "dn", "nun")
DRAIN = 400


def exc_name(e: BaseException) -> str:
    msg = str(e)
    if isinstance(e, ValueError):
        if "Preceding documentation lines" in msg:
            return "predoc-inline"
        if "Alternate documentation" in msg:
            return "alt-inline"
        if "Can not start a new line" in msg:
            return "amp-start"
    if isinstance(e, RuntimeError) and "Preceding alternate documentation" in msg:
        return "predoc-alt-inline"
    if isinstance(e, FileNotFoundError) and "Can not find include file" in msg:
        return "not-found"
    if isinstance(e, IndexError) and "pop from empty list" in msg:
        return "pop-empty"
    return type(e).__name__ + ":" + msg[:60]


def impl_step(path, marks, atoms):
    """Drive the real reader.  Returns (calls made, trace, items received, how it ended)."""
    from ford.reader import FortranReader
    from ford.sourceform import read_docstring

    docp = "!" + marks[0]
    ops, trace, got = [], [], []
    end = "E"

    def take(r):
        ops.append("n")
        x = next(r)
        trace.append("I" + x)
        return x

    try:
        with common.quiet():
            r = FortranReader(str(path), *marks)
            for a in itertools.chain(atoms, itertools.repeat("n", DRAIN)):
                if a == "n":
                    got.append(take(r))
                elif a == "dn":
                    ops.append("d")
                    ds = read_docstring(r, marks[0])
                    trace.append("D%d" % len(ds))
                    trace.extend(ds)
                    got.extend(docp + t for t in ds)
                    got.append(take(r))
                elif a == "nun":
                    x = take(r)
                    if x.startswith(docp):
                        got.append(x)
                    else:
                        ops.append("u")
                        r.pass_back(x)
                        got.append(take(r))
                else:
                    ops.append(a)
                    r.pass_back(a[1:])
            end = "X" + "did-not-end"
            trace.append(end)
    except StopIteration:
        trace.append("E")
    except Exception as e:  # noqa: BLE001 - the kind is part of the trace
        end = "X" + exc_name(e)
        trace.append(end)
    return ops, trace, got, end


STEP_FILES = {
    "one.inc": (["y = 2"], [("stmt", ["y", "=", "2"])]),
    "two.inc": (["y = 'a;b ! c'  !! dy", "", "z = 3 ! c"],
                [("stmt", ["y", "=", "'a;b ! c'"]), ("doc", "!! dy"), ("stmt", ["z", "=", "3"])]),
    "none.inc": (["! nothing but a comment", ""], []),
}
# (source text, expected items) of the statements a sweep line is made of; {i} = position on the line
STEP_ITEMS = [
    ("v{i} = {i}", lambda i: [("stmt", ["v%d" % i, "=", str(i)])]),
    ("include 'one.inc'", lambda i: STEP_FILES["one.inc"][1]),
    ("INCLUDE \"two.inc\"", lambda i: STEP_FILES["two.inc"][1]),
    ("s{i} = 'a;b' // \"!&\"", lambda i: [("stmt", ["s%d" % i, "=", "'a;b'", "//", '"!&"'])]),
    ("include 'none.inc'", lambda i: []),
]
STEP_TAILS = [("", None), (" !! d 'q", "!! d 'q")]


def sweep_cases(ns, nitems):
    """Bounded-exhaustive: every sequence of n (in `ns`) statements over the first `nitems` STEP_ITEMS x every choice
    of `;` / new line between them x STEP_TAILS behind the last x every schedule of one atom per statement."""
    files = {n: ls for n, (ls, _) in STEP_FILES.items()}
    for n in ns:
        for seq in itertools.product(range(nitems), repeat=n):
            for mask in itertools.product([True, False], repeat=n - 1):
                seps = list(mask) + [False]
                for tail, doc in STEP_TAILS:
                    lines, cur, exp = [], "", []
                    for i, k in enumerate(seq):
                        cur += STEP_ITEMS[k][0].format(i=i)
                        exp += STEP_ITEMS[k][1](i)
                        if seps[i]:
                            cur += "; "
                        else:
                            lines.append(cur)
                            cur = ""
                    lines[-1] += tail
                    if doc:
                        exp = exp + [("doc", doc)]
                    lines.append("  !! last")
                    exp = exp + [("doc", "!! last")]
                    feat = {"sweep", "step"} | ({"semicolon"} if any(mask) else set()) | ({"include"} if any(0 < k < 5 and k != 3 for k in seq) else set())
                    for sched in itertools.product(ATOMS, repeat=n):
                        yield lines, exp, feat, files, list(sched)


def run_streams(ford, drv, rng, tier, rep, d, marks, c02, which):
    """Evaluates the bounded-exhaustive (`which == "sweep"`) or the random stream; returns statistics for the
    coverage block."""
    cases = []
    # quick: 2..3 statements over 3 items (6 156 cases); thorough: 2..3 over all 5 items and 4 over 3 items (132 876)
    plans = [((2, 3), 3)] if tier == "quick" else [((2, 3), 5), ((4,), 3)]
    if which == "sweep":
        for ns, nitems in plans:
            for lines, exp, feat, files, sched in sweep_cases(ns, nitems):
                cases.append(("step-sweep", lines, exp, feat, files, sched, None, True))
    n_rand = 0 if which == "sweep" else 1500 if tier == "quick" else 15000
    pushes = ["q = 9", "include 'one.inc'", "!! pushed doc", "", "include \"%s\"" % c02.MISSING_H, "a = 'x;y'"]
    for k in range(n_rand):
        if k % 3 == 0:
            nst = rng.randint(2, 6)
            stmts = [c02.gen_stmt(rng, 4) for _ in range(nst)]
            feat = set()
            lines, exp = c02.render(rng, stmts, feat, safe=(k % 2 == 1))
            files, cls = {}, None
        else:
            lines, exp, feat, files, cls = c02.gen_inc_case(rng, k)
        sched = [rng.choice(("n", "n", "dn", "dn", "nun")) for _ in range(rng.randint(1, 8))]
        disciplined = True
        if k % 5 == 4:
            for _ in range(rng.randint(1, 3)):
                sched.insert(rng.randint(0, len(sched)), "p" + rng.choice(pushes))
            disciplined = False
        cases.append(("step", lines, exp, set(feat) | {"step"}, files, sched, cls, disciplined))
    stats = {"cases": len(cases), "calls": 0, "pass_backs": 0, "read_docstring_calls": 0, "look_aheads_with_queue_nonempty": 0,
             "disagreements": 0, "oracle_failures": 0, "streams": {}, "distinct": set()}
    on_disk = {}
    impl = []
    plain_fails = []
    (d / c02.MISSING_H).unlink(missing_ok=True)
    for k, (stream, lines, exp, feat, files, sched, cls, disc) in enumerate(cases):
        p = d / f"s{k % 64}.f90"
        p.write_text("".join(l + "\n" for l in lines))
        files = dict(files or {})
        if any(a.startswith("pinclude 'one.inc'") for a in sched) and "one.inc" not in files:
            files["one.inc"] = STEP_FILES["one.inc"][0]
        for nm, ls in files.items():
            if on_disk.get(nm) != ls:
                (d / nm).write_text("".join(l + "\n" for l in ls))
                on_disk[nm] = ls
        cases[k] = (stream, lines, exp, feat, files, sched, cls, disc)
        impl.append(impl_step(p, marks, sched))
        # what plain iteration gives on the same files: a failure that shows only under look-ahead is never
        # excused by a finding about the layout
        plain_fails.append((cls is not None or c02.classify(feat, lines) is not None)
                           and c02.oracle(exp, c02.impl_read(ford, p)) is not None)
    reqs = []
    for (stream, lines, exp, feat, files, sched, cls, disc), (ops, trace, got, end) in zip(cases, impl):
        r = ["c02.step", *marks, str(len(ops)), *ops, str(len(files))]
        for nm, ls in files.items():
            r += [nm, str(len(ls)), *ls]
        reqs.append(r + list(lines))
    model = drv.batch(reqs)
    # the call-by-call model against the batch model (`Include.readFS`) on the same files: plain iteration to
    # StopIteration must give the batch model's list (model against model; the link is proved for the queue only)
    reqs2 = []
    for (stream, lines, exp, feat, files, sched, cls, disc), (ops, trace, got, end) in zip(cases, impl):
        tailf = [str(len(files))]
        for nm, ls in files.items():
            tailf += [nm, str(len(ls)), *ls]
        n = len(trace) + 8
        reqs2.append(["c02.step", *marks, str(n), *(["n"] * n), *tailf, *lines])
        reqs2.append(["c02.readfs", *marks, *tailf, *lines])
    both = drv.batch(reqs2)
    stats["stepwise_vs_batch_model"] = len(cases)
    for k in range(len(cases)):
        stp, bat = list(both[2 * k]), list(both[2 * k + 1])
        if bat[0] == "ok":
            same = stp == ["ok"] + ["I" + x for x in bat[1:]] + ["E"]
        else:
            same = stp[-1:] == ["X" + bat[1]]
        if not same:
            stats["disagreements"] += 1
            rep.tie_broken(f"stepwise model and batch model differ on {cases[k][0]} case {k}",
                           {"stream": cases[k][0], "lines": cases[k][1], "include_files": cases[k][4],
                            "stepwise": stp, "batch": bat})
    for k, ((stream, lines, exp, feat, files, sched, cls, disc), (ops, trace, got, end), mo) in enumerate(zip(cases, impl, model)):
        stats["streams"][stream] = stats["streams"].get(stream, 0) + 1
        stats["calls"] += len(ops)
        stats["pass_backs"] += sum(1 for o in ops if o == "u" or o.startswith("p")) + ops.count("d")
        stats["read_docstring_calls"] += ops.count("d")
        if any(a != "n" for a in sched) and "semicolon" in feat:
            stats["look_aheads_with_queue_nonempty"] += 1
            stats["distinct"].add(common.digest(list(lines) + ["|"] + list(ops)))
        case_cls = cls or c02.classify(feat, lines)
        if list(mo) != ["ok", *trace]:
            if c02.classify(feat, lines) is None:
                stats["disagreements"] += 1
                rep.tie_broken(f"correspondence {stream}: model and implementation differ on case {k}",
                               {"stream": stream, "lines": lines, "include_files": files, "calls": ops,
                                "impl": trace, "model": list(mo)})
        if not disc:
            continue
        exp_here = exp
        if end == "E" and ops and ops[-1] == "d":
            # the file ended inside read_docstring: the doc lines it had collected are lost with the StopIteration
            # (the consumer's loss, not the reader's); what was received before must be the program up to there
            cnt = sum(1 for g in got if g != "!" + marks[0])
            if not all(kind == "doc" for kind, _ in exp[cnt:]):
                cnt = len(exp)
            exp_here = exp[:cnt]
        why = c02.oracle(exp_here, ("ok", got) if end == "E" else ("err", [end[1:]]))
        if why is not None:
            stats["oracle_failures"] += 1
            fcase = {"stream": stream, "lines": lines, "schedule": sched, "calls": ops, "expected": exp,
                     "received": got, "trace": trace, "why": why, "features": sorted(feat)}
            if files:
                fcase["include_files"] = files
            rep.failing_input(fcase, case_cls if plain_fails[k] else None)
    stats["distinct"] = len(stats["distinct"])
    return stats
