"""C19 - behavioural probes: the decisions of the write-out that the Lean tables record are *observed* on the real
code (run it on a small input, look at what it does to the file system) instead of being read off the spelling of
the source.  A probe that cannot be driven, or that sees something the model has no notion of, raises LookupError
(= the tie is broken, never a pass).

  probe_writeout()   one real FORD run (load_settings / parse_arguments / main, in-process, under the audit recorder of
                     harness/c19.py) on a tiny project whose output directory already exists and holds files,
                     directories, dot-entries and symbolic links (to directories / files outside, at two depths):
                       wipeWholeTree : when the run (re-)creates the output directory nothing of the old one is left
                                       (so no symbolic link survives), and all it did before were removals below it
                       outDirs       : the directories created directly below the output directory after that and
                                       before the first tree is copied, in order
                       libDirs       : the trees of the installation (`ford/<name>`) copied next, in order
  probe_wipe_failure()  a second run in which the removal of one symbolic link of the old output directory fails:
                       wipeFailureFatal : the run ends without any attempt other than the rest of the clean-up and the
                                       (failing) creation of the output directory
  probe_copytree()   the wrapper `ford.output.copytree` on small trees:
                       copytreeSymlinks       : a symbolic link of the tree arrives as a link
                       copytreeIgnoreDangling : a link pointing nowhere is passed over silently
                       copytreeDirsExistOk    : an existing destination is accepted
                     and what the model assumes besides (every entry is copied - no `ignore=` filter -, a file costs
                     `open` + `chmod` = `shutil.copy`, nothing but mkdir/open/chmod/utime happens)
  probe_symbols()    `NameSelector.get_name` on one-character names over an alphabet: the per-character substitution
  probe_exclude_output()  the real source search (`parse_arguments` + `find_all_files`) on a project whose output directory
                     lies below the source directory and holds the copies of an earlier run, under a plain directory
                     name and under names with `[v2]`, `*`, `?`: excludeOutputByPath
  probe_graph_links()  `FortranGraph.create_svg` on a stub graph (real graphviz) in a directory that holds symbolic
                     links under the two names graphviz writes to: graphSkipsLinks
"""
from __future__ import annotations

import os
import types
from pathlib import Path

from . import common

ALPHABET = [chr(i) for i in range(1, 0x250)] + list("∕⁄／Ωßİ")


class _Log:
    """mixin for the recorder: one ordered log of attempts and `shutil.copytree` calls; optional failure of the
    removal of one path; the state of one directory when it is (re-)created"""

    def setup(self, watch: str | None = None, fail_rm: str | None = None):
        self.log: list[tuple] = []
        self.watch = watch
        self.fail_rm = fail_rm
        self.at_mk = "never"

    def on_raw(self, ev, args):
        if ev == "shutil.copytree":
            self.log.append(("copytree", os.fspath(args[0]), os.fspath(args[1])))


def _recorder(sb: Path, watch=None, fail_rm=None):
    from . import c19

    class ProbeRecorder(_Log, c19.Recorder):
        def add(self, kind, path, raw, dir_fd=None):
            n = len(self.events)
            try:
                super().add(kind, path, raw, dir_fd)
            finally:
                for e in self.events[n:]:
                    self.log.append((e["kind"], e["path"]))
            e = self.events[-1]
            if kind == "mk" and e["path"] == self.watch and self.at_mk == "never":
                self.at_mk = sorted(os.listdir(self.watch)) if os.path.isdir(self.watch) else (
                    ["<not a directory>"] if os.path.lexists(self.watch) else None)
            if self.fail_rm is not None and e["path"] == self.fail_rm and kind in ("rm", "rmtree") and not self.injected:
                self.injected = True
                self.fault_event = e
                if kind == "rm":
                    raise c19.Injected(5, "C19 probe: injected failure", e["path"])
                # `shutil.rmtree` on a symbolic link fails by itself

    rec = ProbeRecorder(sb)
    rec.setup(watch, fail_rm)
    return rec


def _project(sb: Path) -> dict:
    W = sb / "work"
    proj = W / "proj"
    (proj / "src").mkdir(parents=True)
    (proj / "src" / "zq.f90").write_text("module zq_m\n!! doc\ninteger :: zq_i\nend module zq_m\n")
    (proj / "media").mkdir()
    (proj / "media" / "zq_m.txt").write_text("m")
    (proj / "proj.md").write_text("---\nproject: probe\nsrc_dir: ./src\noutput_dir: ./doc\nmedia_dir: ./media\n"
                                  "preprocess: false\nparallel: 0\ngraph: false\nsearch: false\n---\n\nProbe.\n")
    pub = W / "published"
    (pub / "d" / "sub").mkdir(parents=True)
    (pub / "d" / "keep.txt").write_text("keep\n")
    (pub / "f.txt").write_text("published\n")
    return {"W": W, "proj": proj, "O": proj / "doc", "pub": pub}


def _old_output(lay: dict, rich: bool):
    O, pub = lay["O"], lay["pub"]
    O.mkdir()
    os.symlink(str(pub / "d"), O / "zq_dlink")
    if not rich:
        return
    (O / "zq_stale.html").write_text("stale")
    (O / "zq_dir" / "deeper").mkdir(parents=True)
    (O / "zq_dir" / "x.html").write_text("x")
    os.symlink(os.path.relpath(pub / "f.txt", O), O / "zq_flink")
    os.symlink(str(pub / "d"), O / "zq_dir" / "deeper" / "zq_dlink2")
    os.symlink(str(pub / "f.txt"), O / "zq_dir" / "zq_flink2")
    os.symlink(str(pub / "d"), O / ".zq_git")
    (O / ".zq_nojekyll").write_text("")
    (O / ".zq_cache").mkdir()
    os.symlink(str(pub / "f.txt"), O / ".zq_cache" / "head")


def _run(lay, rec):
    from . import c19

    c19.install_hook()
    return c19.run_ford(lay["proj"] / "proj.md", rec)


_REMOVALS = ("rmtree", "rm", "rmdir")


def probe_writeout() -> dict:
    from . import c19

    common.import_ford()
    import ford.output as fo

    pkg = os.path.realpath(os.path.dirname(fo.__file__))
    with common.scratch_dir("ford-c19-probe-") as base:
        sb = Path(os.path.realpath(base)) / "x"
        lay = _project(sb)
        _old_output(lay, rich=True)
        O = str(lay["O"])
        before = c19.snapshot(lay["pub"])
        rec = _recorder(sb, watch=O)
        res = _run(lay, rec)
        after = c19.snapshot(lay["pub"])
    if rec.outside:
        raise LookupError(f"write-out probe: attempt outside the sandbox: {rec.outside[0]['kind']} {rec.outside[0]['path']}")
    log = rec.log
    i0 = next((i for i, e in enumerate(log) if e[0] == "mk" and e[1] == O), None)
    if i0 is None:
        raise LookupError(f"write-out probe: the run never creates the output directory (ended with {res['exc']})")
    odd = [e for e in log[:i0] if e[0] not in _REMOVALS or not c19.under(e[1], O)]
    if odd:
        raise LookupError("write-out probe: before the output directory is created the run does more than remove things "
                          f"below it (not modelled): {odd[:3]}")
    if before != after:
        raise LookupError("write-out probe: the clean-up changed what a symbolic link of the old output directory points to")
    whole = rec.at_mk is None
    # the fixed sub-directories: created directly below O, before anything else happens
    out_dirs, j = [], i0 + 1
    while j < len(log) and log[j][0] == "mk" and os.path.dirname(log[j][1]) == O:
        out_dirs.append(os.path.basename(log[j][1]))
        j += 1
    # the trees of the installation copied next
    lib_dirs, cur = [], None
    while j < len(log):
        e = log[j]
        if e[0] == "copytree" and cur is not None and c19.under(e[2], cur):
            pass  # shutil.copytree calls itself for every sub-directory
        elif e[0] == "copytree":
            if os.path.dirname(os.path.realpath(e[1])) != pkg:
                break
            if os.path.dirname(e[2]) != O or os.path.basename(e[2]) != os.path.basename(e[1]):
                raise LookupError(f"write-out probe: installation directory {e[1]} is copied to {e[2]} (not modelled)")
            cur = e[2]
            lib_dirs.append(os.path.basename(cur))
        elif cur is None or not c19.under(e[1], cur):
            break
        j += 1
    if not out_dirs or not lib_dirs:
        raise LookupError(f"write-out probe: no fixed sub-directories / installation trees observed (run ended with {res['exc']}; "
                          f"after mkdir: {log[i0 + 1:i0 + 4]})")
    return {"wipeWholeTree": whole, "outDirs": out_dirs, "libDirs": lib_dirs,
            "observed": {"left_when_recreated": rec.at_mk, "exc": res["exc"]}}


def probe_wipe_failure() -> bool:
    from . import c19

    with common.scratch_dir("ford-c19-probe-") as base:
        sb = Path(os.path.realpath(base)) / "x"
        lay = _project(sb)
        _old_output(lay, rich=False)
        O = str(lay["O"])
        rec = _recorder(sb, watch=O, fail_rm=os.path.join(O, "zq_dlink"))
        res = _run(lay, rec)
    if not rec.injected:
        raise LookupError("wipe-failure probe: the run did not try to remove the symbolic link left in the output directory")
    k = next(i for i, e in enumerate(rec.log) if e[0] in ("rm", "rmtree") and e[1] == rec.fail_rm)
    later = [e for e in rec.log[k + 1:] if not (e[0] in _REMOVALS and c19.under(e[1], O)) and not (e[0] == "mk" and e[1] == O)]
    return res["exc"] is not None and not later


def probe_copytree() -> dict:
    from . import c19

    common.import_ford()
    import ford.output as fo

    wrapper = getattr(fo, "copytree", None)
    if not callable(wrapper):
        raise LookupError("ford.output.copytree (the wrapper around shutil.copytree) not found")
    c19.install_hook()
    out = {}
    with common.scratch_dir("ford-c19-probe-") as base:
        sb = Path(os.path.realpath(base)) / "x"
        src = sb / "src"
        (src / "d").mkdir(parents=True)
        (sb / "victim").mkdir()
        (sb / "victim" / "v.txt").write_text("v")
        names = ["f.txt", ".hidden", "x.pyc", "b~", "d/g.txt", "CVS"]
        for n in names:
            (src / n).write_text("x")
        os.chmod(src / "f.txt", 0o640)
        os.symlink("f.txt", src / "lf")
        os.symlink("d", src / "ld")
        os.symlink("../victim/v.txt", src / "lv")

        def call(s, d):
            rec = _recorder(sb)
            err = None
            try:
                with common.quiet():
                    c19._STATE["rec"] = rec
                    wrapper(s, d)
            except Exception as e:  # noqa
                err = e
            finally:
                c19._STATE["rec"] = None
            return rec, err

        rec, err = call(src, sb / "dst1")
        if err is not None:
            raise LookupError(f"copytree probe: copying a tree with live symbolic links raised {type(err).__name__}: {err}")
        if rec.outside:
            raise LookupError("copytree probe: attempt outside the sandbox")
        kept = [n for n in ("lf", "ld", "lv") if os.path.islink(sb / "dst1" / n)]
        if kept and len(kept) != 3:
            raise LookupError(f"copytree probe: only some symbolic links are kept as links ({kept}; not modelled)")
        out["symlinks"] = bool(kept)
        missing = [n for n in names + ["lf", "ld", "lv"] if not os.path.lexists(sb / "dst1" / n)]
        if missing:
            raise LookupError(f"copytree probe: entries are not copied: {missing} (an ignore= filter is not modelled)")
        kinds = {e[0] for e in rec.log} - {"copytree"}
        if not kinds <= {"mk", "wr", "chmod", "utime", "symlink"} or ("symlink" in kinds) != out["symlinks"]:
            raise LookupError(f"copytree probe: the copy performs attempts of kinds {sorted(kinds)} (not modelled)")
        onf = [e[0] for e in rec.log if e[0] != "copytree" and e[1] == str(sb / "dst1" / "f.txt")]
        if not out["symlinks"] and onf != ["wr", "chmod", "utime"]:
            raise LookupError(f"copytree probe: copying one file costs {onf}; the model assumes shutil.copy (open, chmod) "
                              "followed by FORD's touch (utime)")
        # a link pointing nowhere
        s2 = sb / "src2"
        s2.mkdir()
        (s2 / "a.txt").write_text("a")
        os.symlink("nowhere/at/all", s2 / "gone")
        rec, err = call(s2, sb / "dst2")
        out["ignore_dangling_symlinks"] = (not out["symlinks"]) and err is None
        if err is not None and not isinstance(err, (OSError, shutil_error())):
            raise LookupError(f"copytree probe: a dangling link makes the copy raise {type(err).__name__} (not modelled)")
        if not os.path.exists(sb / "dst2" / "a.txt"):
            raise LookupError("copytree probe: a dangling link keeps the rest of the tree from being copied (not modelled)")
        # an existing destination
        (sb / "dst3").mkdir()
        rec, err = call(s2 if out["symlinks"] or out["ignore_dangling_symlinks"] else src / "d", sb / "dst3")
        out["dirs_exist_ok"] = err is None
        if err is not None and not isinstance(err, FileExistsError):
            raise LookupError(f"copytree probe: an existing destination makes the copy raise {type(err).__name__} (not modelled)")
    return out


def shutil_error():
    import shutil

    return shutil.Error


def probe_symbols() -> list[tuple[str, str]]:
    """The substitution `NameSelector.get_name` applies to the (lower-cased) name, as a table that reproduces it
    when its entries are applied one after the other (as the model's `sanitize` does)."""
    common.import_ford()
    import ford.sourceform as sf

    class Ent(sf.FortranBase):
        def __init__(self, nm):
            self.name = nm

        def get_dir(self):
            return "proc"

        def __hash__(self):
            return id(self)

        def __eq__(self, o):
            return self is o

    def real(name: str) -> str:
        return sf.NameSelector().get_name(Ent(name))

    try:
        eff = {}
        for c in ALPHABET:
            low = c.lower()
            got = real("a" + c + "b")
            if not (got.startswith("a") and got.endswith("b")):
                raise LookupError(f"NameSelector.get_name: {'a' + c + 'b'!r} becomes {got!r} (not a per-character substitution)")
            img = got[1:-1]
            if img != low:
                if len(low) != 1:
                    raise LookupError(f"NameSelector.get_name: character {c!r} with multi-character lower case is replaced")
                eff.setdefault(low, img)
                if eff[low] != img:
                    raise LookupError(f"NameSelector.get_name: {low!r} has two images")
    except LookupError:
        raise
    except Exception as e:  # noqa
        raise LookupError(f"NameSelector.get_name could not be driven on a stub entity: {type(e).__name__}: {e}")
    if not eff:
        raise LookupError("NameSelector.get_name replaces no character at all")
    # an order in which applying the entries one after the other equals the simultaneous substitution: an entry whose
    # image contains the key of another entry comes after that one
    keys = list(eff)
    order: list[str] = []
    while keys:
        free = [k for k in keys if not any(o != k and o in eff[k] for o in keys)]
        if not free:
            raise LookupError("NameSelector.get_name: the replacement texts contain each other's keys (not modelled)")
        order += free
        keys = [k for k in keys if k not in free]
    table = [(k, eff[k]) for k in order]

    def seq(name: str) -> str:
        n = name.lower()
        for k, r in table:
            n = n.replace(k, r)
        return n

    # the table must reproduce the real function on words, not only on single characters
    specials = "".join(eff) + "aZ_.~("
    words = [a + b + c for a in specials for b in specials for c in specials]
    words += ["".join(eff) * 2, "".join(reversed(list(eff))), "x" + "".join(eff) + "y"]
    for w in words:
        exp = seq(w)
        if real(w) != (exp if exp else "__unnamed__"):
            raise LookupError(f"NameSelector.get_name({w!r}) = {real(w)!r}, the probed per-character table gives {exp!r}")
    return table


def probe_graph_links() -> bool:
    """does the code refuse to let graphviz write through a symbolic link left in the graph directory?"""
    from . import c19

    common.import_ford()
    import ford.graphs as fg

    if not getattr(fg, "graphviz_installed", False):
        # no graph file is ever written then (the model gets no graph names either); the constant is read from the
        # source, by meaning: a link test in `create_svg` or in a function of the module it calls, transitively
        import ast

        from translate import c19 as tr

        tree = ast.parse(Path(fg.__file__).read_text())
        mod = tr._Module(tree)
        start = mod.method("FortranGraph", "create_svg")
        if start is None:
            raise LookupError("graph probe: graphviz is not installed and FortranGraph.create_svg was not found")
        return any(isinstance(n, ast.Call) and isinstance(n.func, ast.Attribute) and n.func.attr in ("is_symlink", "islink")
                   for _c, fn in mod.reachable("FortranGraph", start) for n in ast.walk(fn))
    import graphviz

    c19.install_hook()
    with common.scratch_dir("ford-c19-probe-") as base:
        sb = Path(os.path.realpath(base)) / "x"
        res = {}
        for case in ("plain", "svg", "src"):
            G = sb / case / "graphs"
            G.mkdir(parents=True)
            victim = sb / case / "victim.svg"
            victim.write_text("precious\n")
            name = "zq~~probe~~Graph"
            if case == "svg":
                os.symlink(str(victim), G / (name + ".svg"))
            elif case == "src":
                os.symlink(str(victim), G / name)
            g = fg.FortranGraph.__new__(fg.FortranGraph)
            g.dot = graphviz.Digraph("probe", format="svg")
            g.dot.node("a")
            g.dot.node("b")
            g.dot.edge("a", "b")
            g.imgfile = name
            g.added = {1, 2}
            g.root = [1]
            g.ident = "probe"
            rec = _recorder(sb)
            try:
                with common.quiet():
                    c19._STATE["rec"] = rec
                    g.create_svg(G)
            except Exception as e:  # noqa
                raise LookupError(f"graph probe: FortranGraph.create_svg could not be driven on a stub graph ({type(e).__name__}: {e})")
            finally:
                c19._STATE["rec"] = None
            res[case] = {"victim_intact": victim.read_text() == "precious\n",
                         "wrote": sorted(os.listdir(G)), "events": [e[:2] for e in rec.log]}
        if not any(n.endswith(".svg") for n in res["plain"]["wrote"]):
            raise LookupError(f"graph probe: a graph in an empty directory produced {res['plain']['wrote']}")
        svg, src = res["svg"]["victim_intact"], res["src"]["victim_intact"]
        if svg != src:
            raise LookupError(f"graph probe: links are refused under one of the two names only (svg: {svg}, source: {src}; not modelled)")
        return svg


def find_sources(proj: Path, out_raw: str, src_raw: list[str], exclude_dir: list[str] | None = None) -> tuple[list[str], object]:
    """The real source search (`ProjectSettings` -> `parse_arguments` -> `find_all_files`) for a project directory that
    exists on disk; returns (sorted file paths, normalised settings).  ValueError of the refusal is passed on."""
    ford = common.import_ford()
    import ford.fortran_project as fp
    from ford.settings import ProjectSettings

    kw = {"src_dir": list(src_raw), "output_dir": out_raw, "preprocess": False, "parallel": 0}
    if exclude_dir:
        kw["exclude_dir"] = list(exclude_dir)
    cwd = os.getcwd()
    try:
        with common.quiet():
            ps = ProjectSettings(**kw)
            ps, _docs = ford.parse_arguments({}, "", ps, proj)
            files = fp.find_all_files(ps)
    finally:
        os.chdir(cwd)
    return sorted(str(f) for f in files), ps


def probe_exclude_output() -> bool:
    """excludeOutputByPath: are the files of an earlier run's output directory that lies below a source directory
    dropped by the source search *whatever the directories are called*?  Control: with plain names they must be dropped
    (otherwise the exclusion is not what the model describes: LookupError)."""
    res = {}
    with common.scratch_dir("ford-c19-probe-") as base:
        for tag, name in (("plain", "wq"), ("bracket", "wq [v2]"), ("star", "wq*x?")):
            proj = Path(os.path.realpath(base)) / name / "proj"
            (proj / "src" / "doc" / "src").mkdir(parents=True)
            (proj / "src" / "a.f90").write_text("module m\nend module m\n")
            (proj / "src" / "doc" / "src" / "old.f90").write_text("module shadow\nend module shadow\n")
            (proj / "src" / "docs").mkdir()
            (proj / "src" / "docs" / "near.f90").write_text("module near\nend module near\n")
            files, _ps = find_sources(proj, "./src/doc", ["./src"])
            rel = sorted(os.path.relpath(f, proj) for f in files)
            if "src/a.f90" not in rel or "src/docs/near.f90" not in rel or len(rel) > 3:
                raise LookupError(f"exclusion probe ({tag}): the source search returned {rel} (not modelled)")
            res[tag] = "src/doc/src/old.f90" not in rel
    if not res["plain"] or not res["star"]:
        raise LookupError(f"exclusion probe: the output directory is not excluded from the source search under a plain name / "
                          f"a name with `*` and `?` ({res}; not modelled)")
    return res["bracket"]


def run_all() -> dict:
    w = probe_writeout()
    kw = probe_copytree()
    return {"wipeWholeTree": w["wipeWholeTree"], "wipeFailureFatal": probe_wipe_failure(), "outDirs": w["outDirs"],
            "libDirs": w["libDirs"], "copytree": kw, "symbolReplacements": probe_symbols(),
            "graphSkipsLinks": probe_graph_links(), "excludeOutputByPath": probe_exclude_output(),
            "observed": w["observed"]}


if __name__ == "__main__":
    import json
    import time

    t = time.time()
    print(json.dumps(run_all(), indent=1, default=str))
    print("seconds", round(time.time() - t, 2))
