/-
  C07 - type-bound procedures: which table the names on a binding statement are looked up in
  (`FortranBoundProcedure.correlate`), and the specifics of GENERIC bindings, which are names of
  bindings of the type - own or inherited (`FortranType.correlate`).

  `FortranBoundProcedure.correlate`, as the code is:
      if self.generic:       bindings[i] = {bindings of the type by name}[name]     (KeyError suppressed)
      elif not self.deferred: bindings[i] = self.all_procs[name]                     (KeyError suppressed)
  so the name of a deferred binding is looked up nowhere (`BindTable.nowhere`; slot kind `SK.bn`),
  the target of a specific binding in the procedures of the scope (slot kind `SK.pr`, resolved by
  `corr`), the specifics of a generic binding in `boundprocs` of the type.

  `FortranType.correlate` (types are correlated parents first): `boundprocs` becomes
  `inherited ++ own`, where `inherited` = the parent's `boundprocs` that no own binding overrides;
  an inherited GENERIC binding is a `copy.copy` of the parent's object - a shallow copy, whose
  `bindings` list IS the parent's list (`Variant`-like switch `shared`): when the extension then
  correlates its generic bindings, the specifics of the inherited copy are looked up again, in the
  extension's table, and written into the list the parent's generic binding still holds.  With
  `shared = false` (fixes/C07-inherited-generic-own-list.diff) the copy has a list of its own.

  A list cell is identified by the id of the reference slot that reads it.  No imports outside
  FordModel (linked into the driver).
-/
import FordModel.Scope
namespace Ford.Scope
open Ford

/-- where `FortranBoundProcedure.correlate` looks the names of a binding statement up -/
inductive BindTable | scopeProcs | typeBindings | nowhere
  deriving DecidableEq, Repr

/-- the if / elif chain of `FortranBoundProcedure.correlate` -/
def bindTableOf (generic deferred : Bool) : BindTable :=
  if generic then .typeBindings else if !deferred then .scopeProcs else .nowhere

/-- the slot kind a name on a non-generic binding statement is resolved with -/
def bindSlotKind (deferred : Bool) : SK := if deferred then .bn else .pr

/-- the type-bound part of a derived type as far as generic bindings are concerned -/
structure TypeRec where
  ent : Ent                 -- the type
  parent : Option Ent       -- what its `extends` slot holds after resolution (the parent type)
  own : Table               -- its own specific bindings (deferred ones included): name -> binding
  gens : List (Nat × Str)   -- the specifics of its own generic bindings: (slot id, name)
  privs : List Ent          -- those of its own bindings that are PRIVATE
  deriving Repr

/-- what `FortranType.correlate` leaves behind for the types that extend this one -/
structure TState where
  table : Table             -- `boundprocs` by name: own bindings over the inherited ones
  cells : List (Nat × Str)  -- the list cells of all generic bindings in `boundprocs` (own and inherited copies)
  privs : List Ent          -- the PRIVATE bindings among `boundprocs`
  deriving Repr

abbrev TStore := List (Ent × TState)

def storeGet : TStore → Ent → Option TState
  | [], _ => none
  | (k, s) :: r, e => if k = e then some s else storeGet r e

/-- write log of the list cells (slot id, binding stored), head = most recent write -/
abbrev Cells := List (Nat × Ent)

def cellGet : Cells → Nat → Option Ent
  | [], _ => none
  | (k, e) :: r, i => if k = i then some e else cellGet r i

/-- the parent's state, if the `extends` slot holds a type that has been correlated -/
def parentState (st : TStore) (r : TypeRec) : Option TState :=
  match r.parent with
  | some p => storeGet st p
  | none => none

def stateTable : Option TState → Table
  | some s => s.table
  | none => []

def stateCells : Option TState → List (Nat × Str)
  | some s => s.cells
  | none => []

def statePrivs : Option TState → List Ent
  | some s => s.privs
  | none => []

/-- what an extension takes over of its parent's `boundprocs` (`for bp in self.extends.boundprocs`):
    with `dropPrivate` (the code as found: `if bp.permission == "private": continue`) the PRIVATE
    bindings are left out - of the dict `boundprocs` stands for, so that a binding they override does
    not reappear; a table without PRIVATE bindings is taken as it is -/
def inheritTable (dropPrivate : Bool) (privs : List Ent) (tb : Table) : Table :=
  if dropPrivate && !privs.isEmpty then (dictItems tb).filter (fun ke => !(privs.contains ke.2)) else tb

/-- the writes `proc.correlate` of the generic bindings performs: every cell whose name is a
    binding of the type receives that binding (`with suppress(KeyError)`) -/
def cellWrites (tab : Table) : List (Nat × Str) → Cells
  | [] => []
  | c :: cs => match tget tab (lower c.2) with
    | some e => (c.1, e) :: cellWrites tab cs
    | none => cellWrites tab cs

/-- `FortranType.correlate` of one type, as far as `boundprocs` is concerned -/
def stepType (shared : Bool) (st : TStore) (cells : Cells) (r : TypeRec) : TStore × Cells :=
  let ps := parentState st r
  let tab := r.own ++ stateTable ps
  let mine := if shared then r.gens ++ stateCells ps else r.gens
  ((r.ent, ⟨tab, r.gens ++ stateCells ps, r.privs ++ statePrivs ps⟩) :: st, cellWrites tab mine ++ cells)

/-- `FortranType.correlate` with the treatment of PRIVATE bindings as a switch: `dropPrivate = true` is
    the code as found, `false` inherits every binding (fixes/C07-inherit-private-bindings.diff) and is
    `stepType` -/
def stepTypeD (dropPrivate shared : Bool) (st : TStore) (cells : Cells) (r : TypeRec) : TStore × Cells :=
  let ps := parentState st r
  let tab := r.own ++ inheritTable dropPrivate (statePrivs ps) (stateTable ps)
  let mine := if shared then r.gens ++ stateCells ps else r.gens
  ((r.ent, ⟨tab, r.gens ++ stateCells ps, r.privs ++ statePrivs ps⟩) :: st, cellWrites tab mine ++ cells)

/-- all types in the order of their correlation -/
def runTypes (shared : Bool) : TStore → Cells → List TypeRec → Cells
  | _, cells, [] => cells
  | st, cells, r :: rest =>
    runTypes shared (stepType shared st cells r).1 (stepType shared st cells r).2 rest

/-- final content of the cells of the generic bindings each type declares (`none` = still the name) -/
def genericRes (shared : Bool) (rs : List TypeRec) : List (Nat × Option Ent) :=
  rs.flatMap fun r => r.gens.map fun c => (c.1, cellGet (runTypes shared [] [] rs) c.1)

def runTypesD (dropPrivate shared : Bool) : TStore → Cells → List TypeRec → Cells
  | _, cells, [] => cells
  | st, cells, r :: rest =>
    runTypesD dropPrivate shared (stepTypeD dropPrivate shared st cells r).1
      (stepTypeD dropPrivate shared st cells r).2 rest

def genericResD (dropPrivate shared : Bool) (rs : List TypeRec) : List (Nat × Option Ent) :=
  rs.flatMap fun r => r.gens.map fun c => (c.1, cellGet (runTypesD dropPrivate shared [] [] rs) c.1)

/-! ### specification -/

/-- own binding tables along the chain of parent types, nearest first; `earlier` = the types
    declared (correlated) before, most recent first -/
def ancestorTables : List TypeRec → Option Ent → List Table
  | _, none => []
  | [], some _ => []
  | r :: rest, some e =>
    if r.ent = e then r.own :: ancestorTables rest r.parent else ancestorTables rest (some e)

def firstGet : List Table → Str → Option Ent
  | [], _ => none
  | t :: r, n => match tget t n with
    | some e => some e
    | none => firstGet r n

/-- Fortran: a specific of a generic binding is the name of a binding of the type: the type's own
    binding of that name, else the binding inherited from the nearest ancestor that declares one
    (F2018 7.5.7.2: an extended type inherits the bindings of its parent unless it overrides them);
    no procedure of the enclosing scope is ever meant. -/
def specGeneric (earlier : List TypeRec) (r : TypeRec) (n : Str) : Option Ent :=
  firstGet (r.own :: ancestorTables earlier r.parent) (lower n)

def specGenericRes : List TypeRec → List TypeRec → List (Nat × Option Ent)
  | _, [] => []
  | earlier, r :: rest =>
    (r.gens.map fun c => (c.1, specGeneric earlier r c.2)) ++ specGenericRes (r :: earlier) rest

/-- `d.get` on the slot contents `corr` returns -/
def resGet : Res → Nat → Option Ent
  | [], _ => none
  | (s, o) :: r, i => if s.id = i then o else resGet r i

end Ford.Scope
