/-
  C07 - accessibility as far as name resolution depends on it: which of a module's entities a USE
  statement can see (`pub_procs` / `pub_types` / `pub_absints`), as the code builds those tables.

  * every entity is constructed with the accessibility its declaration carries (`type, private :: t`)
    or else with the module's default (`FortranBase.__init__`: `inherited_permission`; the abstract
    modules have their bare `private` statement, if any, in front of every declaration);
  * `process_attribs`: every access keyword filed under the entity's lower-cased name in `attr_dict`
    is assigned in source order - the last one stays (`lastPerm`); `public_list` = the names of the
    declared entities that are public at that moment + every name of a `public ::` statement that
    names no declared entity (what is left in `attr_dict`);
  * `FortranCodeUnit._cleanup`: `all_procs` = routines, then interfaces; then, for every derived type,
    the generic interface `all_procs` holds under the type's name (its user-defined constructor) gets
    the type's accessibility (`AVariant.syncBeforeExports`; `false` = the step runs after the public
    tables were derived - the state of the code before 18c7094);
  * `FortranModule._cleanup`: `pub_* = filter_public(...)`;
  * `FortranCodeUnit.correlate` of a module: what a USE statement of the module itself brings in is
    added to the public tables if `self.permission == "public" or name in self.public_list`
    (`pub_*.update(filter_public(...))`), and to the module's own tables in any case.

  Tables are association lists, head = most recent write (as in Scope.lean).  The declared names of
  one kind are distinct in the abstract modules (two entities of one kind and name are not Fortran).
  No imports outside FordModel (linked into the driver).
-/
import FordModel.Scope
namespace Ford.ScopeAccess
open Ford Ford.Scope

inductive Perm | pub | priv
  deriving DecidableEq, Repr

/-- kind of a module-level declaration: derived type, procedure (function / subroutine), generic or
    specific (non-abstract) interface block, abstract interface -/
inductive DK | ty | pr | gi | ab
  deriving DecidableEq, Repr

structure ADecl where
  kind : DK
  name : Str
  ent : Ent
  /-- access attribute on the declaration itself (`type, private :: t`) -/
  attr : Option Perm
  deriving DecidableEq, Repr

structure AModule where
  name : Str
  /-- `private` iff the module has a bare PRIVATE statement -/
  dflt : Perm
  /-- access statements, flattened: (keyword, name as written), in source order -/
  stmts : List (Perm × Str)
  uses : List Use
  decls : List ADecl
  slots : List Slot
  deriving Repr

structure AVariant where
  /-- the constructor interface gets its type's accessibility before `pub_procs` is derived -/
  syncBeforeExports : Bool
  deriving DecidableEq, Repr

def asBuilt : AVariant := ⟨true⟩
def syncLate : AVariant := ⟨false⟩

/-- `for attr in attr_dict[name]: if attr in [...]: item.permission = attr` - the last keyword stays -/
def lastPerm : List (Perm × Str) → Str → Option Perm
  | [], _ => none
  | (p, k) :: r, n =>
    match lastPerm r n with
    | some q => some q
    | none => if lower k = n then some p else none

/-- accessibility of an entity after `process_attribs` -/
def declPerm (m : AModule) (d : ADecl) : Perm :=
  (lastPerm m.stmts (lower d.name)).getD (d.attr.getD m.dflt)

/-- the derived type filed last under the name `n` -/
def typeNamed : List ADecl → Str → Option ADecl
  | [], _ => none
  | d :: r, n =>
    match typeNamed r n with
    | some t => some t
    | none => if d.kind = .ty ∧ lower d.name = n then some d else none

/-- accessibility of an entity at the moment the public tables are derived -/
def finalPerm (v : AVariant) (m : AModule) (d : ADecl) : Perm :=
  if v.syncBeforeExports = true ∧ d.kind = .gi then
    match typeNamed m.decls (lower d.name) with
    | some t => declPerm m t
    | none => declPerm m d
  else declPerm m d

/-- the public entities of one kind, most recent write first (`filter_public`) -/
def localPubK (v : AVariant) (m : AModule) (k : DK) : List ADecl → Table
  | [] => []
  | d :: r =>
    if d.kind = k ∧ finalPerm v m d = .pub then localPubK v m k r ++ [(lower d.name, d.ent)]
    else localPubK v m k r

/-- all entities of one kind (the module's own `all_*` tables) -/
def localAllK (k : DK) : List ADecl → Table
  | [] => []
  | d :: r => if d.kind = k then localAllK k r ++ [(lower d.name, d.ent)] else localAllK k r

def declared (ds : List ADecl) (n : Str) : Bool := ds.any fun d => lower d.name == n

/-- `public_list` of `process_attribs` -/
def publicList (m : AModule) : List Str :=
  ((m.decls.filter fun d => declPerm m d = .pub).map fun d => lower d.name) ++
    ((m.stmts.filter fun s => s.1 = .pub ∧ declared m.decls (lower s.2) = false).map fun s => lower s.2)

/-- `should_be_public(name)` of `FortranCodeUnit.correlate` -/
def shouldBePublic (m : AModule) (n : Str) : Bool :=
  decide (m.dflt = .pub) || (publicList m).contains n

/-- `{name: obj for name, obj in collection.items() if should_be_public(name)}` (write log) -/
def filterTable (f : Str → Bool) : Table → Table
  | [] => []
  | (k, e) :: r => if f k then (k, e) :: filterTable f r else filterTable f r

/-- `pub_*.update(filter_public(...))` for every USE statement of the module, in order -/
def reexports (m : AModule) (env : ModEnv) : List Use → Exports → Exports
  | [], ex => ex
  | u :: us, ex =>
    match findMod env (lower u.mod) with
    | none => reexports m env us ex
    | some x =>
      reexports m env us
        ⟨filterTable (shouldBePublic m) (importTable x.p u) ++ ex.p,
         filterTable (shouldBePublic m) (importTable x.a u) ++ ex.a,
         filterTable (shouldBePublic m) (importTable x.t u) ++ ex.t⟩

/-- the public tables of a module as USE sees them -/
def exportsA (v : AVariant) (env : ModEnv) (m : AModule) : Exports :=
  reexports m env m.uses
    ⟨localPubK v m .gi m.decls ++ localPubK v m .pr m.decls, localPubK v m .ab m.decls, localPubK v m .ty m.decls⟩

/-- the module's own name tables (local declarations, then `update` per USE statement) -/
def tabsA (env : ModEnv) (m : AModule) : Tabs :=
  applyUses env m.uses ⟨localAllK .gi m.decls ++ localAllK .pr m.decls, localAllK .ab m.decls, localAllK .ty m.decls⟩

def resolveA (env : ModEnv) (m : AModule) : Res :=
  m.slots.map fun s => (s, lookupSlot (tabsA env m) s)

/-- `Project.correlate` over modules in dependency order -/
def corrProjectA (v : AVariant) : ModEnv → List AModule → Res
  | _, [] => []
  | env, m :: ms => resolveA env m ++ corrProjectA v ((lower m.name, exportsA v env m) :: env) ms

/-- the public tables of every module, in project order (observable: `pub_procs`, `pub_absints`, `pub_types`) -/
def exportsProjectA (v : AVariant) : ModEnv → List AModule → List Exports
  | _, [] => []
  | env, m :: ms => exportsA v env m :: exportsProjectA v ((lower m.name, exportsA v env m) :: env) ms

/-! ### specification: Fortran's accessibility of an identifier of a module -/

/-- the access statement that names `n` (Fortran allows at most one) -/
def firstPerm : List (Perm × Str) → Str → Option Perm
  | [], _ => none
  | (p, k) :: r, n => if lower k = n then some p else firstPerm r n

/-- accessibility of the identifier `n` in module `m`: the access statement that names it, else the
    access attribute of the declaration of the derived type `n` (a type and the generic of its name
    are one identifier), else the module's default -/
def accOf (m : AModule) (n : Str) : Perm :=
  match firstPerm m.stmts n with
  | some p => p
  | none => ((typeNamed m.decls n).bind (·.attr)).getD m.dflt

/-- every identifier is named by at most one access statement -/
def stmtsOnce : List (Perm × Str) → Bool
  | [] => true
  | (_, k) :: r => (firstPerm r (lower k)).isNone && stmtsOnce r

/-- the identifier `n` is accessible to a scope that USEs `m` only if it is public there -/
def accessible (m : AModule) (n : Str) : Bool := decide (accOf m n = .pub)

/-- what USE sees of a module by Fortran's rules: the identifiers visible at its top level (declared
    or use-associated) that are PUBLIC there -/
def specExportsA (env : ModEnv) (m : AModule) : Exports :=
  let tb := tabsA env m
  ⟨filterTable (accessible m) tb.p, filterTable (accessible m) tb.a, filterTable (accessible m) tb.t⟩

/-- every module resolved against the specification's exports of the modules before it -/
def specProjectA : ModEnv → List AModule → Res
  | _, [] => []
  | env, m :: ms => resolveA env m ++ specProjectA ((lower m.name, specExportsA env m) :: env) ms

/-- a PRIVATE statement names declared identifiers only (hiding a use-associated identifier by an
    access statement is outside this model's input space: C06-private-imported-reexported) -/
def privatesDeclared (m : AModule) : Bool :=
  m.stmts.all fun s => decide (s.1 = .pub) || declared m.decls (lower s.2)

/-! ### the witness table of the translator (Generated/C07.lean: `accessWitness`) as modules -/

def dkOfS (s : String) : DK :=
  if s = "t" then .ty else if s = "g" then .gi else if s = "a" then .ab else .pr
def attrOfS (s : String) : Option Perm :=
  if s = "private" then some .priv else if s = "public" then some .pub else none
def skOfS (s : String) : SK := if s = "ty" then .ty else if s = "pa" then .pa else .pr

def ofProbe (w : Str × Bool × List (Bool × Str) × List Str × List (String × Str × Nat × String) ×
    List (Nat × String × Str)) : AModule :=
  ⟨w.1, if w.2.1 then .priv else .pub,
   w.2.2.1.map (fun s => (if s.1 then Perm.priv else Perm.pub, s.2)),
   w.2.2.2.1.map (fun u => ⟨u, false, []⟩),
   w.2.2.2.2.1.map (fun d => ⟨dkOfS d.1, d.2.1, d.2.2.1, attrOfS d.2.2.2⟩),
   w.2.2.2.2.2.map (fun r => ⟨r.1, skOfS r.2.1, .early, r.2.2⟩)⟩

def tableOf (x : Exports) (tag : String) : Table :=
  if tag = "p" then x.p else if tag = "a" then x.a else x.t

/-- do the public tables `xs` (one per module) answer the probed lookups -/
def exportsAnswer (xs : List Exports) (probe : List (Nat × String × Str × Option Nat)) : Bool :=
  probe.all fun q => match xs[q.1]? with
    | some x => tget (tableOf x q.2.1) q.2.2.1 == q.2.2.2
    | none => false

end Ford.ScopeAccess
