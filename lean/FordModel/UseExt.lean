/-
  Model of USE association THROUGH THE EXPORT TABLES OF AN EXTERNAL FORD PROJECT (property C06), as
  the code is.  Two steps:

  1. project A is documented with `externalize: true`: `external_project.dump_modules` writes, for every
     module, `obj2dict(module)`; its four export tables `pub_procs / pub_absints / pub_types / pub_vars`
     become JSON objects `{local name: obj2dict(entity)}` where `obj2dict(entity)` is `None` for an entity
     that A itself obtained from another external project (`hasattr(intObj, "external_url")`) and
     otherwise the description of the entity: its OWN name and the URL of its page         -> `dumpTable`
  2. project B lists A under `external:`; `load_external_modules` / `dict2obj` builds one `ExternalModule`
     per entry whose tables are `{key2: dict2obj(item) for key2, item in table.items() if item}`: one
     object per ENTRY, made from the entry's item, stored under the entry's KEY (the local name under which
     the module exports the entity - not the entity's own name)                             -> `loadTable`
     The loaded modules are appended to `project.extModules` AFTER the empty stubs of `settings.extra_mods`
     (`Project.correlate`), `find_used_modules` scans `chain(modules, extModules)` and stops at the first
     candidate of that (lower-cased) name                                                   -> `bindUseX`
     and `FortranCodeUnit.correlate` calls the very same `get_used_entities` on the `ExternalModule`
     (a subclass of `FortranModule`), i.e. `getUsed u x.pub`.  An external module is never correlated
     itself (`ranklist` holds project containers only): its tables are frozen                -> `runX`

  An entity is identified by the URL of its page in A's documentation, which `get_url` derives from the
  entity (module, name, kind) injectively; the model keeps `Ent = (defining module, declared name)`.
-/
import FordModel.UseBind
namespace Ford.Use
open Ford

/-- one export table as it stands in modules.json: local name -> description of the entity (`none` =
    JSON `null`, what `obj2dict` returns for an entity that already is external in the exporting project) -/
abbrev JTable := AList (Option Ent)

/-- `{key: obj2dict(val) for key, val in attribute.items()}`; `ext` = the entities with an `external_url` -/
def dumpTable (ext : List Ent) (t : Table) : JTable :=
  t.map (fun p => (p.1, if ext.contains p.2 then none else some p.2))

/-- `{key2: dict2obj(project, item, ...) for key2, item in extDict[key].items() if item}` -/
def loadTable (j : JTable) : Table :=
  j.filterMap (fun p => p.2.map (fun e => (p.1, e)))

/-- an `ExternalModule` built by `dict2obj`, restricted to the tables of one kind -/
structure Loaded where
  name : Str
  pub : Table
  deriving Repr

/-- `dump_modules`: `[obj2dict(module) for module in project.modules]`, for the kind-`k` run `st` -/
def externalize (ext : List Ent) (g : List Scope) (st : State) : List (Str × JTable) :=
  (g.filter (·.isMod)).map (fun m => (m.name, dumpTable ext (getTabs st m.name).pub))

/-- `load_external_modules`: `for extModule in extModules: dict2obj(project, extModule, url)` -/
def loadModules (j : List (Str × JTable)) : List Loaded :=
  j.map (fun p => { name := p.1, pub := loadTable p.2 })

/-- what stands in the graph for an `ExternalModule`: a module without declarations and USE statements
    (it is never correlated; its tables come from `seed`) -/
def frozenScope (n : Str) : Scope :=
  { name := n, isMod := true, defPub := true, pubNames := [], privNames := [], decls := [], uses := [] }

/-- `project.extModules` when `find_used_modules` runs: the stubs of `extra_mods` first, then what was loaded -/
def extChain (stubs : List ExtMod) (xs : List Loaded) : List ExtMod :=
  stubs ++ xs.map (fun x => { name := x.name })

/-- one USE statement of B after `find_used_modules`: bound to a module of B, to a loaded module of A, or
    (first candidate of that name is an empty stub / no candidate) importing nothing -/
def bindUseX (g : List Scope) (stubs : List ExtMod) (xs : List Loaded) (u : UseA) : Option UseA :=
  match bindName g (extChain stubs xs) u.mod with
  | .project m => some { u with mod := m.name }
  | .external e => if stubs.any (fun s => lower s.name == lower u.mod) then none else some { u with mod := e.name }
  | .unbound => none

def bindScopeX (g : List Scope) (stubs : List ExtMod) (xs : List Loaded) (s : Scope) : Scope :=
  { s with uses := s.uses.filterMap (bindUseX g stubs xs) }

/-- project B after `find_used_modules`, followed by the loaded modules -/
def bindGX (g : List Scope) (stubs : List ExtMod) (xs : List Loaded) : List Scope :=
  g.map (bindScopeX g stubs xs) ++ xs.map (fun x => frozenScope x.name)

def bindNsX (g : List Scope) (stubs : List ExtMod) (xs : List Loaded) (ns : List Nested) : List Nested :=
  ns.map (fun x => { x with scope := bindScopeX g stubs xs x.scope })

/-- the tables of the loaded modules (of two loaded modules with one name the first is the one the scan
    of `find_used_modules` meets) -/
def seed (xs : List Loaded) (st : State) : State :=
  xs.foldr (fun x st => aset st x.name { pub := x.pub, all := [] }) st

/-- the ranklist loop from a given state -/
def runFrom (k : Nat) (g : List Scope) (ns : List Nested) (order : List Str) (st : State) : State :=
  order.foldl (stepN g ns k) st

/-- `Project.correlate` of B: stubs, `load_external_modules`, `find_used_modules`, ranklist loop -/
def runX (k : Nat) (g : List Scope) (stubs : List ExtMod) (xs : List Loaded) (ns : List Nested)
    (order : List Str) : State :=
  let g' := bindGX g stubs xs
  runFrom k g' (bindNsX g stubs xs ns) order (seed xs (init k g'))

/-- both steps: A is correlated in `oA`, externalized (none of its entities is external itself), and B is
    correlated in `oB` against what it loads -/
def twoStep (k : Nat) (gA : List Scope) (oA : List Str) (gB : List Scope) (stubs : List ExtMod)
    (oB : List Str) : State :=
  let gA' := bindG gA stubs
  runX k gB stubs (loadModules (externalize [] gA' (run k gA' oA))) [] oB

end Ford.Use
