/-
  What the models of property C01 answer on a probe, in the shape in which translate/c01.py records what the
  real code did on the same probe (Generated/C01.lean): the tables of round 5 are no longer the *text* of the
  mirrored statements but the *behaviour* of the real functions on a fixed set of inputs, so that a rewrite of the
  code that keeps its meaning (a helper extracted, locals renamed, `str.partition` instead of `index` +
  `try`, a regular expression laid out with re.VERBOSE) leaves the tables - and the kernel-checked theorems
  `…_as_modelled` of Props/C01.lean that compare them with the models - unchanged, while a rewrite that changes
  what the code does on a probe changes a table.
-/
import FordModel.Mask
import FordModel.Attribs
import FordModel.TypeHead
import FordModel.Entity
import FordModel.TypeSpec
namespace Ford.C01Obs
open Ford

/-- the exception class the real code raises -/
def maskErr : Mask.Err → Str
  | .valueErr => (chars! "ValueError")
  | .indexErr => (chars! "IndexError")
  | .attrErr => (chars! "AttributeError")
  | .fuel => (chars! "fuel")
  | .unmodelled => (chars! "unmodelled")

/-- the masking loop of `FortranContainer.__init__` on one statement: `ok`, the masked line, `self.strings` -/
def maskObs (line : Str) : List Str :=
  match Mask.mask line with
  | .ok (m, strs) => (chars! "ok") :: m :: strs
  | .error e => [(chars! "err"), maskErr e]

/-- the restoring loop of `line_to_variables` on an initial value and `parent.strings` -/
def restoreObs (text : Str) (strs : List Str) : List Str :=
  match Mask.restore Mask.nbsp text strs with
  | .ok r => [(chars! "ok"), r]
  | .error e => [(chars! "err"), maskErr e]

/-- the variables of a unit after `_cleanup` (`ok`) or the exception class -/
def attrsObs (cfg : Attribs.Cfg) (blockData : Bool) (inherit : Str) (stmts : List Attribs.Stmt) : Str × List Attribs.Var :=
  match Attribs.run cfg blockData inherit stmts with
  | .ok vs => ((chars! "ok"), vs)
  | .error .indexError => ((chars! "IndexError"), [])

/-- `get_parens` stops at this character at nesting level 0 -/
def stopsAt (c : Char) : Bool := TypeSpec.isStop c

end Ford.C01Obs
