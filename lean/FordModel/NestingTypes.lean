/-
  Vocabulary shared by the generated tables (Generated/C20.lean) and the model of
  FortranContainer.__init__ (Nesting.lean).
-/
import FordModel.Basic.Chars
namespace Ford

/-- container kinds = the classes that run the statement loop of `FortranContainer.__init__` -/
inductive CK
  | file | module | submodule | program | subroutine | function | modproc
  | type | interface | enum | blockdata
  deriving DecidableEq, Repr

/-- attributes tested with `hasattr(self, …)` in the cascade -/
inductive Attr
  | attr_dict | blockdata | modules | submodules | programs | subroutines | namelists
  | functions | types | interfaces | enums | boundprocs | common | finalprocs
  | variables | uses | calls
  deriving DecidableEq, Repr

/-- branches of the if/elif cascade (one per recogniser) -/
inductive Branch
  | contains | perm | sequence | format | attrib | end_ | modproc | blockdata | block
  | associate | module | submodule | program | subroutine | namelist | function
  | type | interface | enum | boundproc | common | final | variable | use | arithgoto | call
  deriving DecidableEq, Repr

/-- extra condition and-ed to the recogniser of a branch -/
inductive Guard
  | always | block0 | incontains | modprocGuard
  deriving DecidableEq, Repr

/-- what the real reader was seen to do on a probe file (Generated/C20.lean, `eofProbes`) -/
inductive ProbeObs
  | items (xs : List Str)   -- it yielded these logical lines and stopped
  | raised                  -- it raised
  | hung                    -- it did not come back within the watchdog time
  deriving DecidableEq, Repr

end Ford
