/-
  C19 - the static-page tree as a function of the *input* (what lies on disk and what the
  pages' metadata says), as the code computes it:

    ford/pagetree.py   get_page_tree   (index.md, `ordered_subpage` entries merged with the sorted
                                        directory listing, `.`/`~` names skipped, `topdir / name`,
                                        exists / is_dir / `.md` / other file)
                       PageNode.__init__ (`location = os.path.relpath(path.parent, topdir)`,
                                        `filename = Path(path.stem)`, `copy_subdir` own or project-level)
    ford/output.py     PagetreePage     (`path = location / filename.with_suffix(".html")`,
                                        `shutil.copy(from_path / item, to_path)` for `files`)

  An `ordered_subpage` entry is user input: any path string (nested `a/b`, with `..`, absolute).
  `topdir / name` is pathlib's join (components appended, an absolute `name` replaces the left side,
  `..` is kept); whether it exists is decided by the OS, component by component through symbolic
  links (`walkPhys`); the page's place in the output is decided *lexically* (`relpath`, which
  normalises with `normpath` and follows no link).  `Cfg.subGuard` is the variant in which
  `get_page_tree` skips an entry whose `os.path.relpath(filename, topdir)` is `.` or starts with `..`
  (fixes/C19-ordered-subpage-escape.diff).
-/
import FordModel.Fs
import FordModel.TypeSpec
namespace Ford.Fs
open Ford

/-! ### path strings -/

/-- pathlib's parsing of a path string: empty and `.` components are dropped, `..` is kept -/
def pathlibSegs (s : Str) : List Seg := (splitSlash s).filter (fun x => x ≠ [] ∧ x ≠ dot)

def isAbs (s : Str) : Bool := s.head? == some '/'

/-- `topdir / name` (components of an absolute path) -/
def joinLex (base : List Seg) (name : Str) : List Seg :=
  if isAbs name then pathlibSegs name else base ++ pathlibSegs name

def commonLen : List Seg → List Seg → Nat
  | a :: as, b :: bs => if a = b then commonLen as bs + 1 else 0
  | _, _ => 0

/-- `os.path.relpath(p, start)` for absolute `p`, `start`: both are normalised (`abspath`), the
    common leading components dropped, one `..` for every remaining component of `start`;
    `[]` is `.` -/
def relpath (p start : List Seg) : List Seg :=
  let p' := norm p
  let s' := norm start
  let i := commonLen p' s'
  List.replicate (s'.length - i) dotdot ++ p'.drop i

/-- the containment test of the repaired `get_page_tree`:
    `rel = os.path.relpath(filename, topdir)` is `.` or its first component is `..` -/
def relOutside (p start : List Seg) : Bool :=
  match relpath p start with
  | [] => true
  | s :: _ => s = dotdot

/-- length of `PurePath(name).suffix`: from the last `.`, unless that is the first or the last
    character -/
def suffixLen (s : Str) : Nat :=
  let k := (s.reverse.takeWhile (fun c => c != '.')).length
  if k < s.length ∧ 0 < k ∧ k + 1 < s.length then k + 1 else 0

def pyStem (s : Str) : Str := s.take (s.length - suffixLen s)

/-- `filename.suffix == ".md"` -/
def isMdName (s : Str) : Bool := s.drop (s.length - suffixLen s) == chars! ".md"

def indexMd : Str := chars! "index.md"

/-- the two `continue` tests on `name[0]` and `name[-1]` -/
def skipName (n : Str) : Bool := n.head? == some '.' || n.getLast? == some '~'

/-- `list(OrderedDict.fromkeys(l))` -/
def dedupStr : List Str → List Str
  | [] => []
  | x :: xs => x :: (dedupStr xs).filter (fun y => y != x)

/-- `mergedfilelist`: the user's `ordered_subpage` entries first, then the sorted listing -/
def mergedNames (ordered names : List Str) : List Str :=
  let fl := names.erase indexMd
  let ord := ordered.filter (fun x => x != indexMd)
  if ord.isEmpty then fl else dedupStr (ord ++ fl)

def joinSlash : List Seg → Str
  | [] => []
  | [x] => x
  | x :: y :: r => x ++ '/' :: joinSlash (y :: r)

/-! ### the input -/

/-- what the metadata of an `.md` file says, as far as the page tree depends on it -/
structure MdMeta where
  ok : Bool := true              -- a `PageNode` can be built from the file (readable, has a title)
  ordered : List Str := []       -- `ordered_subpage` entries, as written
  copy : List Str := []          -- `copy_subdir` items of the file's own metadata
  deriving Repr, DecidableEq

inductive FsNode
  | dir (names : List Str)       -- `sorted(os.listdir(..))`
  | file (md : Option MdMeta)    -- a regular file; its metadata when it parses as a page
  deriving Repr, DecidableEq

/-- the page directory and everything reachable from it: physical path ↦ what is there, the
    symbolic links (where ↦ physical target; anything, anywhere), the project-level `copy_subdir`
    (absolute after `normalise_paths`), and the listings of the directories named by `copy_subdir`
    items, by (location, item) -/
structure PageIn where
  pageDir : Path := []
  nodes : List (Path × FsNode) := []
  links : List (Path × Path) := []
  projCopy : List Str := []
  trees : List ((Str × Str) × Option Tree) := []
  deriving Repr

def isDirAt (pin : PageIn) (p : Path) : Bool :=
  match pin.nodes.lookup p with
  | some (.dir _) => true
  | _ => false

/-- the OS's resolution of the components `segs` from the physical directory `st` (reversed):
    every step needs a directory to step from, `..` goes to the physical parent, a symbolic link is
    replaced by what it points to -/
def walkPhys (pin : PageIn) : List Seg → List Seg → Option Path
  | st, [] => some st.reverse
  | st, s :: r =>
    if !isDirAt pin st.reverse then none
    else if s = dotdot then walkPhys pin st.tail r
    else match pin.links.lookup (s :: st).reverse with
      | some t => walkPhys pin t.reverse r
      | none => walkPhys pin (s :: st) r

/-- what `topdir / name` names on disk (`topdir` physically at `phys`), if it exists -/
def locate (pin : PageIn) (phys : Path) (name : Str) : Option (Path × FsNode) :=
  match walkPhys pin (if isAbs name then [] else phys.reverse) (pathlibSegs name) with
  | none => none
  | some p => (pin.nodes.lookup p).map (fun n => (p, n))

/-! ### get_page_tree -/

/-- a `PageNode`, as far as the write-out depends on it -/
structure PNode where
  loc : List Seg                 -- `location`
  name : Str                     -- last component of the file the node was built from
  copy : List Str                -- `copy_subdir` (own or project-level)
  files : List Str := []         -- `files`: the entries that are neither directories nor `.md` files
  deriving Repr, DecidableEq

inductive Ent
  | skip
  | pages (l : List PNode)
  | file (name : Str)

def entPages : Ent → List PNode
  | .pages l => l
  | _ => []

def entFile : Ent → List Str
  | .file n => [n]
  | _ => []

def nodeCopy (pin : PageIn) (m : MdMeta) : List Str := if m.copy.isEmpty then pin.projCopy else m.copy

/-- one name of the merged list, in `get_page_tree(topdir, parent)`; `lex` = `topdir` as the code
    holds it (components, `..` unresolved), `phys` = where that is, `pcopy` = the parent's own
    `copy_subdir` strings, `sub` = the recursive call -/
def entry (g : Bool) (pin : PageIn) (sub : List Seg → Path → List Str → List PNode)
    (lex : List Seg) (phys : Path) (pcopy own : List Str) (name : Str) : Ent :=
  if skipName name then .skip
  else
    let lex' := joinLex lex name
    if g && relOutside lex' lex then .skip               -- repaired variant only
    else match locate pin phys name with
      | none => .skip                                     -- `if not filename.exists()`
      | some (p, .dir _) =>
        if pcopy.contains name then .skip                 -- `if parent and name in parent.copy_subdir`
        else .pages (sub lex' p own)
      | some (_, .file md) =>
        match (pathlibSegs name).getLast? with
        | none => .skip
        | some last =>
          if isMdName last then
            match md with
            | some m =>
              if m.ok then .pages [{ loc := relpath lex'.dropLast pin.pageDir, name := last, copy := nodeCopy pin m }]
              else .skip                                  -- `except ValueError: warn; continue`
            | none => .skip
          else .file name

/-- `get_page_tree(topdir, ..., parent)`: the nodes in the order `PageNode.__iter__` yields them -/
def pageTreeAux (g : Bool) (pin : PageIn) : Nat → List Seg → Path → List Str → List PNode
  | 0, _, _, _ => []
  | fuel + 1, lex, phys, pcopy =>
    match locate pin phys indexMd with
    | some (_, .file (some m)) =>
      if !m.ok then []
      else match pin.nodes.lookup phys with
        | some (.dir names) =>
          let ents := (mergedNames m.ordered names).map
            (entry g pin (pageTreeAux g pin fuel) lex phys pcopy m.copy)
          { loc := relpath lex pin.pageDir, name := indexMd, copy := nodeCopy pin m,
            files := ents.flatMap entFile } :: ents.flatMap entPages
        | _ => []
    | _ => []

def pageTree (g : Bool) (pin : PageIn) : List PNode :=
  pageTreeAux g pin (pin.nodes.length + 1) pin.pageDir pin.pageDir []

/-! ### PagetreePage -/

/-- `shutil.copy(from_path / item, to_path)` with `from_path = page_dir / location` and
    `to_path = out_dir / "page" / location`: copied under its last component, if the source (as the OS
    resolves *that* path) is a regular file - otherwise `open(src)` fails before anything is written
    (a path ending in `..` never names one) - and is not the destination itself (`SameFileError`,
    raised before anything is opened: a page placed onto its own source directory) -/
def fileCopyName (pin : PageIn) (o : Path) (loc : List Seg) (item : Str) : Option Str :=
  match walkPhys pin (if isAbs item then [] else pin.pageDir.reverse) ((if isAbs item then [] else loc) ++ pathlibSegs item) with
  | none => none
  | some p =>
    match pin.nodes.lookup p, (pathlibSegs item).getLast? with
    | some (.file _), some last =>
      if last = dotdot || p == norm (o ++ [chars! "page"] ++ loc ++ [last]) then none else some last
    | _, _ => none

/-- the page as `PagetreePage.writeout` sees it; `o` = the output directory -/
def toPage (pin : PageIn) (o : Path) (n : PNode) : Page :=
  { loc := n.loc
    stem := pyStem (pyStem n.name)
    copies := n.copy.map (fun it => { item := it, tree := (pin.trees.lookup (joinSlash n.loc, it)).join })
    files := n.files.filterMap (fileCopyName pin o n.loc) }

def pagesOf (g : Bool) (pin : PageIn) (o : Path) : List Page := (pageTree g pin).map (toPage pin o)

/-- the site whose static pages are those the page tree of the input gives -/
def withPages (g : Bool) (o : Path) (s : Site) : Option PageIn → Site
  | some pin => { s with pages := pagesOf g pin o }
  | none => { s with pages := [] }

/-- the run as a function of the input page tree -/
def runIn (c : Cfg) (s : Site) (pin : Option PageIn) : List Prim :=
  run c (withPages c.subGuard (outDir c) s pin)

def runPhysIn (c : Cfg) (s : Site) (pin : Option PageIn) : List Prim :=
  runPhys c (withPages c.subGuard (outDir c) s pin)

/-! ### the defect class -/

/-- an entry that is relative and never climbs above the directory of the page that lists it -/
def entryStays (e : Str) : Bool := !isAbs e && safe 0 (pathlibSegs e)

/-- no `ordered_subpage` entry (and no name of a directory listing) leaves its directory -/
def noSubpageEscape (pin : PageIn) : Bool :=
  pin.nodes.all (fun e => match e.2 with
    | .dir names => names.all entryStays
    | .file (some m) => m.ordered.all entryStays
    | .file none => true)

end Ford.Fs
