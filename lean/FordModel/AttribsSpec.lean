/-
  The statements of ford/sourceform.py that FordModel/Attribs.lean mirrors, as `ast.unparse` prints them
  (translate/c01.py regenerates the current ones into Generated/C01.lean on every run; the theorem
  `attribs_source_as_modelled` compares).  Four places exist in two variants each - as found, and with the small
  repair of an open finding applied (`Attribs.Cfg`); the harness decides the variant from the behaviour of the code.
-/
import FordModel.Attribs
namespace Ford.AttribsSpec
open Ford.Attribs

/-- every variable owns its attribute list: `FortranVariable.__init__` copies what it is given, the default is a
    fresh list per call site only because it is copied, `line_to_variables` passes a copy per entity -/
def ownerSrc : List String := [
    "self.attribs = copy.copy(attribs)",
    "attribs=[]",
    "copy.copy(attribs)"]

def dimReSrc : List String := [
    "^\\w+\\s*(\\(.*\\))\\s*$"]

/-- `Attribs.hdrStep` -/
def classifySrc : List String := [
    "for tmp_attrib in tmp_attribs:",
    "    tmp_attrib_lower = tmp_attrib.lower().replace(' ', '')",
    "    if tmp_attrib_lower in ['public', 'private', 'protected']:",
    "        permission = tmp_attrib_lower",
    "    elif tmp_attrib_lower == 'optional':",
    "        optional = True",
    "    elif tmp_attrib_lower == 'parameter':",
    "        parameter = True",
    "    elif tmp_attrib_lower == 'intent(in)':",
    "        intent = 'in'",
    "    elif tmp_attrib_lower == 'intent(out)':",
    "        intent = 'out'",
    "    elif tmp_attrib_lower == 'intent(inout)':",
    "        intent = 'inout'",
    "    else:",
    "        attribs.append(tmp_attrib)"]

/-- `Attribs.contrib`, `Attribs.paramItems`, `Attribs.paramPairs` (body of the `ATTRIB_RE` branch) -/
def stmtSrcK (cfg : Cfg) (keyFn : Bool) : List String := [
    "attr = match.group(1).lower().replace(' ', '')",
    "if len(attr) >= 4 and attr[0:4].lower() == 'bind':",
    "    attr = attr.replace(',', ', ')",
    "if hasattr(self, 'attr_dict'):",
    "    if attr == 'data':",
    "        pass",
    (if cfg.targetDims then "    elif attr in ['dimension', 'allocatable', 'pointer', 'target']:" else "    elif attr in ['dimension', 'allocatable', 'pointer']:"),
    "        names = ford.utils.paren_split(',', match.group(2))",
    "        for name in names:",
    "            name = name.strip().lower()",
    "            try:",
    "                open_parenthesis = name.index('(')",
    (if cfg.stripName then "                var_name = name[:open_parenthesis].strip()" else "                var_name = name[:open_parenthesis]"),
    "                dimensions = name[open_parenthesis:]",
    "            except ValueError:",
    "                var_name = name",
    "                dimensions = ''",
    "            self.attr_dict[var_name].append(attr + dimensions)",
    "    else:",
    "        stmnt = match.group(2)",
    "        if attr == 'parameter':",
    "            stmnt = stmnt[1:-1].strip()",
    "        names = ford.utils.paren_split(',', stmnt)",
    "        search_from = 0",
    "        while QUOTES_RE.search(attr[search_from:]):",
    "            num = int(QUOTES_RE.search(attr[search_from:]).group()[1:-1])",
    "            attr = attr[0:search_from] + QUOTES_RE.sub(self.strings[num], attr[search_from:], count=1)",
    "            search_from += QUOTES_RE.search(attr[search_from:]).end(0)",
    "        for name in names:",
    "            if attr == 'parameter':",
    "                split = ford.utils.paren_split('=', name)",
    "                name = split[0].strip().lower()",
    (if cfg.paramJoin then "                self.param_dict[name] = '='.join(split[1:])" else "                self.param_dict[name] = split[1]"),
    (if keyFn then "            name = _attr_key(name)" else "            name = name.strip().lower()"),
    "            self.attr_dict[name].append(attr)",
    "elif attr.lower() == 'data' and self.obj == 'sourcefile':",
    "    continue",
    "else:",
    "    self.print_error(line, f'Unexpected {attr.upper()} statement')"]

/-- as found: the item of any other attribute statement is filed under `name.strip().lower()` -/
def stmtSrc (cfg : Cfg) : List String := stmtSrcK cfg false

/-- the helper of repair cbe48be (`Attribs.attrKey`): as the old key, and a generic-spec (`operator (+)`) loses its
    blanks; `Attribs.attrKey_plain`: no difference for a key without parenthesis, i.e. for every variable -/
def attrKeySrc : List String := [
    "def _attr_key(name: str):",
    "    name = name.strip().lower()",
    "    if '(' in name:",
    "        name = re.sub('\\\\s+', '', name)",
    "    return name"]

/-- `Attribs.applyAttr`, `Attribs.processVars` for a code unit (the used key is deleted) -/
def processCodeUnitSrc (cfg : Cfg) : List String := [
    "for var in self.variables:",
    "    for attr in self.attr_dict[var.name.lower()]:",
    "        if attr in ['public', 'private', 'protected']:",
    "            var.permission = attr",
    "        elif attr[0:6] == 'intent':",
    "            var.intent = attr[7:-1]",
    (if cfg.targetDims then "        elif DIM_RE.match(attr) and ('pointer' in attr or 'allocatable' in attr or 'target' in attr):" else "        elif DIM_RE.match(attr) and ('pointer' in attr or 'allocatable' in attr):"),
    "            i = attr.index('(')",
    "            var.attribs.append(attr[0:i])",
    "            var.dimension = attr[i:]",
    "        elif attr == 'parameter':",
    "            var.attribs.append(attr)",
    "            var.initial = self.param_dict[var.name.lower()]",
    "        else:",
    "            var.attribs.append(attr)",
    "    with suppress(KeyError):",
    "        del self.attr_dict[var.name.lower()]"]

/-- ... and for block data (tuple instead of list in the first test, no deletion) -/
def processBlockDataSrc (cfg : Cfg) : List String := [
    "for var in self.variables:",
    "    for attr in self.attr_dict[var.name.lower()]:",
    "        if attr in ('public', 'private', 'protected'):",
    "            var.permission = attr",
    "        elif attr[0:6] == 'intent':",
    "            var.intent = attr[7:-1]",
    (if cfg.targetDims then "        elif DIM_RE.match(attr) and ('pointer' in attr or 'allocatable' in attr or 'target' in attr):" else "        elif DIM_RE.match(attr) and ('pointer' in attr or 'allocatable' in attr):"),
    "            i = attr.index('(')",
    "            var.attribs.append(attr[0:i])",
    "            var.dimension = attr[i:]",
    "        elif attr == 'parameter':",
    "            var.attribs.append(attr)",
    "            var.initial = self.param_dict[var.name.lower()]",
    "        else:",
    "            var.attribs.append(attr)"]

/-- `Attribs.dropExternal` -/
def filterSrc (cfg : Cfg) : List String :=
  [if cfg.extAnyCase then "self.variables = [v for v in self.variables if 'external' not in [attr.lower() for attr in v.attribs]]"
   else "self.variables = [v for v in self.variables if 'external' not in v.attribs]"]

def blockDataCleanupSrc : List String := [
    "self.process_attribs()"]

def allCfgs : List Cfg :=
  [false, true].flatMap fun a => [false, true].flatMap fun b => [false, true].flatMap fun c =>
    [false, true].map fun d => ⟨a, b, c, d⟩

end Ford.AttribsSpec
