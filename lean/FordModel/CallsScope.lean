/-
  Model of the part of ford/sourceform.py that decides, for a name that ends a recorded call
  chain of length 1, whether `correlate()` removes it again "as a variable" (property C08:
  "array elements and other variables ... are never recorded as calls" / "recorded calls are
  exactly the user procedures a unit invokes"):

  * `line_to_variables`      - the attributes of a type declaration statement that are kept in
                               `FortranVariable.attribs` (original spelling), one variable per
                               declared entity,
  * the ATTRIB_RE branch     - attribute statements (`external f`, `dimension a(10)`, ...) fill
                               `attr_dict[name.lower()]` with the lower-cased, blank-free keyword,
  * `process_attribs`        - the entries are appended to the attributes of the variable of that
                               name (permissions and INTENT become fields; an entry is deleted
                               after its first use),
  * `FortranCodeUnit._cleanup` - entities with the EXTERNAL attribute are no variables of the scope
                               (keyword and normalisation are a *generated* table,
                               `Generated.C08.scopeFilter`),
  * `FortranProcedure._cleanup` / `FortranFunction._cleanup` - dummy arguments and the result
                               variable are moved out of `variables`,
  * `get_label_item`         - the name tables of the scope are merged in a fixed order, the later
                               wins (`Generated.C08.labelOrder`),
  * `correlate`              - an item of a removed class is dropped from `calls`
                               (`Generated.C08.removedKinds`).

  Input is the specification part *as `line_to_variables` / ATTRIB_RE split it* (attribute strings
  and entity names as written); the text-level splitting itself is tied by the correspondence of
  the harness (`unit.variables`, `unit.args`, `unit.retvar` of the real parser on generated
  specification parts == this model).  Array specifications that the code appends to the
  attribute keyword of `dimension`-like statements are not carried (they never equal a keyword).
-/
import FordModel.Basic.Chars
import FordModel.TypeSpec
import FordModel.Calls
namespace Ford.Calls.Scope
open Ford Ford.Calls

/-- one statement of a specification part -/
inductive SpecStmt
  /-- type declaration statement: attribute strings (split at top-level commas, stripped, as
      written) and the names of the declared entities (as written) -/
  | tdecl (attrs : List Str) (ents : List Str)
  /-- attribute statement: group 1 of ATTRIB_RE (as written) and the names it lists -/
  | astmt (kw : Str) (names : List Str)
  deriving Repr, DecidableEq

structure Var where
  name : Str
  attribs : List Str
  deriving Repr, DecidableEq

/-- `.replace(" ", "")` -/
def dropBlanks (s : Str) : Str := s.filter (fun c => c != ' ')

def upperChar (c : Char) : Char :=
  if 'a' ≤ c ∧ c ≤ 'z' then Char.ofNat (c.toNat - 32) else c

def upper (s : Str) : Str := s.map upperChar

/-- attributes that `line_to_variables` turns into fields of the variable (compared after
    `.lower().replace(" ", "")`); everything else is appended to `attribs` as written -/
def declFieldKeys : List Str :=
  [chars! "public", chars! "private", chars! "protected", chars! "optional", chars! "parameter",
   chars! "intent(in)", chars! "intent(out)", chars! "intent(inout)"]

def keptByDecl (a : Str) : Bool := !(declFieldKeys.contains (dropBlanks (lower a)))

/-- the variables `line_to_variables` creates, in source order -/
def declVars : List SpecStmt → List Var
  | [] => []
  | .tdecl attrs ents :: rest => ents.map (fun n => ⟨n, attrs.filter keptByDecl⟩) ++ declVars rest
  | .astmt _ _ :: rest => declVars rest

/-- `attr = match.group(1).lower().replace(" ", "")` -/
def attrKey (kw : Str) : Str := dropBlanks (lower kw)

/-- `attr_dict[n]` after the whole specification part (`data` statements add nothing) -/
def attrDict : List SpecStmt → Str → List Str
  | [], _ => []
  | .astmt kw names :: rest, n =>
    (if attrKey kw != chars! "data" && (names.map (fun x => lower (strip x))).contains n
     then [attrKey kw] else []) ++ attrDict rest n
  | .tdecl _ _ :: rest, n => attrDict rest n

/-- entries of `attr_dict` that `process_attribs` appends to `var.attribs` (permissions and
    INTENT become fields of the variable) -/
def appendedKey (k : Str) : Bool :=
  !([chars! "public", chars! "private", chars! "protected"].contains k) && k.take 6 != chars! "intent"

/-- the loop `for var in self.variables` of `process_attribs`; `seen` = names whose entry has
    been deleted (`del self.attr_dict[var.name.lower()]`) -/
def processVars (stmts : List SpecStmt) : List Var → List Str → List Var
  | [], _ => []
  | v :: vs, seen =>
    let key := lower v.name
    let extra := if seen.contains key then [] else (attrDict stmts key).filter appendedKey
    ⟨v.name, v.attribs ++ extra⟩ :: processVars stmts vs (key :: seen)

def applyOp (op : String) (s : Str) : Str :=
  if op == "lower" then lower s else if op == "upper" then upper s
  else if op == "strip" then strip s else s

def normAttr (ops : List String) (a : Str) : Str := ops.foldl (fun s op => applyOp op s) a

/-- does the variable carry the keyword of the generated filter? -/
def hasKw (f : List Char × List String) (v : Var) : Bool := (v.attribs.map (normAttr f.2)).contains f.1

/-- `self.variables = [v for v in self.variables if <kw> not in [<norm>(a) for a in v.attribs]]` -/
def cleanupVars (f : List Char × List String) (vs : List Var) : List Var := vs.filter (fun v => !hasKw f v)

def named (n : Str) (v : Var) : Bool := lower v.name == lower n

/-- `FortranProcedure._cleanup`: the first variable spelled like the dummy argument is moved to
    `args` (if there is none the argument becomes an implicitly typed variable: either way the
    lower-cased argument name is in the `args` table) -/
def takeArgs (args : List Str) (vs : List Var) : List Var := args.foldl (fun l a => l.eraseP (named a)) vs

/-- the specification part of one program unit, as far as names are concerned -/
structure Unit where
  stmts : List SpecStmt
  args : List Str := []
  /-- result variable of a function (RESULT name, else the function name) -/
  ret : Option Str := none
  /-- the function statement carries the type (`real function f()`): `retvar` is a variable from
      the start and nothing is looked up among `variables` -/
  retTyped : Bool := false
  deriving Repr

/-- `unit.variables` after `_cleanup` -/
def scopeVars (f : List Char × List String) (u : Unit) : List Var :=
  let vs := takeArgs u.args (cleanupVars f (processVars u.stmts (declVars u.stmts) []))
  match u.ret with
  | some r => if u.retTyped then vs else vs.eraseP (named r)
  | none => vs

def scopeVarNames (f : List Char × List String) (u : Unit) : List Str := (scopeVars f u).map (fun v => lower v.name)

/-- what the host (and USEd modules) contribute: lower-case names -/
structure Host where
  procs : List Str := []
  types : List Str := []
  vars : List Str := []
  deriving Repr

/-- the name tables `get_label_item(self, ·)` merges, by the name the source gives them -/
def layer (h : Host) (u : Unit) (vars : List Str) (l : String) : List Str :=
  if l == "all_procs" then h.procs
  else if l == "all_types" then h.types
  else if l == "all_vars" then h.vars ++ vars
  else if l == "args" then u.args.map lower
  else if l == "retvar" then u.ret.toList.map lower
  else if l == "variables" then vars
  else []

def kindOfLayer (l : String) : Kind :=
  if l == "all_procs" || l == "boundprocs" then .proc
  else if l == "all_types" || l == "extends" then .type
  else .var

/-- `labels.get(n)`: the last table (in merge order) that holds the name decides -/
def lookupKind (order : List String) (tab : String → List Str) (n : Str) : Kind :=
  order.foldl (fun k l => if (tab l).contains n then kindOfLayer l else k) .unknown

/-- `isinstance(item, (<removed>))` -/
def isRemoved (removed : List String) : Kind → Bool
  | .var => removed.contains "FortranVariable" || removed.contains "FortranBase"
  | .type => removed.contains "FortranType" || removed.contains "FortranBase"
  | .proc => removed.contains "FortranProcedure" || removed.contains "FortranSubroutine"
      || removed.contains "FortranFunction" || removed.contains "FortranCodeUnit"
      || removed.contains "FortranContainer" || removed.contains "FortranBase"
  | .unknown => false

/-- names kept by `correlate` among the chains of length 1 -/
def resolveScope (order removed : List String) (tab : String → List Str) (calls : List Chain) : List Str :=
  calls.filterMap (fun ch =>
    match ch with
    | [n] => if isRemoved removed (lookupKind order tab n) then none else some n
    | _ => none)

end Ford.Calls.Scope
