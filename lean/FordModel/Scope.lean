/-
  C07 - model of FORD's name-table construction and reference resolution
  (`FortranCodeUnit.correlate` and the `correlate` methods of the reference
  owners), as the code is.

  * every code unit owns one dict `all_procs`; `all_types` and
    `all_absinterfaces` of a nested unit ARE the host's dict objects (no copy):
    inside one top-level unit there is exactly one types dict and one
    abstract-interface dict, mutated in the order of the `correlate` recursion.
    The model therefore threads these two tables through the traversal
    (`Variant.alias = true`); with `alias = false` every unit works on a copy
    (the candidate repair).
  * `all_procs.update(parent.all_procs)`: host entries overwrite local ones
    (`Variant.hostOverLocal = true`); the repair merges local over host.
  * USE: `update` with what `FortranModule.get_used_entities` returns: the used
    module's public tables themselves (no list), or a fresh dict into which every
    public entity is filed under `used_names[name]` (ONLY: listed names only) resp.
    `used_names.get(name, name)` (renames without ONLY: the renamed entity appears
    under its local name and NOT under its original one).
  * reference slots are looked up either before the nested units are
    correlated (`Phase.early`: parent type, components, bindings, finalisers,
    constructor) or after the functions and subroutines (`Phase.late`:
    variables, arguments, result) - which is observable because of the aliasing.

  A table is an association list whose HEAD is the most recent write, so
  `dict[k] = v` is `cons`, `d.update(u)` is `u ++ d` and `{**a, **b}` is `b ++ a`.
  No imports outside FordModel (linked into the driver).
-/
import FordModel.Basic.Chars
namespace Ford.Scope
open Ford

abbrev Ent := Nat
abbrev Table := List (Str × Ent)

/-- `d.get(k)` -/
def tget : Table → Str → Option Ent
  | [], _ => none
  | (k', e) :: r, k => if k' = k then some e else tget r k

/-- which dict a declaration is entered in -/
inductive NS | ty | pr | ab
  deriving DecidableEq, Repr

/-- lookup rule of a reference slot: `ty` = all_types; `pr` = all_procs;
    `pa` = all_procs, then all_absinterfaces (procedure(...) prototypes);
    `bn` = the `bindings` entry of a DEFERRED type-bound procedure: `FortranBoundProcedure.correlate`
    looks it up nowhere (its branches are `if self.generic` / `elif not self.deferred`) -/
inductive SK | ty | pr | pa | bn
  deriving DecidableEq, Repr

inductive Phase | early | late
  deriving DecidableEq, Repr

structure Slot where
  id : Nat
  kind : SK
  phase : Phase
  name : Str
  deriving Repr

/-- `use mod` (no items), `use mod, loc => rem, ...` (only = false) or
    `use mod, only: loc => rem, name, ...` (only = true; a plain `name` is the
    item `(name, name)`).  Items are (local name, name in the module). -/
structure Use where
  mod : Str
  only : Bool
  items : List (Str × Str)
  deriving Repr

/-- a local declaration that is not itself a nested code unit: derived type,
    abstract interface, generic interface / interface body (procs table) -/
structure Decl where
  ns : NS
  name : Str
  ent : Ent
  deriving Repr

mutual
/-- a code unit: name, entity id, is-a-function, USE statements in order,
    local declarations in order, reference slots, nested procedures in source order -/
inductive Scope
  | mk (name : Str) (ent : Ent) (isFunc : Bool) (uses : List Use) (decls : List Decl)
       (slots : List Slot) (kids : Kids)
inductive Kids
  | nil
  | cons (s : Scope) (rest : Kids)
end

structure Variant where
  alias : Bool          -- nested units share the host's types / absinterfaces dicts
  hostOverLocal : Bool  -- host procedures overwrite local ones
  deriving DecidableEq, Repr

def asIs : Variant := ⟨true, true⟩
def repaired : Variant := ⟨false, false⟩

/-- public tables of a module as seen by USE -/
structure Exports where
  p : Table
  a : Table
  t : Table
  deriving Repr

abbrev ModEnv := List (Str × Exports)

def findMod : ModEnv → Str → Option Exports
  | [], _ => none
  | (k, e) :: r, n => if k = n then some e else findMod r n

structure Tabs where
  p : Table
  a : Table
  t : Table
  deriving Repr

/-- `d.get(k)` on a str -> str dict -/
def sget : List (Str × Str) → Str → Option Str
  | [], _ => none
  | (k', v) :: r, k => if k' = k then some v else sget r k

/-- `used_names[remote.lower()] = local.lower()` for every item of the statement, in
    order (head = most recent write: a later item with the same remote name wins) -/
def usedNames : List (Str × Str) → List (Str × Str)
  | [] => []
  | (loc, rem) :: r => usedNames r ++ [(lower rem, lower loc)]

/-- keys of the dict a write log stands for, in iteration order (= order of first insertion) -/
def dictKeys : Table → List Str
  | [] => []
  | (k, _) :: r => if k ∈ dictKeys r then dictKeys r else dictKeys r ++ [k]

/-- `d.items()` -/
def dictItems (tb : Table) : List (Str × Ent) :=
  (dictKeys tb).filterMap fun k => (tget tb k).map fun e => (k, e)

/-- the key under which `used_objects` files the public entity `k` (`none` = not imported):
    `used_names[name]` if listed; otherwise, without ONLY, `used_names.get(name, name) = name` -/
def localName (only : Bool) (un : List (Str × Str)) (k : Str) : Option Str :=
  match sget un k with
  | some loc => some loc
  | none => if only then none else some k

/-- `used_objects(object_type, only)`: `result = {}`, then one write per public entity of the
    module in the iteration order of its dict -/
def usedObjects (pub : Table) (only : Bool) (un : List (Str × Str)) : Table :=
  ((dictItems pub).filterMap fun ke => (localName only un ke.1).map fun n => (n, ke.2)).reverse

/-- entries a USE statement brings in from one public table (`get_used_entities`; a statement
    without items hands out the public dict itself) -/
def importTable (pub : Table) (u : Use) : Table :=
  if u.items.isEmpty && !u.only then pub else usedObjects pub u.only (usedNames u.items)

/-- `for mod, extra in self.uses: all_procs.update(procs); ...` -/
def applyUses (env : ModEnv) : List Use → Tabs → Tabs
  | [], tb => tb
  | u :: us, tb =>
    match findMod env (lower u.mod) with
    | none => applyUses env us tb
    | some ex =>
      applyUses env us
        ⟨importTable ex.p u ++ tb.p, importTable ex.a u ++ tb.a, importTable ex.t u ++ tb.t⟩

/-- local declarations of one namespace, most recent first -/
def declsOf (ns : NS) : List Decl → Table
  | [] => []
  | d :: ds => if d.ns = ns then declsOf ns ds ++ [(lower d.name, d.ent)] else declsOf ns ds

/-- the nested procedures of the wanted kind as table entries (most recent first) -/
def kidProcs (wantFunc : Bool) : Kids → Table
  | .nil => []
  | .cons (.mk n e f _ _ _ _) r =>
    if f = wantFunc then kidProcs wantFunc r ++ [(lower n, e)] else kidProcs wantFunc r

/-- `_cleanup`: `{p.name.lower(): p for p in routines}` (functions, then
    subroutines), then the interfaces -/
def localProcs (decls : List Decl) (kids : Kids) : Table :=
  declsOf .pr decls ++ (kidProcs false kids ++ kidProcs true kids)

def lookupSlot (tb : Tabs) (s : Slot) : Option Ent :=
  let n := lower s.name
  match s.kind with
  | .ty => tget tb.t n
  | .pr => tget tb.p n
  | .pa => match tget tb.p n with
    | some e => some e
    | none => tget tb.a n
  | .bn => none

/-- content of the reference slots: the slot and the entity stored in it (`none` = the name stays text) -/
abbrev Res := List (Slot × Option Ent)

def resolvePhase (ph : Phase) (tb : Tabs) : List Slot → Res
  | [] => []
  | s :: ss => if s.phase = ph then (s, lookupSlot tb s) :: resolvePhase ph tb ss else resolvePhase ph tb ss

/-- tables of a unit after host association, local declarations and USE -/
def unitTabs (v : Variant) (env : ModEnv) (hostP a t : Table)
    (uses : List Use) (decls : List Decl) (kids : Kids) : Tabs :=
  let lp := localProcs decls kids
  let p0 := if v.hostOverLocal then hostP ++ lp else lp ++ hostP
  applyUses env uses ⟨p0, declsOf .ab decls ++ a, declsOf .ty decls ++ t⟩

mutual
/-- `FortranCodeUnit.correlate`: returns the (possibly mutated) shared tables
    and the content of every reference slot of the unit and its nested units -/
def corr (v : Variant) (env : ModEnv) (hostP a t : Table) : Scope → Table × Table × Res
  | .mk _ _ _ uses decls slots kids =>
    let tb := unitTabs v env hostP a t uses decls kids
    let early := resolvePhase .early tb slots
    let r1 := corrKids v env tb.p true tb.a tb.t kids
    let r2 := corrKids v env tb.p false r1.1 r1.2.1 kids
    let late := resolvePhase .late ⟨tb.p, r2.1, r2.2.1⟩ slots
    (if v.alias then r2.1 else a, if v.alias then r2.2.1 else t,
     early ++ (r1.2.2 ++ (r2.2.2 ++ late)))
/-- the recursion over `self.functions` (wantFunc) resp. `self.subroutines` -/
def corrKids (v : Variant) (env : ModEnv) (hostP : Table) (wantFunc : Bool) (a t : Table) :
    Kids → Table × Table × Res
  | .nil => (a, t, [])
  | .cons (.mk n e f us ds ss ks) rest =>
    if f = wantFunc then
      let r := corr v env hostP a t (.mk n e f us ds ss ks)
      let r' := corrKids v env hostP wantFunc r.1 r.2.1 rest
      (r'.1, r'.2.1, r.2.2 ++ r'.2.2)
    else corrKids v env hostP wantFunc a t rest
end

/-- a top-level unit starts from empty host tables (`getattr(parent, ..., {})`) -/
def corrUnit (v : Variant) (env : ModEnv) (s : Scope) : Res := (corr v env [] [] [] s).2.2

/-- `FortranModule._cleanup` + the `pub_*.update(...)` of `correlate`
    (every module of the abstract projects has default accessibility PUBLIC) -/
def exportsOf (env : ModEnv) : Scope → Exports
  | .mk _ _ _ uses decls _ kids =>
    let tb := applyUses env uses ⟨localProcs decls kids, declsOf .ab decls, declsOf .ty decls⟩
    ⟨tb.p, tb.a, tb.t⟩

def scopeName : Scope → Str
  | .mk n _ _ _ _ _ _ => n

/-- `Project.correlate`: units in dependency order; modules publish their tables -/
def corrProject (v : Variant) : ModEnv → List (Bool × Scope) → Res
  | _, [] => []
  | env, (isMod, s) :: us =>
    corrUnit v env s ++
      corrProject v (if isMod then (lower (scopeName s), exportsOf env s) :: env else env) us

end Ford.Scope
