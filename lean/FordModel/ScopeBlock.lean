/-
  C07 - BLOCK constructs.  A BLOCK is a scoping unit nested in the execution part of a
  program or procedure: what it declares (derived types, interface blocks, abstract
  interfaces) or use-associates is local to the construct.

  FORD has no object for a BLOCK.  The statement dispatcher `FortranContainer.__init__`
  counts `blocklevel` and files a statement it meets while `blocklevel > 0` in the lists of
  the ENCLOSING code unit unless the branch of that statement kind carries the guard
  `blocklevel == 0`.  The model is therefore a parse step in front of `corr`:

    `flatten reg` turns a scope tree with blocks (`BScope`) into the object tree FORD builds
    (`Scope`): block-local USE statements / declarations of the kinds `reg` says are
    registered are appended, in source order, to the enclosing unit's `uses` / declarations;
    everything else in a block is dropped.

  `BlockReg` is read from the source on every run (Generated/C07.lean: `blockGuards`).  In
  the code as found the USE branch has no guard (`asFound`), every declaring branch has.
  No imports outside FordModel (linked into the driver).
-/
import FordModel.Scope
import FordModel.ScopeSpec
namespace Ford.Scope
open Ford

mutual
/-- a BLOCK construct: its USE statements, its local declarations, the BLOCKs nested in it -/
inductive Block
  | mk (uses : List Use) (decls : List Decl) (inner : Blocks)
inductive Blocks
  | nil
  | cons (b : Block) (rest : Blocks)
end

mutual
/-- a code unit with the BLOCK constructs of its execution part -/
inductive BScope
  | mk (name : Str) (ent : Ent) (isFunc : Bool) (uses : List Use) (decls : List Decl)
       (slots : List Slot) (blocks : Blocks) (kids : BKids)
inductive BKids
  | nil
  | cons (s : BScope) (rest : BKids)
end

/-- which kinds of statement the dispatcher files in the enclosing unit while `blocklevel > 0`
    (= the branch has NO `blocklevel == 0` guard) -/
structure BlockReg where
  use : Bool   -- USE statements -> `self.uses`
  ty : Bool    -- derived type definitions -> `self.types`
  ifc : Bool   -- interface blocks -> `self.interfaces` / `self.absinterfaces`
  deriving DecidableEq, Repr

/-- the code as found: only the USE branch is unguarded -/
def BlockReg.asFound : BlockReg := ⟨true, false, false⟩
/-- every branch guarded (fixes/C07-block-use-local.diff) -/
def BlockReg.none : BlockReg := ⟨false, false, false⟩

/-- the registration behaviour a probed table stands for (`Generated/C07.lean: blockFiled` - for every
    kind of statement whether the working tree files it in the enclosing unit while inside a BLOCK
    construct, observed on a witness program); a kind the table does not list files nothing -/
def regOfTable (filed : List (String × Bool)) : BlockReg :=
  ⟨filed.lookup "use" == some true,
   filed.lookup "type" == some true,
   filed.lookup "interface" == some true || filed.lookup "absinterface" == some true⟩

def regDecl (reg : BlockReg) (d : Decl) : Bool :=
  match d.ns with
  | .ty => reg.ty
  | .pr => reg.ifc
  | .ab => reg.ifc

mutual
/-- the USE statements of a block and of everything nested in it, in source order -/
def blockUses : Block → List Use
  | .mk us _ inner => us ++ blocksUses inner
def blocksUses : Blocks → List Use
  | .nil => []
  | .cons b r => blockUses b ++ blocksUses r
end

mutual
/-- the block-local declarations that get registered in the enclosing unit, in source order -/
def blockDecls (reg : BlockReg) : Block → List Decl
  | .mk _ ds inner => ds.filter (regDecl reg) ++ blocksDecls reg inner
def blocksDecls (reg : BlockReg) : Blocks → List Decl
  | .nil => []
  | .cons b r => blockDecls reg b ++ blocksDecls reg r
end

mutual
/-- the object tree the parser builds -/
def flatten (reg : BlockReg) : BScope → Scope
  | .mk n e f us ds ss bs ks =>
    .mk n e f (us ++ (if reg.use then blocksUses bs else [])) (ds ++ blocksDecls reg bs) ss
      (flattenKids reg ks)
def flattenKids (reg : BlockReg) : BKids → Kids
  | .nil => .nil
  | .cons s r => .cons (flatten reg s) (flattenKids reg r)
end

mutual
/-- the program with its BLOCK constructs removed -/
def eraseBlocks : BScope → Scope
  | .mk n e f us ds ss _ ks => .mk n e f us ds ss (eraseKids ks)
def eraseKids : BKids → Kids
  | .nil => .nil
  | .cons s r => .cons (eraseBlocks s) (eraseKids r)
end

mutual
/-- no BLOCK of the list (at any depth) has a USE statement -/
def blockNoUse : Block → Bool
  | .mk us _ inner => us.isEmpty && blocksNoUse inner
def blocksNoUse : Blocks → Bool
  | .nil => true
  | .cons b r => blockNoUse b && blocksNoUse r
end

mutual
/-- no BLOCK anywhere in the scope tree has a USE statement -/
def noBlockUse : BScope → Bool
  | .mk _ _ _ _ _ _ bs ks => blocksNoUse bs && kidsNoBlockUse ks
def kidsNoBlockUse : BKids → Bool
  | .nil => true
  | .cons s r => noBlockUse s && kidsNoBlockUse r
end

mutual
/-- ids of the block-local declarations the parser registers in the enclosing unit, over a
    whole tree -/
def registered (reg : BlockReg) : BScope → List Ent
  | .mk _ _ _ _ _ _ bs ks => (blocksDecls reg bs).map (·.ent) ++ registeredKids reg ks
def registeredKids (reg : BlockReg) : BKids → List Ent
  | .nil => []
  | .cons s r => registered reg s ++ registeredKids reg r
end

/-- Specification.  A BLOCK is a child scope: a reference outside it denotes what it denotes
    in the program without the BLOCK constructs (declarations local to a child scope are
    invisible).  FORD records no reference slot inside a BLOCK. -/
def specBScope (env : ModEnv) (ch : List Frame) (s : BScope) : Res := specScope env ch (eraseBlocks s)

def corrBProject (v : Variant) (reg : BlockReg) (us : List (Bool × BScope)) : Res :=
  corrProject v [] (us.map fun x => (x.1, flatten reg x.2))

def specBProject (us : List (Bool × BScope)) : Res :=
  specProject [] (us.map fun x => (x.1, eraseBlocks x.2))

end Ford.Scope
