/-
  Specification side of C16: what importing an exported description *should*
  give, written directly over the exporting project's entity tree (no JSON,
  no key tables except ATTRIBUTES for the order of the children).
-/
import FordModel.External
namespace Ford.Ext
open Ford

/-- items of lists / dicts that survive the round trip: not already external, not an empty string -/
def keep : Ent → Bool
  | .ext => false
  | .text s => !s.isEmpty
  | .node .. => true

/-- the key of ENTITIES an entity is imported under: `proctype` if it has one, else `obj`, lower-cased -/
def kindOf (obj : Str) (pt : Option Str) : Str := lower (pt.getD obj)


mutual
/-- the imported counterpart of an entity of A: same name, kind, URL re-based on A's location -/
def specE (b : Base) (parent : Option Json) : Ent → XObj
  | .ext => .text []
  | .text s => .text s
  | .node name url obj pt attrs =>
    .node (kindOf obj pt) (.str name) (.str (rebase b (urlText url))) parent
      (if kindOf obj pt == kInterface then pt.map Json.str else none)
      (orderByTable Gen.attributes (specAttrs b (some (.str name)) attrs))
def specAttrs (b : Base) (parent : Option Json) : List (Str × Attr) → List (Str × XAttr)
  | [] => []
  | (k, a) :: r => (k, specAttr b parent a) :: specAttrs b parent r
def specAttr (b : Base) (parent : Option Json) : Attr → XAttr
  | .list xs => .list (specList b parent xs)
  | .dict kvs => .dict (specDict b parent kvs)
  | .scalar s => .scalar (.str s)
def specList (b : Base) (parent : Option Json) : List Ent → List XObj
  | [] => []
  | e :: r => if keep e then specE b parent e :: specList b parent r else specList b parent r
def specDict (b : Base) (parent : Option Json) : List (Str × Ent) → List (Str × XObj)
  | [] => []
  | (k, e) :: r => if keep e then (k, specE b parent e) :: specDict b parent r else specDict b parent r
end

mutual
/-- every entity's kind is a key of ENTITIES (and interfaces carry their proctype) -/
def validE : Ent → Bool
  | .ext => true
  | .text _ => true
  | .node _ _ obj pt attrs =>
    (Gen.entities.lookup (kindOf obj pt)).isSome
      && (kindOf obj pt != kInterface || pt.isSome) && validAttrs attrs
def validAttrs : List (Str × Attr) → Bool
  | [] => true
  | (_, a) :: r => validAttr a && validAttrs r
def validAttr : Attr → Bool
  | .list xs => validList xs
  | .dict kvs => validDict kvs
  | .scalar _ => true
def validList : List Ent → Bool
  | [] => true
  | e :: r => validE e && validList r
def validDict : List (Str × Ent) → Bool
  | [] => true
  | (_, e) :: r => validE e && validDict r
end

/-- `e` occurs in the tree below (or is) `root`, through attributes that are exported -/
inductive Reach : Ent → Ent → Prop where
  | refl (e : Ent) : Reach e e
  | list (name url obj pt attrs k xs c e) :
      k ∈ Gen.attributes → attrs.lookup k = some (Attr.list xs) → c ∈ xs → Reach c e →
      Reach (.node name url obj pt attrs) e
  | dict (name url obj pt attrs k kvs key c e) :
      k ∈ Gen.attributes → attrs.lookup k = some (Attr.dict kvs) → (key, c) ∈ kvs → Reach c e →
      Reach (.node name url obj pt attrs) e

/-- a clean relative URL: what `get_url` produces (`dir/ident.html#anchor`) - no empty or `.` segments -/
def cleanRel (u : Str) : Bool :=
  !isAbs u && (splitSlash u []).all (fun x => !x.isEmpty && x != ['.'])


/-! ### observers used in the property statements -/

def jField (k : Str) : Json → Option Json
  | .obj kvs => kvs.lookup k
  | _ => none

/-- the `external_url` text of the i-th description of the list-valued attribute `k` of a description -/
def listedUrl (k : Str) (i : Nat) (d : Json) : Option Str :=
  match jField k d with
  | some (.arr xs) =>
    match xs[i]? with
    | some x => (match jField kUrl x with | some (.str s) => some s | _ => none)
    | none => none
  | _ => none

/-- the module descriptions listed in a `modules.json` document -/
def docModules (doc : Json) : List Json :=
  match jField kModules doc with
  | some (.arr xs) => xs
  | _ => []

def entName : Ent → Option Json
  | .node name .. => some (.str name)
  | _ => none

def isNode : Ent → Bool
  | .node .. => true
  | _ => false

def LoadResult.isAborted : LoadResult → Bool
  | .aborted _ => true
  | .loaded _ => false

def LoadResult.count : LoadResult → Nat
  | .aborted _ => 0
  | .loaded os => (entriesAll os).length

def LoadResult.objs : LoadResult → Option (List XObj)
  | .aborted _ => none
  | .loaded os => some os

def isOk {α : Type} : Except XErr α → Bool
  | .ok _ => true
  | .error _ => false

def errOf {α : Type} : Except XErr α → Option XErr
  | .ok _ => none
  | .error e => some e

/-! ### several external projects -/

/-- an external project that cannot end B's run: its description converts, or fetching it fails in one of
    the ways the `except` clause names -/
def harmless (p : Base × Fetch) : Bool :=
  match p.2 with
  | .got doc => isOk (importDoc p.1 doc)
  | .failed exc => catches exc

/-- what one external project contributes when it is the only one listed: the objects of its description,
    nothing when the description could not be fetched -/
def objsOf (p : Base × Fetch) : List XObj :=
  match p.2 with
  | .got doc => (match importDoc p.1 doc with | .ok os => os | .error _ => [])
  | .failed _ => []

/-- the exits the translator can report for a handler -/
def knownExits : List Str :=
  [['f', 'a', 'l', 'l', 't', 'h', 'r', 'o', 'u', 'g', 'h'], ['c', 'o', 'n', 't', 'i', 'n', 'u', 'e'],
   ['b', 'r', 'e', 'a', 'k'], ['r', 'e', 't', 'u', 'r', 'n'], ['r', 'a', 'i', 's', 'e'],
   ['u', 'n', 'c', 'a', 'u', 'g', 'h', 't']]

def kUncaught : Str := ['u', 'n', 'c', 'a', 'u', 'g', 'h', 't']

def kModProc : Str := ['M', 'o', 'd', 'u', 'l', 'e', ' ', 'P', 'r', 'o', 'c', 'e', 'd', 'u', 'r', 'e']
def kUnknown : Str := ['U', 'n', 'k', 'n', 'o', 'w', 'n']

end Ford.Ext
