/-
  C15 - model of FORD's settings pipeline *as the code is*:

    ford/utils.py     meta_preprocessor, str_to_bool, normalise_path
    ford/settings.py  convert_setting, convert_to_bool, _parse_to_dict,
                      ExtraFileType.from_string, convert_types_from_metapreprocessor,
                      ProjectSettings.__init__/__post_init__/normalise_paths,
                      load_toml_settings, load_markdown_settings,
                      convert_types_from_commandarguments
    ford/__init__.py  initialize / load_settings / parse_arguments

  Third-party parts are *inputs* of the model, not modelled: `tomllib` (the model
  receives the parsed table), `argparse` (the model receives the options given on
  the command line and builds `vars(args)` from the regenerated (dest, action, default)
  table, `cliNamespace`), the preprocessor probe (stubbed in the harness).
  Python type confusions that end in `TypeError`/`AttributeError` somewhere
  downstream are reported as `Err.unmodelled`; the harness does not compare those
  cases (they are all inside known-finding classes) and counts them.
-/
import FordModel.Basic.SettingsTypes
import FordModel.Generated.C15
namespace Ford
namespace Settings

/-! ### association lists (Python `dict` / attribute table, insertion ordered) -/

def aget {α : Type} (k : Str) : List (Str × α) → Option α
  | [] => none
  | (k', v) :: r => if k' == k then some v else aget k r

/-- `d[k] = v` / `setattr(obj, k, v)`: replace in place, else append -/
def aset {α : Type} (k : Str) (v : α) : List (Str × α) → List (Str × α)
  | [] => [(k, v)]
  | (k', v') :: r => if k' == k then (k', v) :: r else (k', v') :: aset k v r

def hasKey {α : Type} (k : Str) (l : List (Str × α)) : Bool := (aget k l).isSome

abbrev Settings := List (Str × PyVal)

def getD (k : String) (s : Settings) : PyVal := (aget k.toList s).getD .none

/-! ### string helpers (Python `str` methods on ASCII input) -/

/-- `s.split(c)` -/
def splitCharAux (c : Char) : Str → Str → List Str
  | [], cur => [cur.reverse]
  | x :: xs, cur => if x == c then cur.reverse :: splitCharAux c xs [] else splitCharAux c xs (x :: cur)

def splitChar (c : Char) (s : Str) : List Str := splitCharAux c s []

/-- `s.split(c, 1)` when it yields two pieces -/
def splitOnce (c : Char) : Str → Option (Str × Str)
  | [] => none
  | x :: xs =>
    if x == c then some ([], xs)
    else match splitOnce c xs with
      | some (a, b) => some (x :: a, b)
      | none => none

/-- `s.split()` -/
def splitWsAux : Str → Str → List Str
  | [], cur => if cur.isEmpty then [] else [cur.reverse]
  | x :: xs, cur =>
    if isSpace x then (if cur.isEmpty then splitWsAux xs [] else cur.reverse :: splitWsAux xs [])
    else splitWsAux xs (x :: cur)

def splitWs (s : Str) : List Str := splitWsAux s []

/-- `str_to_bool` on a `str`: `text.capitalize() == "True"` / `"False"` -/
def strToBool (s : Str) : Option Bool :=
  if lower s == "true".toList then some true
  else if lower s == "false".toList then some false
  else none

/-- digits with single underscores between them (Python `int()` literal syntax) -/
def parseNatAux : Str → Nat → Bool → Option Nat
  | [], acc, last => if last then some acc else none
  | c :: cs, acc, last =>
    if isDigit c then parseNatAux cs (acc * 10 + (c.toNat - 48)) true
    else if c == '_' && last then parseNatAux cs acc false
    else none

/-- Python `int(s)` for a stripped ASCII string -/
def parseInt (s : Str) : Option Int :=
  match s with
  | '-' :: r => (parseNatAux r 0 false).map (fun n => -(Int.ofNat n))
  | '+' :: r => (parseNatAux r 0 false).map Int.ofNat
  | _ => (parseNatAux s 0 false).map Int.ofNat

/-! ### errors -/

inductive Err
  | boolMulti (key : Str)   -- "Could not convert option 'k' to bool: expected a single value ..."
  | boolBad (key : Str)     -- "Could not convert option 'k' to bool: expected 'true'/'false' ..."
  | intBad                  -- "invalid literal for int() with base 10: ..."  (names no option)
  | dictSep (key : Str)     -- "Error setting option 'k': expected 'sep' in ..."
  | eftBad                  -- "Unexpected format for 'extra_filetype' ..."
  | unknownKw (key : Str)   -- TypeError: unexpected keyword argument 'k'
  | extClash | modClash | docmarkClash | srcInOut
  | noSeparator (key : Str) -- KeyError in OPTION_SEPARATORS
  | unmodelled              -- a Python type confusion the model does not follow
  deriving DecidableEq, Repr

/-- the option an error message names, if any -/
def Err.names : Err → Option Str
  | .boolMulti k => some k
  | .boolBad k => some k
  | .dictSep k => some k
  | .eftBad => some "extra_filetype".toList
  | .unknownKw k => some k
  | .extClash => some "extensions".toList
  | .modClash => none
  | .docmarkClash => none
  | .noSeparator k => some k
  | _ => none

/-! ### `meta_preprocessor` -/

def isKeyChar (c : Char) : Bool := isAlpha c || isDigit c || c == '_' || c == '-'

def leadingSpaces : Str → Nat
  | ' ' :: r => leadingSpaces r + 1
  | _ => 0

/-- `META_RE = ^[ ]{0,3}(?P<key>[A-Za-z0-9_-]+):\s*(?P<value>.*)`; returns
    `(key.lower().strip(), value.strip())` -/
def metaMatch (line : Str) : Option (Str × Str) :=
  if leadingSpaces line > 3 then none
  else
    let rest := line.drop (leadingSpaces line)
    let key := rest.takeWhile isKeyChar
    if key.isEmpty then none
    else match rest.dropWhile isKeyChar with
      | ':' :: v => some (strip (lower key), strip v)
      | _ => none

/-- `END_RE = ^(-{3}|\.{3})(\s.*)?` under `re.match` -/
def isEnd (line : Str) : Bool := startsWith line "---".toList || startsWith line "...".toList
/-- `BEGIN_RE = ^-{3}(\s.*)?` under `re.match` -/
def isBegin (line : Str) : Bool := startsWith line "---".toList

/-- `mt[key].append(value)` on a `defaultdict(list)` -/
def appendVal (k : Str) (v : Str) : List (Str × List Str) → List (Str × List Str)
  | [] => [(k, [v])]
  | (k', vs) :: r => if k' == k then (k', vs ++ [v]) :: r else (k', vs) :: appendVal k v r

def metaLoop : List Str → Option Str → List (Str × List Str) → List (Str × List Str) × List Str
  | [], _, mt => (mt, [])
  | line :: rest, key, mt =>
    if isBlank line || isEnd line then (mt, rest)
    else match metaMatch line with
      | some (k, v) => metaLoop rest (some k) (appendVal k v mt)
      | none =>
        match key with
        | some k =>
          if leadingSpaces line ≥ 4 then metaLoop rest key (appendVal k (strip line) mt)
          else (mt, line :: rest)
        | none => (mt, line :: rest)

/-- `meta_preprocessor(lines)` -> (mt, remaining lines) -/
def metaPre (lines : List Str) : List (Str × List Str) × List Str :=
  match lines with
  | first :: rest => if isBegin first then metaLoop rest none [] else metaLoop lines none []
  | [] => ([], [])

/-! ### `convert_setting` -/

def tagOf (schema : List (Str × Tag × PyVal)) (k : Str) : Option Tag :=
  (aget k schema).map (·.1)

/-- `is_same_type(default_type, type(value))` -/
def sameType : Tag → PyVal → Bool
  | .bool, .atom (.bool _) => true
  | .noInit, .atom (.bool _) => true
  | .int, .atom (.int _) => true
  | .str, .atom (.str _) => true
  | .optStr, .atom (.str _) => true
  | .optStr, .none => true
  | .optPath, .none => true
  | .path, .atom (.path _) => true
  | .optPath, .atom (.path _) => true
  | .plainList, .list _ => true
  | _, _ => false

def allStrs : List Atom → Option (List Str)
  | [] => some []
  | .str s :: r => (allStrs r).map (s :: ·)
  | _ :: _ => none

/-- `convert_to_bool(name, option)` -/
def convertToBool (key : Str) : PyVal → Except Err PyVal
  | .list [.str s] =>
    match strToBool s with
    | some b => .ok (.atom (.bool b))
    | none => .error (.boolBad key)
  | .list [.bool b] => .ok (.atom (.bool b))
  | .list (_ :: _ :: _) => .error (.boolMulti key)
  | _ => .error .unmodelled

/-- `_parse_to_dict(string_list, name, sep)` -/
def parseToDict (sep : Char) (key : Str) : List Str → List (Str × Atom) → Except Err (List (Str × Atom))
  | [], acc => .ok acc
  | s :: rest, acc =>
    match splitOnce sep s with
    | none => .error (.dictSep key)
    | some (k, v) => parseToDict sep key rest (aset (strip k) (.str (strip v)) acc)

/-- `ExtraFileType.from_string` -/
def eftFromString (s : Str) : Except Err Eft :=
  match splitWs s with
  | [e, c] => .ok ⟨e, c, none⟩
  | [e, c, l] => .ok ⟨e, c, some l⟩
  | _ => .error .eftBad

def eftDict : List Str → List (Str × Atom) → Except Err (List (Str × Atom))
  | [], acc => .ok acc
  | s :: rest, acc =>
    match eftFromString s with
    | .error e => .error e
    | .ok ft => eftDict rest (aset ft.ext (.eft ft) acc)

/-- the dict branch of `convert_setting` on the filtered list of strings `resvalue` -/
def convertDictF (seps : List (Str × Str)) (t : Tag) (key : Str) (xs : List Str) : Except Err PyVal :=
  if t == .dictEft then
    match eftDict xs [] with
    | .ok d => .ok (.dict d)
    | .error e => .error e
  else
    match aget key seps with
    | some [sep] =>
      match parseToDict sep key xs [] with
      | .ok d => .ok (.dict d)
      | .error e => .error e
    | _ => .error (.noSeparator key)

/-- `resvalue = [v for v in resvalue if v]`, then the dict branch -/
def convertDict (seps : List (Str × Str)) (t : Tag) (key : Str) (xs : List Str) : Except Err PyVal :=
  convertDictF seps t key (xs.filter (fun s => !s.isEmpty))

/-- `convert_setting(default_type, key, value)` -/
def convertSetting (seps : List (Str × Str)) (t : Tag) (key : Str) (v : PyVal) : Except Err PyVal :=
  if sameType t v then .ok v
  else match t with
  | .plainList =>
    match v with
    | .atom a => .ok (.list [a])
    | _ => .error .unmodelled
  | .bool => convertToBool key v
  | .noInit => convertToBool key v
  | .int =>
    match v with
    | .list (.str s :: _) =>
      match parseInt (strip s) with
      | some i => .ok (.atom (.int i))
      | none => .error .intBad
    | _ => .error .unmodelled
  | .str | .optStr | .path | .optPath =>
    match v with
    | .list xs =>
      match allStrs xs with
      | some ss => .ok (.atom (.str (joinSep '\n' ss)))
      | none => .error .unmodelled
    | _ => .ok v
  | .dictStr | .dictEft =>
    match v with
    | .dict _ => .ok v
    | .atom (.str s) => convertDict seps t key [s]
    | .list xs =>
      match allStrs xs with
      | some ss => convertDict seps t key ss
      | none => .error .unmodelled
    | _ => .error .unmodelled
  | .listStr | .listPath | .other => .ok v

/-- `convert_types_from_metapreprocessor`: converts in dict order, drops unknown
    keys with a warning (second component), stops at the first error. -/
def convertMeta (schema : List (Str × Tag × PyVal)) (seps : List (Str × Str)) :
    Settings → Except Err (Settings × List Str)
  | [] => .ok ([], [])
  | (k, v) :: rest =>
    match tagOf schema k with
    | none =>
      match convertMeta schema seps rest with
      | .ok (s, w) => .ok (s, k :: w)
      | .error e => .error e
    | some t =>
      match convertSetting seps t k v with
      | .error e => .error e
      | .ok v' =>
        match convertMeta schema seps rest with
        | .ok (s, w) => .ok ((k, v') :: s, w)
        | .error e => .error e

/-! ### `ProjectSettings(**kwargs)` and `__post_init__` -/

def defaults (schema : List (Str × Tag × PyVal)) : Settings := schema.map (fun e => (e.1, e.2.2))

/-- keyword arguments over the defaults; an unknown / non-init keyword is a `TypeError` -/
def overlay (schema : List (Str × Tag × PyVal)) : Settings → Settings → Except Err Settings
  | [], s => .ok s
  | (k, v) :: rest, s =>
    match tagOf schema k with
    | none => .error (.unknownKw k)
    | some .noInit => .error (.unknownKw k)
    | some _ => overlay schema rest (aset k v s)

/-- the list-wrapping loop of `__post_init__` for one field -/
def wrapOne (t : Option Tag) (v : PyVal) : Except Err PyVal :=
  match t with
  | some .listStr | some .listPath =>
    match v with
    | .list _ => .ok v
    | .atom a => .ok (.list [a])
    | _ => .error .unmodelled
  | _ => .ok v

def wrapAll (schema : List (Str × Tag × PyVal)) : Settings → Except Err Settings
  | [] => .ok []
  | (k, v) :: rest =>
    match wrapOne (tagOf schema k) v with
    | .error e => .error e
    | .ok v' =>
      match wrapAll schema rest with
      | .ok r => .ok ((k, v') :: r)
      | .error e => .error e

def lowerAll : List Atom → Option (List Atom)
  | [] => some []
  | .str s :: r => (lowerAll r).map (.str (lower s) :: ·)
  | _ :: _ => none

def unionDedup (xs ys : List Atom) : List Atom := (xs ++ ys).eraseDups

def updateAll : List (Str × Str) → List (Str × Atom) → List (Str × Atom)
  | [], d => d
  | (k, v) :: r, d => updateAll r (aset k (.str v) d)

/-- `{**INTRINSIC_MODS, **extra_mods}` (variant `repaired`, fixes/C15-extra-mods-user-entry-wins.diff):
    the project's own entries are written over the built-in table -/
def overlayMods : List (Str × Atom) → List (Str × Atom) → List (Str × Atom)
  | [], d => d
  | (k, v) :: r, d => overlayMods r (aset k v d)

/-- the `extra_mods` line of `__post_init__`; `userWins = false` is the code as it is
    (`extra_mods.update(INTRINSIC_MODS)`: the built-in URL replaces the project's, finding
    C15-extra-mods-intrinsic-wins), `true` the repaired order -/
def mergeMods (userWins : Bool) (intrinsic : List (Str × Str)) (mods : List (Str × Atom)) : List (Str × Atom) :=
  if userWins then overlayMods mods (intrinsic.map (fun kv => (kv.1, .str kv.2)))
  else updateAll intrinsic mods

def markPairs : List (String × String) :=
  [("docmark", "predocmark"), ("docmark", "docmark_alt"), ("docmark", "predocmark_alt"),
   ("predocmark", "docmark_alt"), ("predocmark", "predocmark_alt"), ("docmark_alt", "predocmark_alt")]

def eftOfTbl (kvs : List (Str × Str)) : Option Eft :=
  match aget "extension".toList kvs, aget "comment".toList kvs with
  | some e, some c =>
    if kvs.all (fun kv => kv.1 == "extension".toList || kv.1 == "comment".toList || kv.1 == "lexer".toList)
    then some ⟨e, c, aget "lexer".toList kvs⟩ else none
  | _, _ => none

/-- `{ft.extension: ft for ft in [ExtraFileType(**d) for d in list]}` -/
def eftsOfList : List Atom → List (Str × Atom) → Option (List (Str × Atom))
  | [], acc => some acc
  | .tbl kvs :: r, acc =>
    match eftOfTbl kvs with
    | some ft => eftsOfList r (aset ft.ext (.eft ft) acc)
    | none => none
  | _ :: _, _ => none

def efts : List Atom → List (Str × Atom) → Option (List (Str × Atom))
  | [], acc => some acc
  | .eft ft :: r, acc => efts r (aset ft.ext (.eft ft) acc)
  | _ :: _, _ => none

def postInit (schema : List (Str × Tag × PyVal)) (intrinsic : List (Str × Str)) (s0 : Settings)
    (userWins : Bool := false) : Except Err Settings :=
  let s1 := aset "relative".toList (.atom (.bool (getD "project_url" s0 == .atom (.str [])))) s0
  match wrapAll schema s1 with
  | .error e => .error e
  | .ok s =>
  match getD "fixed_extensions" s, getD "extensions" s, getD "fpp_extensions" s,
        getD "extra_mods" s, getD "external" s, getD "display" s, getD "exclude_dir" s with
  | .list fixed, .list exts, .list fpp, .dict mods, .dict ext, .list disp, .list excl =>
    if fixed.any (fun f => exts.contains f) then .error .extClash
    else if mods.any (fun m => hasKey m.1 ext) then .error .modClash
    else
    match lowerAll disp with
    | none => .error .unmodelled
    | some disp' =>
      let outd : List Atom := match getD "output_dir" s with
        | .atom a => [a]
        | _ => []
      let s := aset "display".toList (.list disp') s
      let s := aset "extensions".toList (.list (unionDedup exts fpp)) s
      let s := aset "exclude_dir".toList (.list (excl ++ outd)) s
      let s := aset "extra_mods".toList (.dict (mergeMods userWins intrinsic mods)) s
      if markPairs.any (fun p => getD p.1 s == getD p.2 s && getD p.1 s != .atom (.str [])) then
        .error .docmarkClash
      else
        match getD "output_dir" s, getD "extra_filetypes" s with
        | .atom _, .list fts =>
          (match efts fts [] with
           | some d => .ok (aset "extra_filetypes".toList (.dict d) s)
           | none =>
             match eftsOfList fts [] with
             | some d => .ok (aset "extra_filetypes".toList (.dict d) s)
             | none => .error .unmodelled)
        | .atom _, _ => .ok s
        | _, _ => .error .unmodelled
  | _, _, _, _, _, _, _ => .error .unmodelled

/-- `ProjectSettings(**kw)` -/
def construct (schema : List (Str × Tag × PyVal)) (intrinsic : List (Str × Str)) (kw : Settings)
    (userWins : Bool := false) : Except Err Settings :=
  match overlay schema kw (defaults schema) with
  | .error e => .error e
  | .ok s => postInit schema intrinsic s userWins

/-! ### loaders -/

def mdRaw (mt : List (Str × List Str)) : Settings :=
  mt.map (fun kv => (kv.1, .list (kv.2.map .str)))

/-! (`normalise_path`; defined here because the include workaround resolves file names too) -/

def normSegs : List Str → List Str → List Str
  | [], acc => acc.reverse
  | seg :: rest, acc =>
    if seg == [] || seg == ['.'] then normSegs rest acc
    else if seg == ['.', '.'] then normSegs rest acc.tail
    else normSegs rest (seg :: acc)

/-- `(base_dir / p).absolute().resolve()` for an absolute `base_dir`, no symlinks, no `$` -/
def normPath (dir p : Str) : Str :=
  let full := if startsWith p ['/'] then p else dir ++ '/' :: p
  '/' :: joinSep '/' (normSegs (splitChar '/' full) [])

/-! ### the "file inclusion in metadata" workaround of `load_markdown_settings` (round 6)

    for option, value in settings.items():
        if isinstance(value, str) and MD_INCLUDE_RE.match(value):
            md_base_dir = settings.get("md_base_dir", directory)
            ... settings[option] = "\n".join(IncludePreprocessor(base_path=str(md_base_dir)).run(value.splitlines()))

  `MD_INCLUDE_RE = \{!\s*(.+?)\s*!\}`.  The model is exact on the documented shape of an include
  statement (`pre{! name !}post`, one per line, `name` free of blanks and of `{`, `}`, `!`, `~`; included
  files free of include statements) and `unmodelled` on every other text that contains `{!`. -/

/-- what the include step needs to know about the outside world -/
structure IncEnv where
  /-- the working directory -/
  cwd : Str := ['/']
  /-- `directory` as `initialize` computed it (`os.path.dirname` of the project file as typed) -/
  directory : Str := []
  /-- readable files: (normalised absolute name ↦ lines without line ends) -/
  files : List (Str × List Str) := []
  /-- variant switch (`repaired`): the base directory is `Path(directory) / md_base_dir` -/
  baseFromProject : Bool := false

/-- `"{!" in s` -/
def hasIncOpen : Str → Bool
  | [] => false
  | [_] => false
  | a :: b :: r => (a == '{' && b == '!') || hasIncOpen (b :: r)

/-- (text before the first `{!`, text after it) -/
def splitIncOpen : Str → Str → Option (Str × Str)
  | [], _ => none
  | [_], _ => none
  | a :: b :: r, acc =>
    if a == '{' && b == '!' then some (acc.reverse, r) else splitIncOpen (b :: r) (a :: acc)

def isIncNameChar (c : Char) : Bool :=
  !(isSpace c) && c != '!' && c != '{' && c != '}' && c != '~' && c != '$'

inductive IncLine
  | plain
  | inc (pre name post : Str)
  | other
  deriving DecidableEq, Repr

def incParse (line : Str) : IncLine :=
  match splitIncOpen line [] with
  | none => .plain
  | some (pre, rest) =>
    let r1 := rest.dropWhile isSpace
    let name := r1.takeWhile isIncNameChar
    let r2 := (r1.dropWhile isIncNameChar).dropWhile isSpace
    match name, r2 with
    | _ :: _, '!' :: '}' :: post => if hasIncOpen post then .other else .inc pre name post
    | _, _ => .other

/-- `os.path.join(base, name)` -/
def pjoin (base name : Str) : Str :=
  if startsWith name ['/'] || base.isEmpty then name else base ++ '/' :: name

def appendLast (post : Str) : List Str → List Str
  | [] => []
  | [x] => [x ++ post]
  | x :: y :: r => x :: appendLast post (y :: r)

/-- `text[0] = pre + text[0]; text[-1] = text[-1] + post` -/
def glue (pre post : Str) : List Str → List Str
  | [] => [pre ++ post]
  | t :: ts => appendLast post ((pre ++ t) :: ts)

/-- `IncludePreprocessor(base_path=base).run(lines)` on the modelled fragment -/
def runInclude (env : IncEnv) (base : Str) : List Str → Except Err (List Str)
  | [] => .ok []
  | l :: rest =>
    match runInclude env base rest with
    | .error e => .error e
    | .ok rest' =>
      match incParse l with
      | .plain => .ok (l :: rest')
      | .other => .error .unmodelled
      | .inc pre name post =>
        match aget (normPath env.cwd (pjoin base name)) env.files with
        | none =>   -- "could not find file ... Ignoring include statement"
          if hasIncOpen (pre ++ post) then .error .unmodelled else .ok ((pre ++ post) :: rest')
        | some text =>
          let new := glue pre post text
          if new.any hasIncOpen then .error .unmodelled else .ok (new ++ rest')

/-- `str.splitlines()` for `\n` only -/
def splitLines (s : Str) : List Str :=
  if s.isEmpty then [] else
  let ps := splitChar '\n' s
  if ps.getLast? == some [] then ps.dropLast else ps

/-- the base directory handed to `IncludePreprocessor` -/
def incBase (env : IncEnv) (cur : Settings) : Option Str :=
  match aget "md_base_dir".toList cur with
  | none => some (if env.baseFromProject then pjoin env.directory ['.'] else env.directory)
  | some (.atom (.str b)) => some (if env.baseFromProject then pjoin env.directory b else b)
  | some _ => none

/-- the loop over `settings.items()`; `cur` is the dict as it stands -/
def includeStep (env : IncEnv) : Settings → Settings → Except Err Settings
  | [], cur => .ok cur
  | (k, .atom (.str s)) :: rest, cur =>
    if startsWith s ['{', '!'] then
      match incBase env cur with
      | none => .error .unmodelled
      | some base =>
        match runInclude env base (splitLines s) with
        | .error e => .error e
        | .ok ls => includeStep env rest (aset k (.atom (.str (joinSep '\n' ls))) cur)
    else includeStep env rest cur
  | _ :: rest, cur => includeStep env rest cur

/-- does any converted value open with an include statement? (the decidable class outside which the
    include step is the identity) -/
def opensInclude : Settings → Bool
  | [] => false
  | (_, .atom (.str s)) :: rest => startsWith s ['{', '!'] || opensInclude rest
  | _ :: rest => opensInclude rest

/-- `load_markdown_settings`: preprocess, convert, convert again inside
    `from_markdown_metadata`, construct. -/
def loadMd (schema : List (Str × Tag × PyVal)) (seps : List (Str × Str)) (intrinsic : List (Str × Str))
    (lines : List Str) (userWins : Bool := false) (env : IncEnv := {}) : Except Err (Settings × List Str) :=
  match convertMeta schema seps (mdRaw (metaPre lines).1) with
  | .error e => .error e
  | .ok (kw, warns) =>
    match includeStep env kw kw with
    | .error e => .error e
    | .ok kw =>
    match convertMeta schema seps kw with
    | .error e => .error e
    | .ok (kw2, _) =>
      match construct schema intrinsic kw2 userWins with
      | .error e => .error e
      | .ok s => .ok (s, warns)

/-- `--config`: every key of the parsed TOML string is `setattr`-ed raw -/
def applyConfig : Settings → Settings → Settings
  | [], s => s
  | (k, v) :: rest, s => applyConfig rest (aset k v s)

/-- `convert_types_from_commandarguments` over the non-`None` entries of `vars(args)` -/
def applyCli (schema : List (Str × Tag × PyVal)) (seps : List (Str × Str)) :
    Settings → Settings → Except Err Settings
  | [], s => .ok s
  | (k, v) :: rest, s =>
    match tagOf schema k with
    | none => applyCli schema seps rest (aset k v s)
    | some t =>
      match convertSetting seps t k v with
      | .error e => .error e
      | .ok v' => applyCli schema seps rest (aset k v' s)

/-- `vars(parser.parse_args())` without its `None` entries, which is what
    `convert_types_from_commandarguments` acts on: argparse first sets every action's
    `dest` to the action's `default` (declaration order), then the options given on the
    command line (`given`) overwrite theirs.  An action whose default is not `None` is
    therefore *always* in the namespace, given or not. -/
def cliNamespace : List (Str × CliKind × Option PyVal) → Settings → Settings
  | [], _ => []
  | (dest, _, dflt) :: rest, given =>
    match aget dest given with
    | some v => (dest, v) :: cliNamespace rest given
    | none =>
      match dflt with
      | some d => (dest, d) :: cliNamespace rest given
      | none => cliNamespace rest given

/-! ### `normalise_paths` -/

def normAtom (dir : Str) : Atom → Option Atom
  | .str s => some (.path (normPath dir s))
  | .path s => some (.path (normPath dir s))
  | _ => none

def normAtoms (dir : Str) : List Atom → Option (List Atom)
  | [] => some []
  | a :: r =>
    match normAtom dir a, normAtoms dir r with
    | some a', some r' => some (a' :: r')
    | _, _ => none

def normField (dir : Str) (t : Option Tag) (v : PyVal) : Except Err PyVal :=
  match t with
  | some .listPath =>
    match v with
    | .none => .ok v
    | .list xs =>
      match normAtoms dir xs with
      | some ys => .ok (.list ys)
      | none => .error .unmodelled
    | .atom (.str s) => .ok (.list (s.map (fun c => .path (normPath dir [c]))))
    | _ => .error .unmodelled
  | some .path | some .optPath =>
    match v with
    | .none => .ok v
    | .atom a =>
      match normAtom dir a with
      | some a' => .ok (.atom a')
      | none => .error .unmodelled
    | _ => .error .unmodelled
  | _ => .ok v

def normAll (schema : List (Str × Tag × PyVal)) (dir : Str) : Settings → Except Err Settings
  | [] => .ok []
  | (k, v) :: rest =>
    match normField dir (tagOf schema k) v with
    | .error e => .error e
    | .ok v' =>
      match normAll schema dir rest with
      | .ok r => .ok ((k, v') :: r)
      | .error e => .error e

def truthy : PyVal → Bool
  | .none => false
  | .atom (.bool b) => b
  | .atom (.int i) => i != 0
  | .atom (.str s) => !s.isEmpty
  | .atom (.tbl kvs) => !kvs.isEmpty
  | .atom _ => true
  | .list xs => !xs.isEmpty
  | .dict kvs => !kvs.isEmpty

/-- `pathlib.PurePosixPath(s)` as far as `==` distinguishes two paths: anchored or not, and the
    segments without the empty and `.` ones (`a//b/./c/` is `a/b/c`; `..` is kept) -/
def pathParts (s : Str) : Bool × List Str :=
  (startsWith s ['/'], (splitChar '/' s).filter (fun g => !(g == [] || g == ['.'])))

/-- One "is this option still at its default?" test of `normalise_paths`, on the current value
    of the field.  `coerce = false` is `self.f == SENTINEL` (the sentinel is a `Path`, so a `str` -
    which is what every settings file, `--config` and the command line deliver - never equals it:
    only the untouched dataclass default does); `coerce = true` is `Path(self.f) == SENTINEL`
    (a written string that spells the sentinel is then taken for the default; `Path(x)` of a
    non-string is a `TypeError`: `none`).  `.path` values are `str(Path)`, i.e. already in
    pathlib's normal form. -/
def sentinelHit (coerce : Bool) (sentinel : Str) : PyVal → Option Bool
  | .atom (.path p) => some (p == sentinel)
  | .atom (.str p) => some (coerce && pathParts p == pathParts sentinel)
  | _ => if coerce then none else some false

def sentinelValue (dir pkg sentinel : Str) : SentinelRepl → PyVal
  | .packageFile => .atom (.path (pkg ++ '/' :: sentinel))
  | .projectDir => .atom (.path dir)

/-- the sentinel tests of `normalise_paths`, in source order, over the regenerated table
    (field, compared through `Path(...)`?, sentinel, replacement) -/
def applySentinels (dir pkg : Str) : List (Str × Bool × Str × SentinelRepl) → Settings → Except Err Settings
  | [], s => .ok s
  | (f, coerce, sent, repl) :: rest, s =>
    match sentinelHit coerce sent ((aget f s).getD .none) with
    | none => .error .unmodelled
    | some true => applySentinels dir pkg rest (aset f (sentinelValue dir pkg sent repl) s)
    | some false => applySentinels dir pkg rest s

/-- `ProjectSettings.normalise_paths(directory)`; `dir` is the absolute project
    directory, `pkg` the directory of the `ford` package (default favicon), `tests` the
    regenerated sentinel tests. -/
def normalisePaths (schema : List (Str × Tag × PyVal)) (tests : List (Str × Bool × Str × SentinelRepl))
    (dir pkg : Str) (s : Settings) : Except Err Settings :=
  let s := aset "directory".toList (.atom (.path dir)) s
  match applySentinels dir pkg tests s with
  | .error e => .error e
  | .ok s =>
  match normAll schema dir s with
  | .error e => .error e
  | .ok s =>
    if truthy (getD "relative" s) then .ok (aset "project_url".toList (getD "output_dir" s) s) else .ok s

/-! ### the rest of `parse_arguments` -/

def isAncestorOrSelf (out src : Str) : Bool :=
  out == src || out == ['/'] || startsWith src (out ++ ['/'])

def licenseOf (licenses : List (Str × Str)) (v : PyVal) : Except Err PyVal :=
  match v with
  | .atom (.str s) =>
    match aget (lower s) licenses with
    | some html => .ok (.atom (.str html))
    | none => .ok v
  | _ => .error .unmodelled

def finalize (licenses : List (Str × Str)) (s : Settings) : Except Err Settings :=
  match getD "creation_date" s, getD "src_dir" s, getD "output_dir" s with
  | .atom (.str _), .list srcs, .atom (.path out) =>
    if srcs.any (fun a => match a with | .path _ => false | _ => true) then .error .unmodelled
    else if srcs.any (fun a => match a with | .path p => isAncestorOrSelf out p | _ => false) then .error .srcInOut
    else
      match getD "gitter_sidecar" s with
      | .atom (.str _) | .none =>
        let pre : Except Err Settings :=
          if truthy (getD "preprocess" s) then
            match getD "preprocessor" s with
            | .atom (.str _) => .ok s
            | _ => .error .unmodelled
          else .ok (aset "fpp_extensions".toList (.list []) s)
        match pre with
        | .error e => .error e
        | .ok s =>
          match licenseOf licenses (getD "license" s) with
          | .error e => .error e
          | .ok l =>
            let s := aset "license".toList l s
            match licenseOf licenses (getD "doc_license" s) with
            | .error e => .error e
            | .ok dl => .ok (aset "doc_license".toList dl s)
      | _ => .error .unmodelled
  | _, _, _ => .error .unmodelled

/-! ### `initialize()` -/

structure Tables where
  schema : List (Str × Tag × PyVal)
  seps : List (Str × Str)
  intrinsic : List (Str × Str)
  licenses : List (Str × Str)
  /-- the "still the default?" tests of `normalise_paths` -/
  sentinels : List (Str × Bool × Str × SentinelRepl)
  cli : List (Str × CliKind × Option PyVal)
  /-- variant switch: the project's `extra_mods` entries win over `INTRINSIC_MODS` (repaired) -/
  modsUserWins : Bool := false
  /-- variant switch: `parse_arguments` appends the final output directory to `exclude_dir` (repair 4833068) -/
  excludeFinalOut : Bool := false

def generatedTables : Tables :=
  { schema := Generated.settingsSchema, seps := Generated.optionSeparators,
    intrinsic := Generated.intrinsicMods, licenses := Generated.licenses,
    sentinels := Generated.sentinelTests, cli := Generated.cliTable,
    excludeFinalOut := Generated.excludeFinalOutputDir }

/-- the tables with the variant `repaired` of the `extra_mods` merge -/
def generatedTablesModsRepaired : Tables := { generatedTables with modsUserWins := true }

/-- `load_settings`: `[extra.ford]` of fpm.toml when present, else the metadata block -/
def loadSettings (T : Tables) (toml : Option Settings) (md : List Str) (env : IncEnv := {}) :
    Except Err (Settings × List Str) :=
  match toml with
  | some kw =>
    match construct T.schema T.intrinsic kw T.modsUserWins with
    | .ok s => .ok (s, [])
    | .error e => .error e
  | none => loadMd T.schema T.seps T.intrinsic md T.modsUserWins env

/-- `if proj_data.output_dir not in proj_data.exclude_dir: proj_data.exclude_dir.append(proj_data.output_dir)`
    (both normalised by then; anything else than a list and a path is left alone) -/
def excludeOutputDir (s : Settings) : Settings :=
  match getD "exclude_dir" s, getD "output_dir" s with
  | .list xs, .atom (.path out) =>
    if xs.contains (.path out) then s else aset "exclude_dir".toList (.list (xs ++ [.path out])) s
  | _, _ => s

/-- `parse_arguments` after `load_settings`; `cli` holds the options given on the command
    line, the namespace FORD sees is `cliNamespace T.cli cli` -/
def parseArguments (T : Tables) (dir pkg : Str) (config : Option Settings) (cli : Settings) (s : Settings) :
    Except Err Settings :=
  let s := match config with
    | some kw => applyConfig kw s
    | none => s
  match applyCli T.schema T.seps (cliNamespace T.cli cli) s with
  | .error e => .error e
  | .ok s =>
    match normalisePaths T.schema T.sentinels dir pkg s with
    | .error e => .error e
    | .ok s => finalize T.licenses (if T.excludeFinalOut then excludeOutputDir s else s)

def effective (T : Tables) (dir pkg : Str) (toml : Option Settings) (md : List Str)
    (config : Option Settings) (cli : Settings) (env : IncEnv := {}) : Except Err (Settings × List Str) :=
  match loadSettings T toml md env with
  | .error e => .error e
  | .ok (s, w) =>
    match parseArguments T dir pkg config cli s with
    | .error e => .error e
    | .ok s => .ok (s, w)

/-- one field of the effective settings (for witnesses) -/
def effField (k : String) (r : Except Err (Settings × List Str)) : Option PyVal :=
  match r with
  | .ok (s, _) => aget k.toList s
  | .error _ => none

end Settings
end Ford
