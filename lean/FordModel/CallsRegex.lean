/-
  A small interpreter for the regular expressions that *guard* branches of the statement
  cascade of `FortranContainer.__init__` and whose only use is the boolean test
  `self.X_RE.match(line)` / `self.X_RE.search(line)` (FORMAT_RE, ARITH_GOTO_RE).

  The expressions themselves are **generated** from the compiled pattern objects of the
  working tree (`translate/c08.py`, parse tree of `re._parser`), so the model no longer
  carries a hand-written reading of them: editing such a regex in the source changes the
  constant the theorems of `Props/C08.lean` are stated over.

  Only the language matters for a boolean test (greedy / lazy order does not), so the
  interpreter returns *all* residual suffixes after a match at the start of the text
  (list-of-successes).  Supported: literals and classes (`\s \d \w`, negations, ranges,
  IGNORECASE on ASCII), `.`, concatenation, alternation, `* + ? {m,n}` (the translator
  expands all repeats to `star`/`alt`/`seq`), `^` and `$` without MULTILINE.  Anything else
  makes the translator raise.
-/
import FordModel.Basic.Chars
namespace Ford.Rx
open Ford

/-- one member of a character class -/
inductive Item
  | chr (c : Char)
  | range (lo hi : Char)
  | space | digit | word
  | nspace | ndigit | nword
  | notnl                                 -- `.` without DOTALL: anything but a line feed
  deriving Repr, DecidableEq

/-- ASCII upper-casing -/
def upperChar (c : Char) : Char :=
  if 'a' ≤ c ∧ c ≤ 'z' then Char.ofNat (c.toNat - 32) else c

def Item.has : Item → Char → Bool
  | .chr x, c => c == x
  | .range lo hi, c => lo ≤ c ∧ c ≤ hi
  | .space, c => isSpace c
  | .digit, c => isDigit c
  | .word, c => isWord c
  | .nspace, c => !isSpace c
  | .ndigit, c => !isDigit c
  | .nword, c => !isWord c
  | .notnl, c => c != '\n'

/-- does the class (`neg` = `[^…]`) contain `c`?  With IGNORECASE (`ci`) an item is hit when
    it contains the character, its lower-case or its upper-case form. -/
def setHas (ci neg : Bool) (items : List Item) (c : Char) : Bool :=
  neg != items.any (fun it => it.has c || (ci && (it.has (lowerChar c) || it.has (upperChar c))))

inductive Re
  | eps
  | bol                                   -- `^`
  | eol                                   -- `$`
  | set (neg : Bool) (items : List Item)  -- one character of a class; a literal is `[c]`
  | seq (a b : Re)
  | alt (a b : Re)
  | star (a : Re)
  deriving Repr

/-- iterate `f` (the residuals of one round) as long as a round consumes something -/
def runStar (f : Str → List Str) : Nat → Str → List Str
  | 0, s => [s]
  | fuel + 1, s => s :: ((f s).filter (fun t => t.length < s.length)).flatMap (runStar f fuel)

/-- all residual suffixes after a match of `r` at the start of `s`; `total` is the length of
    the whole subject (so `^` holds iff nothing has been consumed before `s`) -/
def run (ci : Bool) (total : Nat) : Re → Str → List Str
  | .eps, s => [s]
  | .bol, s => if s.length == total then [s] else []
  | .eol, s => if s.isEmpty then [s] else []
  | .set _ _, [] => []
  | .set neg items, c :: s => if setHas ci neg items c then [s] else []
  | .seq a b, s => (run ci total a s).flatMap (run ci total b)
  | .alt a b, s => run ci total a s ++ run ci total b s
  | .star a, s => runStar (run ci total a) (s.length + 1) s

/-- a compiled pattern: IGNORECASE flag and body -/
structure Pattern where
  ci : Bool
  body : Re
  deriving Repr

/-- does the pattern match at the start of the suffix `s` of a subject of length `total`? -/
def Pattern.matchAt (p : Pattern) (total : Nat) (s : Str) : Bool :=
  !(run p.ci total p.body s).isEmpty

/-- … at some position of `s` (every suffix, the empty one included) -/
def Pattern.searchFrom (p : Pattern) (total : Nat) : Str → Bool
  | [] => p.matchAt total []
  | c :: s => p.matchAt total (c :: s) || p.searchFrom total s

/-- `bool(p.search(s))` when `search`, else `bool(p.match(s))` -/
def Pattern.test (p : Pattern) (search : Bool) (s : Str) : Bool :=
  if search then p.searchFrom s.length s else p.matchAt s.length s

/-- the interpreted guards of the cascade: branch name, "used with `.search`", pattern -/
abbrev Guards := List (String × Bool × Pattern)

/-- the boolean test of branch `name` on `line`; a branch that is not listed never takes -/
def guardTest : Guards → String → Str → Bool
  | [], _, _ => false
  | (n, srch, p) :: rest, name, line => if n == name then p.test srch line else guardTest rest name line

end Ford.Rx
