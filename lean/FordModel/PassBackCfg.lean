/-
  The iterator protocol of `FortranReader` (FordModel/PassBack.lean) as regenerated from
  ford/reader.py by translate/c02.py: the order of the if/elif chain at the top of `__next__` and
  where `pass_back` puts the line.
-/
import FordModel.PassBack
import FordModel.Generated.C02
namespace Ford.PassBack

def slotOf (s : String) : Option Slot :=
  if s == "pending" then some .pending else if s == "docbuffer" then some .docbuffer else none

/-- which buffer `__next__` serves first, second (source order of the chain) -/
def readerOrder : List Slot := Generated.C02.queueOrder.filterMap slotOf

/-- `pass_back` inserts at the head of `pending` -/
def readerFront : Bool := Generated.C02.passBackFront

end Ford.PassBack
