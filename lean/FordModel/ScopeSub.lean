/-
  C07 - submodules.  A submodule is a scoping unit nested in its parent - the submodule
  `parent` of its ancestor module in `submodule (anc:parent) name`, else the ancestor module: it
  accesses the parent's entities by host association, its own declarations shadow them, and a
  separate module procedure (`module subroutine n` / `module procedure n`) implements the module
  procedure interface `n` it accesses from an ancestor.

  FORD, as the code is (`FortranCodeUnit.correlate`, `fortran_project.find_used_modules`):
  * the tables of a submodule start from its local declarations; then
    `all_X.update(parent_submodule.all_X)` if the parent submodule was found, else
    `all_X.update(ancestor_module.all_X)` - the parent's entries OVERWRITE the local ones
    (`SVariant.ancOverLocal`); then the USE imports;
  * the parent submodule is searched in the project's list of ALL submodules by its name alone
    (`SVariant.parentByName`): the first one of that name wins, whatever its ancestor module;
  * a separate module procedure `n` is paired with `all_procs.get(n)` (after the `update`, before
    the USE imports) if that is an interface body.
  No imports outside FordModel (linked into the driver).
-/
import FordModel.Scope
import FordModel.ScopeSpec
namespace Ford.Scope
open Ford

/-- header of a submodule: names of the ancestor module and of the parent submodule, the slots
    that hold the two references, and the separate module procedures it implements
    (slot of the interface reference, name) -/
structure SubInfo where
  anc : Str
  parent : Option Str
  ancSlot : Nat
  parSlot : Nat
  pairs : List (Nat × Str)
  deriving Repr

inductive UKind
  | mod
  | other
  | sub (i : SubInfo)
  deriving Repr

structure SVariant where
  ancOverLocal : Bool   -- the parent's tables are `update`d into the submodule's
  parentByName : Bool   -- the parent submodule is looked up by its name alone
  deriving DecidableEq, Repr

def SVariant.asFound : SVariant := ⟨true, true⟩
def SVariant.repaired : SVariant := ⟨false, false⟩

/-- a correlated module (`name = []`) or submodule -/
structure UnitRec where
  anc : Str     -- module: its own name; submodule: the name of its ancestor module (lower case)
  name : Str    -- submodule: its name (lower case)
  ent : Ent
  tabs : Tabs
  deriving Repr

structure PState where
  env : ModEnv              -- what USE sees of the modules
  mods : List UnitRec       -- the modules with their full tables (most recent first)
  subs : List UnitRec       -- the submodules
  deriving Repr

def PState.empty : PState := ⟨[], [], []⟩

def findUnit (us : List UnitRec) (anc name : Str) : Option UnitRec :=
  us.find? fun r => decide (r.anc = anc) && decide (r.name = name)

/-- `for submod in submodules: if parent_submodule_name == submod.name.lower(): ... break` over the
    project's list (`order` = the entities of the submodules in that list's order) -/
def findSubByName (order : List Ent) (subs : List UnitRec) (name : Str) : Option UnitRec :=
  order.findSome? fun e => subs.find? fun r => decide (r.ent = e) && decide (r.name = name)

def parentOf (sv : SVariant) (order : List Ent) (subs : List UnitRec) (i : SubInfo) : Option UnitRec :=
  match i.parent with
  | none => none
  | some p =>
    if sv.parentByName then findSubByName order subs (lower p) else findUnit subs (lower i.anc) (lower p)

def emptyTabs : Tabs := ⟨[], [], []⟩

/-- the tables host association starts from: the parent submodule's if one was found, else the
    ancestor module's -/
def hostTabs (sv : SVariant) (order : List Ent) (st : PState) (i : SubInfo) : Tabs :=
  match parentOf sv order st.subs i with
  | some r => r.tabs
  | none => match findUnit st.mods (lower i.anc) [] with
    | some m => m.tabs
    | none => emptyTabs

/-- tables of a module after `correlate` (a top-level unit: empty host tables) -/
def modTabs (v : Variant) (env : ModEnv) : Scope → Tabs
  | .mk _ _ _ uses decls _ kids => unitTabs v env [] [] [] uses decls kids

/-- tables of a submodule: local declarations, host association, USE -/
def subTabs (ancOverLocal : Bool) (env : ModEnv) (host : Tabs) (uses : List Use) (decls : List Decl) (kids : Kids) : Tabs :=
  let lp := localProcs decls kids
  if ancOverLocal then
    applyUses env uses ⟨host.p ++ lp, host.a ++ declsOf .ab decls, host.t ++ declsOf .ty decls⟩
  else
    applyUses env uses ⟨lp ++ host.p, declsOf .ab decls ++ host.a, declsOf .ty decls ++ host.t⟩

/-- the interface a separate module procedure is paired with: `self.all_procs.get(name)` after the
    parent's entries were brought in and before the USE imports - the parent's entry if it has one,
    else the submodule's own (both merge orders agree on that) - if it is an interface body
    (`pairable`) -/
def pairLookup (pairable : List Ent) (host : Tabs) (decls : List Decl) (kids : Kids) (n : Str) : Option Ent :=
  match tget (host.p ++ localProcs decls kids) (lower n) with
  | some e => if e ∈ pairable then some e else none
  | none => none

def pairSlots (pairable : List Ent) (host : Tabs) (decls : List Decl) (kids : Kids) : List (Nat × Str) → Res
  | [] => []
  | (i, n) :: r =>
    (⟨i, .pr, .early, n⟩, pairLookup pairable host decls kids n) :: pairSlots pairable host decls kids r

/-- `correlate` of a submodule: its tables (inherited by its own submodules) and its slots -/
def corrSub (v : Variant) (ancOverLocal : Bool) (env : ModEnv) (host : Tabs) : Scope → Tabs × Res
  | .mk _ _ _ uses decls slots kids =>
    let tb := subTabs ancOverLocal env host uses decls kids
    let early := resolvePhase .early tb slots
    let r1 := corrKids v env tb.p true tb.a tb.t kids
    let r2 := corrKids v env tb.p false r1.1 r1.2.1 kids
    let late := resolvePhase .late ⟨tb.p, r2.1, r2.2.1⟩ slots
    (⟨tb.p, if v.alias then r2.1 else tb.a, if v.alias then r2.2.1 else tb.t⟩,
     early ++ (r1.2.2 ++ (r2.2.2 ++ late)))

def scopeEnt : Scope → Ent
  | .mk _ e _ _ _ _ _ => e

def scopeDecls : Scope → List Decl
  | .mk _ _ _ _ d _ _ => d

def scopeKids : Scope → Kids
  | .mk _ _ _ _ _ _ k => k

/-- the references of a submodule to its ancestor module and parent submodule -/
def headSlots (sv : SVariant) (order : List Ent) (st : PState) (i : SubInfo) : Res :=
  [(⟨i.ancSlot, .pr, .early, i.anc⟩, (findUnit st.mods (lower i.anc) []).map (·.ent)),
   (⟨i.parSlot, .pr, .early, i.parent.getD []⟩, (parentOf sv order st.subs i).map (·.ent))]

/-- `Project.correlate` with submodules: units in dependency order (a submodule after its parent) -/
def corrProjectS (v : Variant) (sv : SVariant) (pairable order : List Ent) : PState → List (UKind × Scope) → Res
  | _, [] => []
  | st, (.mod, s) :: us =>
    corrUnit v st.env s ++
      corrProjectS v sv pairable order
        ⟨(lower (scopeName s), exportsOf st.env s) :: st.env,
         ⟨lower (scopeName s), [], scopeEnt s, modTabs v st.env s⟩ :: st.mods, st.subs⟩ us
  | st, (.other, s) :: us => corrUnit v st.env s ++ corrProjectS v sv pairable order st us
  | st, (.sub i, s) :: us =>
    let host := hostTabs sv order st i
    let r := corrSub v sv.ancOverLocal st.env host s
    headSlots sv order st i ++
      (pairSlots pairable host (scopeDecls s) (scopeKids s) i.pairs ++
        (r.2 ++
          corrProjectS v sv pairable order
            ⟨st.env, st.mods, ⟨lower i.anc, lower (scopeName s), scopeEnt s, r.1⟩ :: st.subs⟩ us))

/-! ### specification -/

/-- a module or submodule with the chain of frames a scope nested in it sees (innermost first) -/
structure SpecRec where
  anc : Str
  name : Str
  ent : Ent
  chain : List Frame

structure SpecState where
  env : ModEnv
  mods : List SpecRec
  subs : List SpecRec

def SpecState.empty : SpecState := ⟨[], [], []⟩

def findSpec (us : List SpecRec) (anc name : Str) : Option SpecRec :=
  us.find? fun r => decide (r.anc = anc) && decide (r.name = name)

/-- Fortran (F2018 14.2.3): the parent of `submodule (anc:parent) name` is the submodule `parent`
    of the module `anc`; of `submodule (anc) name` the module `anc` -/
def specParent (st : SpecState) (i : SubInfo) : Option SpecRec :=
  match i.parent with
  | none => none
  | some p => findSpec st.subs (lower i.anc) (lower p)

def specHostChain (st : SpecState) (i : SubInfo) : List Frame :=
  match i.parent with
  | some p => match findSpec st.subs (lower i.anc) (lower p) with
    | some r => r.chain
    | none => []
  | none => match findSpec st.mods (lower i.anc) [] with
    | some m => m.chain
    | none => []

/-- a separate module procedure implements the module procedure interface of its name that it
    accesses by host association - the innermost host frame that has the name decides - or, if no
    host has the name, the one the submodule declares itself (`lp` = its own procedure-like
    declarations) -/
def specPairs (pairable : List Ent) (ch : List Frame) (lp : Table) : List (Nat × Str) → Res
  | [] => []
  | (i, n) :: r =>
    (⟨i, .pr, .early, n⟩,
      match (match chainGet (·.p) ch (lower n) with
             | some e => some e
             | none => tget lp (lower n)) with
      | some e => if e ∈ pairable then some e else none
      | none => none) :: specPairs pairable ch lp r

def specProjectS (pairable : List Ent) : SpecState → List (UKind × Scope) → Res
  | _, [] => []
  | st, (.mod, s) :: us =>
    specScope st.env [] s ++
      specProjectS pairable
        ⟨(lower (scopeName s), (let f := frameOf st.env s; ⟨f.p, f.a, f.t⟩)) :: st.env,
         ⟨lower (scopeName s), [], scopeEnt s, [frameOf st.env s]⟩ :: st.mods, st.subs⟩ us
  | st, (.other, s) :: us => specScope st.env [] s ++ specProjectS pairable st us
  | st, (.sub i, s) :: us =>
    let ch := specHostChain st i
    [(⟨i.ancSlot, .pr, .early, i.anc⟩, (findSpec st.mods (lower i.anc) []).map (·.ent)),
     (⟨i.parSlot, .pr, .early, i.parent.getD []⟩, (specParent st i).map (·.ent))] ++
      (specPairs pairable ch (localProcs (scopeDecls s) (scopeKids s)) i.pairs ++
        (specScope st.env ch s ++
          specProjectS pairable
            ⟨st.env, st.mods, ⟨lower i.anc, lower (scopeName s), scopeEnt s, frameOf st.env s :: ch⟩ :: st.subs⟩ us))

def kindIsSub : UKind → Bool
  | .sub _ => true
  | _ => false

def kindIsMod : UKind → Bool
  | .mod => true
  | _ => false

end Ford.Scope
