/-
  C09 — footnote links and the state of the one Markdown converter of a run.

  `ford.main` builds ONE `MetaMarkdown` object; every text of the run goes through it:

      proj_docs           md.reset().convert(proj_docs, path=…)                (ford.main)
      entity doc comment  md.reset().convert(dedent(doc_list), context=self)   (FortranBase.markdown, in the loop of Project.markdown)
      `summary:` metadata md.convert(summary, context=self)                    (FortranBase.markdown, right after the doc comment)
      project summary     md.convert(proj_data.summary)                        (ford.main, after Project.markdown)
      author description  md.convert(proj_data.author_description)             (ford.main)
      static page         md.reset().convert(text, path=…)                     (PageNode.__init__)

  The footnote extension (`markdown.extensions.extra`) keeps the definitions `[^label]: text` it has met in an
  ordered table on the converter; `reset()` empties it.  A conversion renders

      <sup id="fnref:l"><a class="footnote-ref" href="#fn:l">…         for each reference `[^l]` whose label is in the table
      <li id="fn:l">… <a class="footnote-backref" href="#fnref:l">…     for EVERY entry of the table, below the text

  so the back-link of an entry that an earlier text left in the table points at an element that is not in this text.
  Which sites start from a reset converter is a regenerated fact (`Tables.resets`, probed on the real pipeline).
  Restriction: a label is referred to at most once per text (a second reference gets the id `fnref2:l`).
  Import-free (driver).
-/
import FordModel.Basic.Chars
namespace Ford.Footnotes

/-- the places where a text is converted -/
inductive Site where
  | projectDocs | entityDoc | entitySummary | projectSummary | authorDescription | staticPage
  deriving DecidableEq, Repr

structure Tables where
  /-- the sites whose conversion starts from a reset converter -/
  resets : List Site
  /-- the sites where only the FIRST conversion of the run does (a reset in front of a loop instead of inside it) -/
  resetsFirst : List Site := []
  deriving DecidableEq, Repr

/-- one conversion: where, is the text blank (`Markdown.convert` returns `""` for a text that is empty after
    `strip()` without running any processor: undocumented entities), the labels its text defines (`[^l]: …`) and
    refers to (`[^l]`) -/
structure Conv where
  site : Site
  blank : Bool
  defs : List Str
  refs : List Str
  deriving DecidableEq, Repr

/-- `footnotes[label] = text` on the ordered table: a label is stored once, at its first position -/
def addLabel (st : List Str) (l : Str) : List Str := if l ∈ st then st else st ++ [l]

def addLabels (st : List Str) (ls : List Str) : List Str := ls.foldl addLabel st

/-- the ids / fragments of the footnote links of one converted text -/
structure Out where
  /-- `id="fnref:l"` (and `href="#fn:l"`) of the references in the text -/
  refIds : List Str
  /-- `id="fn:l"` (and `href="#fnref:l"`) of the list of footnotes below the text -/
  noteIds : List Str
  deriving DecidableEq, Repr

/-- `md.convert(text)` on a converter whose table is `st`: new table, links -/
def convert (st : List Str) (c : Conv) : List Str × Out :=
  if c.blank then (st, { refIds := [], noteIds := [] }) else
  let st' := addLabels st c.defs
  (st', { refIds := c.refs.filter (fun l => decide (l ∈ st')), noteIds := st' })

/-- the table a conversion at this site starts from; `seen`: the sites that have converted something already -/
def start (T : Tables) (seen : List Site) (st : List Str) (c : Conv) : List Str :=
  if c.site ∈ T.resets then [] else if c.site ∈ T.resetsFirst ∧ c.site ∉ seen then [] else st

/-- all conversions of a run, in order, one converter -/
def convertAll (T : Tables) : List Site → List Str → List Conv → List Out
  | _, _, [] => []
  | seen, st, c :: cs =>
    let r := convert (start T seen st c) c
    r.2 :: convertAll T (c.site :: seen) r.1 cs

/-- every footnote link of a converted text names an element of the same text: each back-link
    `#fnref:l` a reference, each reference `#fn:l` an entry of the list -/
def linksOk (o : Out) : Bool :=
  o.noteIds.all (fun l => decide (l ∈ o.refIds)) && o.refIds.all (fun l => decide (l ∈ o.noteIds))

/-- the sites that convert the texts a user writes footnotes in (front page text, doc comments, static pages) -/
def mainSites : List Site := [.projectDocs, .entityDoc, .staticPage]

def allSites : List Site :=
  [.projectDocs, .entityDoc, .entitySummary, .projectSummary, .authorDescription, .staticPage]

def tablesOk (T : Tables) : Bool := mainSites.all (fun s => decide (s ∈ T.resets))

/-- the code as it is -/
def asIs : Tables := { resets := [.projectDocs, .entityDoc, .staticPage] }

def siteName : Site → Str
  | .projectDocs => ['p', 'r', 'o', 'j', 'e', 'c', 't', 'D', 'o', 'c', 's']
  | .entityDoc => ['e', 'n', 't', 'i', 't', 'y', 'D', 'o', 'c']
  | .entitySummary => ['e', 'n', 't', 'i', 't', 'y', 'S', 'u', 'm', 'm', 'a', 'r', 'y']
  | .projectSummary => ['p', 'r', 'o', 'j', 'e', 'c', 't', 'S', 'u', 'm', 'm', 'a', 'r', 'y']
  | .authorDescription => ['a', 'u', 't', 'h', 'o', 'r', 'D', 'e', 's', 'c', 'r', 'i', 'p', 't', 'i', 'o', 'n']
  | .staticPage => ['s', 't', 'a', 't', 'i', 'c', 'P', 'a', 'g', 'e']

def siteOf (s : Str) : Option Site := allSites.find? (fun x => siteName x == s)

end Ford.Footnotes
